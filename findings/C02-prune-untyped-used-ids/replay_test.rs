// ---------------------------------------------------------------------------
// C02 replay: prune with a tree blob and a data blob that share an id.
// APPEND TO crates/core/tests/integration/prune.rs
//
// Backup 1 stores `d/inner.txt`; the tree of `d` has id X.  Backup 2 adds a file whose content is exactly
// the serialized tree of `d`: its only chunk is a DATA blob with the same id X, stored in a data pack of its
// own (everything else is deduplicated).  Both snapshots stay.  Prune must not remove anything they need.
// ---------------------------------------------------------------------------
#[cfg(not(windows))]
#[rstest]
#[case::collision(true)]
#[case::control_no_collision(false)]
fn verif_replay_c02_prune_tree_and_data_blob_share_an_id(#[case] collide: bool) -> Result<()> {
    use std::{fs, path::{Path, PathBuf}, sync::Arc};

    use rustic_core::{
        Credentials, KeyOptions, Repository, RepositoryBackends, RepositoryOptions,
        repofile::{BlobType, MasterKey},
    };
    use rustic_testing::backend::in_memory_backend::InMemoryBackend;

    let be = RepositoryBackends::new(Arc::new(InMemoryBackend::new()), None);
    let repo = Repository::new(&RepositoryOptions::default(), &be)?.init(
        &Credentials::Masterkey(MasterKey::new()),
        &KeyOptions::default(),
        &ConfigOptions::default(),
    )?;

    let src = tempfile::tempdir()?;
    let base = src.path();
    fs::create_dir(base.join("d"))?;
    fs::write(base.join("d").join("inner.txt"), "inner content")?;
    let paths = PathList::from_iter(Some(base.to_path_buf()));
    let opts = BackupOptions::default().as_path(PathBuf::from("test"));

    // backup 1
    let repo = repo.to_indexed_ids()?;
    let _snap1 = repo.backup(&opts, &paths, SnapshotFile::default())?;
    let repo = repo.to_indexed()?;
    let d_node = repo.node_from_snapshot_path("latest:test/d", |_| true)?;
    let d_tree_id = d_node.subtree.expect("d must have a subtree");
    let mut file_bytes = repo.cat_blob(BlobType::Tree, &d_tree_id.to_hex().to_string())?.to_vec();
    if !collide {
        file_bytes.push(b'\n');
    }
    fs::write(base.join("a_file"), &file_bytes)?;

    // backup 2: only the chunk of `a_file` is new data
    let repo = repo.to_indexed_ids()?;
    let snap2 = repo.backup(&opts, &paths, SnapshotFile::default())?;
    let repo = repo.to_indexed()?;
    let file_node = repo.node_from_path(snap2.tree, &Path::new("test").join("a_file"))?;
    let content = file_node.content.clone().expect("file must have content");
    assert_eq!(content.len(), 1);
    assert_eq!(content[0].to_hex().to_string() == d_tree_id.to_hex().to_string(), collide, "test setup");
    let mut dumped = Vec::new();
    repo.dump(&file_node, &mut dumped)?;
    assert_eq!(dumped, file_bytes, "test setup: file readable before prune");

    // prune: nothing was forgotten, so nothing may be lost
    let repo = repo.drop_index();
    let prune_opts = PruneOptions::default()
        .instant_delete(true)
        .keep_delete(Span::default());
    let plan = repo.prune_plan(&prune_opts)?;
    repo.prune(&prune_opts, plan)?;

    let mut problems = Vec::new();
    let check_results = repo.check(CheckOptions::default().read_data(true))?;
    if check_results.is_ok().is_err() {
        problems.push(format!("check found errors: {:?}", check_results.0));
    }
    let repo = repo.to_indexed()?;
    let mut dumped = Vec::new();
    match repo.dump(&file_node, &mut dumped) {
        Ok(()) if dumped == file_bytes => {}
        Ok(()) => problems.push("dump of a_file returned wrong content after prune".to_string()),
        Err(err) => problems.push(format!("dump of a_file failed after prune: {err}")),
    }
    if let Err(err) = repo.get_tree(&d_tree_id) {
        problems.push(format!("reading tree of `d` failed after prune: {err}"));
    }
    assert!(problems.is_empty(), "prune lost data that existing snapshots need:\n{}", problems.join("\n"));
    Ok(())
}
