
// ---- native replay of the failing obligation C03.repair_index_first_pass (Verus): `be.remove(FileType::Index, ..)` is
// reached while existing packs are queued for re-reading (precondition `nothing queued` fails).
// History replayed on the real code: the order of index-file operations of `repair index --read-all` on an undamaged
// repository.  If an index file is removed before any new index file has been written, a run that is cut off right
// there leaves every pack of that file without an index entry -- no snapshot can be read until repair is run again.
mod verif_replay_c03_repair_index {
    use std::sync::{Arc, Mutex};

    use anyhow::Result;
    use bytes::Bytes;
    use rustic_core::{
        BackupOptions, BytesList, ConfigOptions, Credentials, FileType, Id, KeyOptions, PathList, ReadBackend,
        RepairIndexOptions, Repository, RepositoryBackends, RepositoryOptions, RusticResult, WriteBackend,
        repofile::{MasterKey, SnapshotFile},
    };
    use rustic_testing::backend::in_memory_backend::InMemoryBackend;

    #[derive(Debug, Clone)]
    struct OpRecording {
        inner: Arc<dyn WriteBackend>,
        ops: Arc<Mutex<Vec<(&'static str, FileType)>>>,
    }
    impl ReadBackend for OpRecording {
        fn location(&self) -> String {
            self.inner.location()
        }
        fn list_with_size(&self, tpe: FileType) -> RusticResult<Vec<(Id, u32)>> {
            self.inner.list_with_size(tpe)
        }
        fn read_full(&self, tpe: FileType, id: &Id) -> RusticResult<Bytes> {
            self.inner.read_full(tpe, id)
        }
        fn read_partial(&self, tpe: FileType, id: &Id, c: bool, o: u32, l: u32) -> RusticResult<Bytes> {
            self.inner.read_partial(tpe, id, c, o, l)
        }
        fn warmup_path(&self, tpe: FileType, id: &Id) -> String {
            self.inner.warmup_path(tpe, id)
        }
    }
    impl WriteBackend for OpRecording {
        fn create(&self) -> RusticResult<()> {
            self.inner.create()
        }
        fn write_bytes(&self, tpe: FileType, id: &Id, c: bool, buf: BytesList) -> RusticResult<()> {
            self.ops.lock().unwrap().push(("write", tpe));
            self.inner.write_bytes(tpe, id, c, buf)
        }
        fn remove(&self, tpe: FileType, id: &Id, c: bool) -> RusticResult<()> {
            self.ops.lock().unwrap().push(("remove", tpe));
            self.inner.remove(tpe, id, c)
        }
    }

    #[test]
    fn repair_index_read_all_writes_the_new_index_before_it_removes_the_old_one() -> Result<()> {
        let ops = Arc::new(Mutex::new(Vec::new()));
        let be = OpRecording { inner: Arc::new(InMemoryBackend::new()), ops: ops.clone() };
        let be = RepositoryBackends::new(Arc::new(be), None);
        let repo = Repository::new(&RepositoryOptions::default().no_cache(true), &be)?.init(
            &Credentials::Masterkey(MasterKey::new()),
            &KeyOptions::default(),
            &ConfigOptions::default(),
        )?;
        let repo = repo.to_indexed_ids()?;
        // back up this crate's own source directory: a few packs, one index file
        let paths = PathList::from_iter(Some(std::path::PathBuf::from("src/chunker")));
        let _ = repo.backup(&BackupOptions::default(), &paths, SnapshotFile::default())?;
        let repo = repo.drop_index();

        ops.lock().unwrap().clear();
        repo.repair_index(&RepairIndexOptions::default().read_all(true), false)?;
        let ops = ops.lock().unwrap().clone();

        let first_remove = ops.iter().position(|o| *o == ("remove", FileType::Index));
        let first_write = ops.iter().position(|o| *o == ("write", FileType::Index));
        assert!(first_remove.is_some() && first_write.is_some(), "read-all rewrites the index: {ops:?}");
        assert!(
            first_write < first_remove,
            "order of storage operations {ops:?}: the stored index file is removed before the rebuilt index is written"
        );
        Ok(())
    }
}
