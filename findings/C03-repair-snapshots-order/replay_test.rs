
// ---- native replay of the failing obligation C03.repair_snapshots (Verus): `be.save_file(&snap)` is reached while the
// trees the snapshot points to are still buffered in the TreeModifier (precondition `all new trees flushed` fails).
// History replayed on the real code: the order of the storage writes of `repair_snapshots` on the damaged fixture.
// If the first write of a snapshot file happens before any pack / index file is written, a run that is cut off right
// after it leaves a visible snapshot whose trees are not in the repository.
mod verif_replay_c03 {
    use std::sync::{Arc, Mutex};

    use anyhow::Result;
    use bytes::Bytes;
    use flate2::read::GzDecoder;
    use rustic_backend::LocalBackend;
    use rustic_core::{
        Credentials, FileType, Id, ReadBackend, RepairSnapshotsOptions, Repository, RepositoryBackends,
        RepositoryOptions, RusticResult, WriteBackend,
    };
    use std::{fs::File, path::Path};
    use tar::Archive;
    use tempfile::tempdir;

    #[derive(Debug, Clone)]
    struct OrderRecording {
        inner: Arc<dyn WriteBackend>,
        writes: Arc<Mutex<Vec<FileType>>>,
    }
    impl ReadBackend for OrderRecording {
        fn location(&self) -> String {
            self.inner.location()
        }
        fn list_with_size(&self, tpe: FileType) -> RusticResult<Vec<(Id, u32)>> {
            self.inner.list_with_size(tpe)
        }
        fn read_full(&self, tpe: FileType, id: &Id) -> RusticResult<Bytes> {
            self.inner.read_full(tpe, id)
        }
        fn read_partial(&self, tpe: FileType, id: &Id, c: bool, o: u32, l: u32) -> RusticResult<Bytes> {
            self.inner.read_partial(tpe, id, c, o, l)
        }
        fn warmup_path(&self, tpe: FileType, id: &Id) -> String {
            self.inner.warmup_path(tpe, id)
        }
    }
    impl WriteBackend for OrderRecording {
        fn create(&self) -> RusticResult<()> {
            self.inner.create()
        }
        fn write_bytes(&self, tpe: FileType, id: &Id, c: bool, buf: rustic_core::BytesList) -> RusticResult<()> {
            self.writes.lock().unwrap().push(tpe);
            self.inner.write_bytes(tpe, id, c, buf)
        }
        fn remove(&self, tpe: FileType, id: &Id, c: bool) -> RusticResult<()> {
            self.inner.remove(tpe, id, c)
        }
    }

    #[test]
    fn repaired_snapshot_is_written_after_its_trees_and_the_index() -> Result<()> {
        let dir = tempdir()?;
        let tar_gz = File::open(Path::new("tests/fixtures/").join("repo-index-missing-blob.tar.gz"))?;
        Archive::new(GzDecoder::new(tar_gz)).unpack(&dir)?;
        let local = LocalBackend::new(dir.path().join("repo").to_str().unwrap(), None)?;
        let writes = Arc::new(Mutex::new(Vec::new()));
        let be = OrderRecording { inner: Arc::new(local), writes: writes.clone() };
        let be = RepositoryBackends::new(Arc::new(be), None);
        let repo = Repository::new(&RepositoryOptions::default().no_cache(true), &be)?.open(&Credentials::password("geheim"))?;
        let snapshots = repo.get_all_snapshots()?;
        let repo = repo.to_indexed()?;
        let opts = RepairSnapshotsOptions::default().delete(true).suffix(".repaired");
        repo.repair_snapshots(&opts, snapshots, false)?;

        let writes = writes.lock().unwrap().clone();
        let first_snapshot = writes.iter().position(|t| *t == FileType::Snapshot).expect("a repaired snapshot is saved");
        let packs_before = writes[..first_snapshot].iter().filter(|t| **t == FileType::Pack).count();
        let index_before = writes[..first_snapshot].iter().filter(|t| **t == FileType::Index).count();
        assert!(
            packs_before >= 1 && index_before >= 1,
            "order of storage writes {writes:?}: the repaired snapshot is written before the pack / index holding its new trees"
        );
        Ok(())
    }
}
