// Native replay for finding C06/C18 "rabin chunker with accepted tiny parameters".
// Appended to crates/core/src/chunker/rabin.rs by tools/native_replay.sh (scratch worktree only).
#[cfg(test)]
mod verif_replay {
    use super::*;
    use std::io::Cursor;

    fn run(size: usize, min: usize, max: usize, len: usize) -> Vec<usize> {
        let data: Vec<u8> = (0..len).map(|i| (i.wrapping_mul(2654435761) >> 7) as u8).collect();
        let poly = 0x003D_A335_8B4D_C173;
        let rabin = Rabin64::new_with_polynom(6, &poly);
        let it = ChunkIter::new(rabin, size, min, max, Cursor::new(data.clone()), len).unwrap();
        let mut out = Vec::new();
        let mut cat = Vec::new();
        for c in it.take(100_000) {
            let c = c.unwrap();
            assert!(!c.is_empty(), "empty chunk");
            assert!(c.len() <= max, "chunk of {} bytes exceeds max {}", c.len(), max);
            out.push(c.len());
            cat.extend_from_slice(&c);
        }
        assert_eq!(cat, data, "concatenation of chunks differs from the stream");
        for l in &out[..out.len().saturating_sub(1)] {
            assert!(*l >= min);
        }
        out
    }

    #[test]
    fn accepted_min_below_buffer_size() {
        // (512, 1024, 2048) is accepted by check_rabin_params
        assert!(check_rabin_params(1024, 512, 2048).is_ok());
        let _ = run(1024, 512, 2048, 20_000);
    }

    #[test]
    fn accepted_min_below_window() {
        assert!(check_rabin_params(1024, 16, 2048).is_ok());
        let _ = run(1024, 16, 2048, 20_000);
    }

    #[test]
    fn chunk_size_zero_is_refused_not_a_panic() {
        assert!(check_rabin_params(0, 0, 0).is_err());
    }

    #[test]
    fn min_zero_is_refused_or_terminates() {
        // min = 0 must either be refused or chunking must still be a finite partition without empty chunks
        if check_rabin_params(1024, 0, 2048).is_ok() {
            let _ = run(1024, 0, 2048, 5_000);
        }
    }
}
