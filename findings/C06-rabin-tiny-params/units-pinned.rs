#![allow(unused_imports, unused_variables, unused_mut, dead_code, unused_assignments, non_snake_case, unreachable_code, unused_parens)]
use vstd::prelude::*;
verus! {
// ---- prelude: base.rs ----
// ===== common prelude (hand written; every `external_body` / `uninterp` here is an ASSUMPTION
// and is copied into the evidence by the assumption scanner) =====
global size_of usize == 8;

// --- error values: extraction rewrite R-err maps every `RusticError::new(..)/with_source(..)`
// expression (with its chained context calls) to `verr()`: kind, message and context are dropped.
pub struct RusticError { pub _opaque: u8 }
pub type RusticResult<T> = Result<T, Box<RusticError>>;

#[verifier::external_body]
pub fn verr() -> (e: Box<RusticError>)
{ unimplemented!() }
// ---- prelude: io.rs ----
// --- std::io::Read, as an abstract byte stream (ASSUMED contract of the std trait):
// the reader owns a ghost sequence `remaining()`; `read` delivers ANY non-empty prefix that fits
// (nondeterministic short reads), returns Ok(0) iff the stream is exhausted (or the buffer is
// empty), and on Err has consumed nothing ("If an error is returned then it must be guaranteed
// that no bytes were read").  `take(n).read_to_end(v)` appends min(n, |remaining|) bytes
// (it retries Interrupted itself).
pub struct IoError { pub _opaque: u8 }

#[verifier::external_body]
pub fn vstd_is_interrupted(e: &IoError) -> (b: bool)
{ unimplemented!() }

pub trait VReader: Sized {
    spec fn remaining(&self) -> Seq<u8>;
}

#[verifier::external_body]
pub fn vstd_take_read_to_end<R: VReader>(reader: &mut R, limit: u64, v: &mut Vec<u8>) -> (r: Result<usize, IoError>)
    ensures
        match r {
            Ok(n) => {
                &&& n as int == (if (limit as int) < old(reader).remaining().len() { limit as int } else { old(reader).remaining().len() as int })
                &&& final(v)@ == old(v)@ + old(reader).remaining().subrange(0, n as int)
                &&& final(reader).remaining() == old(reader).remaining().subrange(n as int, old(reader).remaining().len() as int)
            },
            Err(_) => true,
        },
{ unimplemented!() }

#[verifier::external_body]
pub fn vstd_read<R: VReader>(reader: &mut R, buf: &mut Vec<u8>) -> (r: Result<usize, IoError>)
    ensures
        final(buf)@.len() == old(buf)@.len(),
        match r {
            Ok(n) => {
                &&& n <= old(buf)@.len()
                &&& n <= old(reader).remaining().len()
                &&& (n == 0 <==> (old(reader).remaining().len() == 0 || old(buf)@.len() == 0))
                &&& final(buf)@.subrange(0, n as int) == old(reader).remaining().subrange(0, n as int)
                &&& final(reader).remaining() == old(reader).remaining().subrange(n as int, old(reader).remaining().len() as int)
            },
            Err(_) => final(reader).remaining() == old(reader).remaining(),
        },
{ unimplemented!() }
// ---- prelude: prelude.rs ----
// ===== C06 prelude: rolling hash stub + the mathematical definition of a content-defined cut =====

// Fingerprint of a 64-byte window under polynomial `poly`: UNINTERPRETED.  Nothing below depends
// on its value, only on it being a function of (poly, window) -- that is exactly "cut points depend
// only on the bytes in the window".
pub uninterp spec fn FP(poly: u64, w: Seq<u8>) -> u64;

pub open spec fn zeros(n: nat) -> Seq<u8> { Seq::new(n, |i: int| 0u8) }

// rustic_cdc::Rabin64 (third party).  ASSUMED contract, read from rustic_cdc-0.3.1
// src/rolling_hash.rs: the ring holds 64 bytes; `hash` is the fingerprint of the ring content
// (oldest byte first); `reset()` zeroes ring and hash; `prefill_window(it)` slides in at most 63
// bytes of `it`; `slide(b)` drops the oldest byte and appends b.
pub struct Rabin64 {
    pub hash: u64,
    pub window: Ghost<Seq<u8>>,
    pub poly: Ghost<u64>,
}

impl Rabin64 {
    pub open spec fn inv(&self) -> bool {
        self.window@.len() == 64 && self.hash == FP(self.poly@, self.window@)
    }
}

// window content after `reset(); prefill_window(s.iter())`: at most 63 leading bytes of s, left-padded with zeros
pub open spec fn prefill_win(s: Seq<u8>) -> Seq<u8> {
    let k = if s.len() < 63 { s.len() as int } else { 63int };
    zeros((64 - k) as nat) + s.subrange(0, k)
}

#[verifier::external_body]
pub fn vcdc_reset_prefill(rabin: &mut Rabin64, v: &Vec<u8>, a: usize, b: usize)
    requires a <= b <= v@.len(),
    ensures
        final(rabin).poly@ == old(rabin).poly@,
        final(rabin).window@ == prefill_win(v@.subrange(a as int, b as int)),
        final(rabin).inv(),
{ unimplemented!() }

#[verifier::external_body]
pub fn vcdc_slide(rabin: &mut Rabin64, byte: u8)
    requires old(rabin).inv(),
    ensures
        final(rabin).poly@ == old(rabin).poly@,
        final(rabin).window@ == old(rabin).window@.subrange(1, 64).push(byte),
        final(rabin).inv(),
{ unimplemented!() }

// ---- the specification of a cut, over the abstract stream `s` (bytes since the previous cut) ----

pub open spec fn sat_sub64(n: int) -> int { if n >= 64 { n - 64 } else { 0 } }

// window of the rolling hash when the chunk under construction is s[0..p]   (min <= p <= |s|)
pub open spec fn win(s: Seq<u8>, min: int, p: int) -> Seq<u8>
    decreases p - min
{
    if p <= min {
        prefill_win(s.subrange(sat_sub64(min), min))
    } else {
        win(s, min, p - 1).subrange(1, 64).push(s[p - 1])
    }
}

pub open spec fn cut_ok(s: Seq<u8>, min: int, p: int, mask: u64, poly: u64) -> bool {
    (FP(poly, win(s, min, p)) & mask) == 0
}

// n is THE length of the first chunk of stream s
pub open spec fn is_first_cut(s: Seq<u8>, min: int, max: int, mask: u64, poly: u64, n: int) -> bool {
    if s.len() < min {
        n == s.len()                       // short rest: one last chunk
    } else {
        &&& min <= n <= s.len()
        &&& n <= max
        &&& forall|q: int| min <= q < n ==> !cut_ok(s, min, q, mask, poly)   // no earlier fingerprint hit
        &&& (n == max || cut_ok(s, min, n, mask, poly) || n == s.len())      // stopped for a reason
    }
}

// ---- lemmas over the contract (not over code) ----

// win depends only on the first p bytes
pub proof fn lemma_win_prefix(s1: Seq<u8>, s2: Seq<u8>, min: int, p: int)
    requires 0 <= min <= p, p <= s1.len(), p <= s2.len(), s1.subrange(0, p) == s2.subrange(0, p),
    ensures win(s1, min, p) == win(s2, min, p),
    decreases p - min
{
    if p <= min {
        assert(s1.subrange(sat_sub64(min), min) =~= s1.subrange(0, p).subrange(sat_sub64(min), min));
        assert(s2.subrange(sat_sub64(min), min) =~= s2.subrange(0, p).subrange(sat_sub64(min), min));
    } else {
        assert(s1.subrange(0, p - 1) =~= s1.subrange(0, p).subrange(0, p - 1));
        assert(s2.subrange(0, p - 1) =~= s2.subrange(0, p).subrange(0, p - 1));
        lemma_win_prefix(s1, s2, min, p - 1);
        assert(s1[p - 1] == s1.subrange(0, p)[p - 1]);
        assert(s2[p - 1] == s2.subrange(0, p)[p - 1]);
    }
}

// L06.u  the first chunk length is unique: it is a function of the stream alone, hence independent
// of how the reader fragments its reads (the contract of `next` mentions only the stream).
pub proof fn lemma_first_cut_unique(s: Seq<u8>, min: int, max: int, mask: u64, poly: u64, n1: int, n2: int)
    requires is_first_cut(s, min, max, mask, poly, n1), is_first_cut(s, min, max, mask, poly, n2), min <= max,
    ensures n1 == n2,
{
    if s.len() >= min {
        if n1 < n2 {
            assert(!cut_ok(s, min, n1, mask, poly));
        }
        if n2 < n1 {
            assert(!cut_ok(s, min, n2, mask, poly));
        }
    }
}

// L06.a  suffix stability: whether n is the first cut is decided by the n bytes up to the cut alone
// (plus whether the stream ends there), so two streams that agree from a common cut onwards are
// cut identically from there on.
pub proof fn lemma_cut_depends_only_on_chunk(s1: Seq<u8>, s2: Seq<u8>, min: int, max: int, mask: u64, poly: u64, n: int)
    requires
        0 <= min <= max,
        is_first_cut(s1, min, max, mask, poly, n),
        n <= s2.len(), n <= s1.len(),
        s1.subrange(0, n) == s2.subrange(0, n),
        (n == s1.len()) == (n == s2.len()),
    ensures is_first_cut(s2, min, max, mask, poly, n),
{
    if s1.len() >= min {
        assert forall|q: int| min <= q <= n implies cut_ok(s1, min, q, mask, poly) == cut_ok(s2, min, q, mask, poly) by {
            assert(s1.subrange(0, q) =~= s1.subrange(0, n).subrange(0, q));
            assert(s2.subrange(0, q) =~= s2.subrange(0, n).subrange(0, q));
            lemma_win_prefix(s1, s2, min, q);
        }
    }
}

// L06.b  from 64 bytes past the minimum on, the window is exactly the most recent 64 bytes
pub proof fn lemma_win_is_last_64(s: Seq<u8>, min: int, p: int)
    requires 0 <= min, min + 64 <= p <= s.len(),
    ensures win(s, min, p) == s.subrange(p - 64, p),
{
    lemma_win_shape(s, min, p, 64);
}

// after k slides (1 <= k <= 64) the last k window bytes are the last k stream bytes and len is 64
pub proof fn lemma_win_shape(s: Seq<u8>, min: int, p: int, k: int)
    requires 0 <= min, 0 <= k <= 64, min + k <= p <= s.len(),
    ensures win(s, min, p).len() == 64, win(s, min, p).subrange(64 - k, 64) == s.subrange(p - k, p),
    decreases k
{
    lemma_win_len(s, min, p);
    if k == 0 {
        assert(win(s, min, p).subrange(64, 64) =~= s.subrange(p, p));
    } else {
        lemma_win_shape(s, min, p - 1, k - 1);
        let w0 = win(s, min, p - 1);
        let w1 = win(s, min, p);
        assert(w1 == w0.subrange(1, 64).push(s[p - 1]));
        assert forall|i: int| 0 <= i < k implies #[trigger] w1.subrange(64 - k, 64)[i] == s.subrange(p - k, p)[i] by {
            if i < k - 1 {
                assert(w1[64 - k + i] == w0[64 - k + i + 1]);
                assert(w0.subrange(64 - (k - 1), 64)[i] == s.subrange(p - 1 - (k - 1), p - 1)[i]);
            }
        }
        assert(w1.subrange(64 - k, 64) =~= s.subrange(p - k, p));
    }
}

pub proof fn lemma_win_len(s: Seq<u8>, min: int, p: int)
    requires 0 <= min <= p <= s.len(),
    ensures win(s, min, p).len() == 64,
    decreases p - min
{
    if p <= min {
    } else {
        lemma_win_len(s, min, p - 1);
    }
}

// rustic_cdc::Rabin64::reset_and_prefill_window (the optimised variant): it does NOT clear the
// ring, so it equals reset()+prefill_window() only when it is given at least 63 bytes (the ring is
// then completely overwritten).  With fewer bytes stale bytes of the previous chunk stay in the
// ring; that case is outside this assumed contract (requires).
#[verifier::external_body]
pub fn vcdc_reset_and_prefill(rabin: &mut Rabin64, v: &Vec<u8>, a: usize, b: usize)
    requires a <= b <= v@.len(), b - a >= 63,
    ensures
        final(rabin).poly@ == old(rabin).poly@,
        final(rabin).window@ == prefill_win(v@.subrange(a as int, b as int)),
        final(rabin).inv(),
{ unimplemented!() }
// ---- prelude: rabin_specs.rs ----
// ===== C06: hand-written specification over the extracted rabin::ChunkIter =====

// parameter triples the library accepts (taken from the property: "all accepted parameters")
pub open spec fn rabin_params_ok(size: usize, min: usize, max: usize) -> bool {
    &&& size != 0 && (size & ((size - 1) as usize)) == 0     // power of two
    &&& 1 <= min <= size <= max
}

#[verifier::external_body]
pub fn vzeroed_vec(n: usize) -> (v: Vec<u8>)
    ensures v@.len() == n, forall|i: int| 0 <= i < n ==> v@[i] == 0u8,
{ unimplemented!() }

impl<R: VReader> ChunkIter<R> {
    // the bytes this chunker has not yet handed out: unread part of its buffer, then the reader's rest
    spec fn stream(&self) -> Seq<u8> {
        self.buf@.subrange(self.pos as int, self.buf@.len() as int) + self.reader.remaining()
    }

    spec fn wf_core(&self) -> bool {
        &&& self.pos <= self.buf@.len()
        &&& 1 <= self.buf@.len()
        &&& 1 <= self.min_size <= self.max_size
    }

    spec fn wf(&self) -> bool {
        &&& self.wf_core()
        &&& (self.finished ==> self.stream().len() == 0)
    }

    spec fn same_params(&self, o: Self) -> bool {
        &&& self.min_size == o.min_size
        &&& self.max_size == o.max_size
        &&& self.split_mask == o.split_mask
        &&& self.rabin.poly@ == o.rabin.poly@
    }
}
// ---- unit constants  (crates/core/src/chunker/rabin.rs :: pub(super) mod constants {) ----
pub mod constants {
    /// The size of a kilobyte.
    pub const KB: usize = 1024;
    /// Buffer size used for reading - TODO: Find out optimal size for best performance!
    pub const BUF_SIZE: usize = 4 * KB;
    /// Random polynomial maximum tries.
    pub const RAND_POLY_MAX_TRIES: i32 = 1_000_000;
}
// ---- unit RabinChunkIter  (crates/core/src/chunker/rabin.rs :: pub(crate) struct ChunkIter<R: Read + Send> {) ----
pub(crate) struct ChunkIter<R: VReader> {
    /// The buffer used for reading.
    buf: Vec<u8>,

    /// The position in the buffer.
    pos: usize,

    /// The reader.
    reader: R,

    /// The split mask used to determine if a chunk is a chunk boundary.
    split_mask: u64,

    /// The rolling hash.
    rabin: Rabin64,

    /// The size hint is used to optimize memory allocation; this should be an upper bound on the size.
    size_hint: usize,

    /// The minimum size of a chunk.
    min_size: usize,

    /// The maximum size of a chunk.
    max_size: usize,

    /// If the iterator is finished.
    finished: bool,
}
// ---- unit check_rabin_params  (crates/core/src/chunker/rabin.rs :: pub(crate) fn check_rabin_params() ----
pub(crate) fn check_rabin_params(
    chunk_size: usize,
    chunk_min_size: usize,
    chunk_max_size: usize,
) -> (r: RusticResult<()>)

    ensures
        /*@accepts_iff*/ r.is_ok() <==> rabin_params_ok(chunk_size, chunk_min_size, chunk_max_size),
{
    if (chunk_size & (chunk_size - 1)) != 0 {
        return Err(verr()



);
    }
    if chunk_min_size > chunk_size {
        return Err(verr()


);
    }
    if chunk_max_size < chunk_size {
        return Err(verr()


);
    }
    Ok(())
}

// ---- unit rabin_new  (crates/core/src/chunker/rabin.rs :: pub(crate) fn new() ----
impl<R: VReader> ChunkIter<R> {
pub(crate) fn new(
        rabin: Rabin64,
        chunk_size: usize,
        chunk_min_size: usize,
        chunk_max_size: usize,
        reader: R,
        size_hint: usize,
    ) -> (r: RusticResult<Self>)

    ensures
        /*@new_accepts_iff*/ r.is_ok() <==> rabin_params_ok(chunk_size, chunk_min_size, chunk_max_size),
        /*@new_wf*/ match r {
            Ok(c) => {
                &&& c.wf()
                &&& c.stream() == reader.remaining()
                &&& c.min_size == chunk_min_size && c.max_size == chunk_max_size
                &&& c.split_mask == (chunk_size - 1) as u64
                &&& c.rabin.poly@ == rabin.poly@
                &&& !c.finished
            },
            Err(_) => true,
        },
{
        check_rabin_params(chunk_size, chunk_min_size, chunk_max_size)?;
        let chunk_size: u64 = (chunk_size as u64);
        let split_mask: u64 = chunk_size - 1;
        Ok(Self {
            buf: vzeroed_vec(constants::BUF_SIZE),
            pos: constants::BUF_SIZE,
            reader,
            split_mask,
            rabin,
            size_hint, // size hint is used to optimize memory allocation; this should be an upper bound on the size
            min_size: chunk_min_size,
            max_size: chunk_max_size,
            finished: false,
        })
    }

}
// ---- unit rabin_next  (crates/core/src/chunker/rabin.rs :: fn next(&mut self)) ----
impl<R: VReader> ChunkIter<R> {
#[verifier::exec_allows_no_decreases_clause]
fn next(&mut self) -> (ret: Option<RusticResult<Vec<u8>>>)

    requires
        old(self).wf(),
    ensures
        /*@wf_preserved*/ final(self).wf(),
        /*@params_frame*/ final(self).same_params(*old(self)),
        match ret {
            None => /*@none_only_at_end*/ old(self).stream().len() == 0 && final(self).stream().len() == 0,
            Some(Ok(v)) => {
                &&& /*@partition*/ v@ + final(self).stream() == old(self).stream()
                &&& /*@nonempty*/ 1 <= v@.len()
                &&& /*@max_bound*/ v@.len() <= old(self).max_size
                &&& /*@min_bound_unless_last*/ (v@.len() < old(self).min_size ==> final(self).stream().len() == 0)
                &&& /*@cut_at_first_fingerprint_hit*/ is_first_cut(old(self).stream(), old(self).min_size as int, old(self).max_size as int,
                                 old(self).split_mask, old(self).rabin.poly@, v@.len() as int)
            },
            Some(Err(_)) => true,
        },
{
        if self.finished {
            return None;
        }

        let mut min_size = self.min_size;
        let mut vec = Vec::with_capacity(self.size_hint.min(min_size));

        // check if some bytes exist in the buffer and if yes, use them
        let open_buf_len = self.buf.len() - self.pos;
        if open_buf_len > 0 {
            vec.resize(open_buf_len, 0);
            vec.copy_from_slice(&self.buf[self.pos..]);
            self.pos = self.buf.len();
            min_size -= open_buf_len;
        }

        let ghost s0 = self.stream();
        let ghost vec0 = vec@;
        assert(vec0 + s0 =~= old(self).stream());
        let size = match vstd_take_read_to_end(&mut self.reader, min_size as u64, &mut vec)


        {
            Ok(size) => size,
            Err(err) => {
                return Some(Err(verr()



));
            }
        };

        // If self.min_size is not reached, we are done.
        // Note that the read data is of size size + open_buf_len and self.min_size = minsize + open_buf_len
        if size < min_size {
            self.finished = true;
            vec.truncate(size + open_buf_len);
            return if vec.is_empty() { None } else { Some(Ok(vec)) };
        }

        vcdc_reset_and_prefill(&mut self.rabin, &vec, vec.len() - 64, vec.len());



        loop 


            invariant
                self.wf_core(),
                self.same_params(*old(self)),
                !old(self).finished,
                self.rabin.inv(),
                self.min_size <= vec@.len() <= self.max_size,
                vec@ + self.stream() == old(self).stream(),
                self.rabin.window@ == win(old(self).stream(), self.min_size as int, vec@.len() as int),
                forall|q: int| self.min_size <= q < vec@.len() ==> !cut_ok(old(self).stream(), self.min_size as int, q, self.split_mask, self.rabin.poly@),
                self.finished ==> self.stream().len() == 0,
{
            if vec.len() >= self.max_size {
                break;
            }

            if (self.rabin.hash & self.split_mask) == 0 {
                break;
            }

            if self.buf.len() == self.pos {
                match vstd_read(&mut self.reader, &mut self.buf) {
                    Ok(0) => {
                        self.finished = true;
                        break;
                    }
                    Ok(size) => {
                        self.pos = 0;
                        self.buf.truncate(size);
                    }

                    Err(ref e) if vstd_is_interrupted(e) => continue,
                    Err(err) => {
                        return Some(Err(verr()



));
                    }
                }
            }

            let byte = self.buf[self.pos];
            vec.push(byte);
            self.pos += 1;
            vcdc_slide(&mut self.rabin, byte);
        }
        self.size_hint = self.size_hint.saturating_sub(vec.len()); // size_hint can be too small!
        Some(Ok(vec))
    }

}

proof fn canary_rabin_next<R: VReader>(c: ChunkIter<R>)
    requires c.wf(), !c.finished, c.stream().len() > 0
    ensures false
{}
} // verus!
fn main() {}
