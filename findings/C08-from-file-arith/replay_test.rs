// Native replay for C08 (C04/C05) finding: PackHeader::from_file arithmetic on short / forged packs
// (appended to repofile/packfile.rs in a scratch worktree)
#[cfg(test)]
mod verif_replay {
    use super::*;
    use crate::backend::{MockBackend, decrypt::DecryptBackend};
    use crate::crypto::aespoly1305::Key;
    use bytes::Bytes;
    use std::sync::Arc;

    // a backend that honours the ranged-read contract: it returns exactly `length` bytes, all `fill`
    fn be(fill: u8) -> DecryptBackend<Key> {
        let mut backend = MockBackend::new();
        let _ = backend
            .expect_read_partial()
            .returning(move |_, _, _, _, length| Ok(Bytes::from(vec![fill; length as usize])));
        DecryptBackend::new(Arc::new(backend), Key::new())
    }

    #[test]
    fn truncated_pack_is_an_error_not_a_panic() {
        // the index says the header is 100 bytes, the pack file on storage has only 50 bytes
        let r = PackHeader::from_file(&be(0), PackId::default(), Some(100), 50);
        assert!(r.is_err());
        // pack shorter than the length field
        let r = PackHeader::from_file(&be(0), PackId::default(), None, 2);
        assert!(r.is_err());
    }

    #[test]
    fn forged_header_length_is_an_error_not_a_panic() {
        // trailing length field claims 0xFFFF_FFFF header bytes
        let r = PackHeader::from_file(&be(0xff), PackId::default(), None, 1000);
        assert!(r.is_err());
        // huge size hint from a damaged index
        let r = PackHeader::from_file(&be(0), PackId::default(), Some(u32::MAX), 1000);
        assert!(r.is_err());
    }
}
