// Native replay for C08/C18 finding: BasicPacker::write_data overflows the u32 pack size
// (appended to blob/packer.rs in a scratch worktree).  Uses one shared 100 MiB buffer, so the
// >4 GiB pack exists only logically.
#[cfg(test)]
mod verif_replay {
    use super::*;
    use crate::id::Id;

    #[test]
    fn pack_size_never_overflows_u32() {
        // accepted configuration: datapack size (limit) 4 GiB-ish, chunk max size 100 MiB
        let mut packer = BasicPacker::new(BlobType::Data, PackSizer::fixed(u32::MAX));
        let chunk = Bytes::from(vec![0u8; 100 * 1024 * 1024]);
        let mut rng = rand::rng();
        let mut n = 0u64;
        while !packer.should_save() {
            let id = BlobId::from(Id::random_from_rng(&mut rng));
            match packer.add_raw(chunk.clone(), &id, 0, None) {
                Ok(()) => n += 1,
                Err(_) => return, // refusing to grow beyond u32 is fine: a result or an error, never a panic
            }
            assert!(n < 100);
        }
        // if the pack was accepted, offsets/lengths of the index must add up to the bytes written
        let (file, index) = packer.take_data();
        let total: u64 = index.blobs.iter().map(|b| u64::from(b.location.length)).sum();
        assert_eq!(total, file.size() as u64);
        let last = index.blobs.last().unwrap();
        assert_eq!(u64::from(last.location.offset) + u64::from(last.location.length), total);
    }
}
