// Native replay for C09 findings: equal_minute / equal_week (appended to commands/forget.rs in a scratch worktree)
#[cfg(test)]
mod verif_replay {
    use super::*;
    use jiff::{civil::DateTime, tz::TimeZone};
    use std::str::FromStr;

    fn sn(t: &str) -> SnapshotFile {
        let time = DateTime::from_str(t).unwrap().to_zoned(TimeZone::UTC).unwrap();
        SnapshotFile { time, ..SnapshotFile::default() }
    }

    #[test]
    fn minute_rule_distinguishes_days_and_hours() {
        // same minute-of-hour, same half-year, different day and hour: not the same minute
        assert!(!equal_minute(&sn("2016-01-04T10:20:00"), &sn("2016-03-09T07:20:00")));
        assert!(equal_minute(&sn("2016-01-04T10:20:05"), &sn("2016-01-04T10:20:55")));
    }

    #[test]
    fn week_rule_uses_iso_week_year() {
        // 2019-01-01 is ISO 2019-W01, 2019-12-30 is ISO 2020-W01: different weeks
        assert!(!equal_week(&sn("2019-01-01T12:00:00"), &sn("2019-12-30T12:00:00")));
        // 2015-12-31 and 2016-01-01 are both ISO 2015-W53: same week
        assert!(equal_week(&sn("2015-12-31T12:00:00"), &sn("2016-01-01T12:00:00")));
    }

    #[test]
    fn keep_minutely_keeps_newest_of_each_distinct_minute() {
        // three snapshots in three different minutes that share the minute-of-hour
        let snaps = vec![sn("2016-01-04T10:20:00"), sn("2016-01-05T11:20:00"), sn("2016-01-06T12:20:00")];
        let opts = KeepOptions::default().keep_minutely(3);
        let now = sn("2017-01-01T00:00:00").time;
        let res = opts.apply(snaps, &now).unwrap();
        assert_eq!(res.iter().filter(|s| s.keep).count(), 3);
    }
}
