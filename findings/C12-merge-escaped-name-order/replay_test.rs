// ---------------------------------------------------------------------------------------------
// C12: merging snapshots must yield the UNION of their paths (one entry per name).
// APPEND TO crates/core/src/commands/merge.rs (in-crate unit test with a small in-memory backend).
// Two snapshots of the same directory are merged.  The directory holds two files whose names sort
// differently as raw bytes (the order trees are stored in) and as escaped strings (the order
// merge_trees' heap uses): `x"` (0x22, stored escaped as `x\"`) and `x#` (0x23).
// ---------------------------------------------------------------------------------------------
#[cfg(test)]
mod verif_replay_c12_merge {
    use std::{
        collections::BTreeMap,
        fs,
        path::PathBuf,
        sync::{Arc, RwLock},
    };

    use bytes::Bytes;
    use tempfile::tempdir;

    use crate::{
        BackupOptions, BytesList, ConfigOptions, Credentials, FileType, Id, KeyOptions, PathList, ReadBackend,
        Repository, RepositoryBackends, RepositoryOptions, WriteBackend, last_modified_node,
        repofile::MasterKey,
    };

    use super::*;

    /// Minimal in-memory repository backend (crate-internal twin of
    /// `rustic_testing::backend::in_memory_backend::InMemoryBackend`).
    #[derive(Debug, Default)]
    struct MemBackend(RwLock<BTreeMap<(String, Id), Bytes>>);

    impl ReadBackend for MemBackend {
        fn location(&self) -> String {
            "verif-replay-mem".to_string()
        }

        fn list_with_size(&self, tpe: FileType) -> RusticResult<Vec<(Id, u32)>> {
            Ok(self
                .0
                .read()
                .unwrap()
                .iter()
                .filter(|((t, _), _)| *t == tpe.to_string())
                .map(|((_, id), b)| (*id, u32::try_from(b.len()).unwrap()))
                .collect())
        }

        fn read_full(&self, tpe: FileType, id: &Id) -> RusticResult<Bytes> {
            self.0
                .read()
                .unwrap()
                .get(&(tpe.to_string(), *id))
                .cloned()
                .ok_or_else(|| RusticError::new(ErrorKind::Backend, "no such file in MemBackend"))
        }

        fn read_partial(
            &self,
            tpe: FileType,
            id: &Id,
            _cacheable: bool,
            offset: u32,
            length: u32,
        ) -> RusticResult<Bytes> {
            Ok(self
                .read_full(tpe, id)?
                .slice(offset as usize..(offset + length) as usize))
        }

        fn warmup_path(&self, tpe: FileType, id: &Id) -> String {
            format!("{tpe}/{id}")
        }
    }

    impl WriteBackend for MemBackend {
        fn create(&self) -> RusticResult<()> {
            Ok(())
        }

        fn write_bytes(
            &self,
            tpe: FileType,
            id: &Id,
            _cacheable: bool,
            content: BytesList,
        ) -> RusticResult<()> {
            let mut v = Vec::new();
            for b in content.slice() {
                v.extend_from_slice(b);
            }
            _ = self
                .0
                .write()
                .unwrap()
                .insert((tpe.to_string(), *id), v.into());
            Ok(())
        }

        fn remove(&self, tpe: FileType, id: &Id, _cacheable: bool) -> RusticResult<()> {
            _ = self.0.write().unwrap().remove(&(tpe.to_string(), *id));
            Ok(())
        }
    }


    fn merged_names(names: &[&str]) -> Vec<String> {
        let source = tempdir().unwrap();
        for n in names {
            fs::write(source.path().join(n), n.as_bytes()).unwrap();
        }
        let be = RepositoryBackends::new(Arc::new(MemBackend::default()), None);
        let repo = Repository::new(&RepositoryOptions::default(), &be)
            .unwrap()
            .init(
                &Credentials::Masterkey(MasterKey::new()),
                &KeyOptions::default(),
                &ConfigOptions::default(),
            )
            .unwrap();
        let repo = repo.to_indexed_ids().unwrap();
        let opts = BackupOptions::default().as_path(PathBuf::from("test"));
        let paths = PathList::from_iter(Some(source.path().to_path_buf()));
        let snap1 = repo.backup(&opts, &paths, SnapshotFile::default()).unwrap();
        // a second snapshot of the same directory with one more (ordinary) file
        fs::write(source.path().join("zzz"), b"more").unwrap();
        let snap2 = repo.backup(&opts, &paths, SnapshotFile::default()).unwrap();

        let repo = repo.to_indexed().unwrap();
        let merged = repo
            .merge_snapshots(&[snap1, snap2], &last_modified_node, SnapshotFile::default())
            .unwrap();
        let repo = repo.to_indexed().unwrap();
        let root = repo.get_tree(&merged.tree).unwrap();
        assert_eq!(root.nodes.len(), 1);
        let dir = repo.get_tree(&root.nodes[0].subtree.unwrap()).unwrap();
        dir.nodes.iter().map(|n| n.name().to_string_lossy().to_string()).collect()
    }

    /// control: names whose raw and escaped orders agree
    #[test]
    fn verif_replay_c12_merge_control_plain_names() {
        assert_eq!(merged_names(&["a", "b"]), vec!["a", "b", "zzz"]);
    }

    #[test]
    fn verif_replay_c12_merge_names_needing_escape() {
        let got = merged_names(&["x\"", "x#"]);
        let mut uniq = got.clone();
        uniq.sort();
        uniq.dedup();
        assert_eq!(got.len(), uniq.len(), "merged directory lists a name more than once: {got:?}");
        assert_eq!(uniq, vec!["x\"", "x#", "zzz"]);
    }
}
