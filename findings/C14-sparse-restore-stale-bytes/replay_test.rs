// ---------------------------------------------------------------------------------------------
// C14: restore with `sparse = ByContent` into a destination that already holds a file at a
// snapshot path.  APPEND TO crates/core/src/commands/restore.rs (in-crate unit test: the option
// type `SparseRestore` is not re-exported by the crate).
// The snapshot's file is N zero bytes (one all-zero blob).  The destination already has a file
// of the same name filled with 0xAA.  After the restore the file must hold the snapshot's
// content (N zero bytes).
// ---------------------------------------------------------------------------------------------
#[cfg(test)]
mod verif_replay_c14_sparse {
    use std::{
        collections::BTreeMap,
        fs,
        path::PathBuf,
        sync::{Arc, RwLock},
    };

    use bytes::Bytes;
    use tempfile::tempdir;

    use crate::{
        BackupOptions, BytesList, ConfigOptions, Credentials, Id, KeyOptions, LsOptions, PathList,
        RepositoryBackends, RepositoryOptions, WriteBackend,
        repofile::{MasterKey, SnapshotFile},
    };

    use super::*;

    /// Minimal in-memory repository backend (crate-internal twin of
    /// `rustic_testing::backend::in_memory_backend::InMemoryBackend`).
    #[derive(Debug, Default)]
    struct MemBackend(RwLock<BTreeMap<(String, Id), Bytes>>);

    impl ReadBackend for MemBackend {
        fn location(&self) -> String {
            "verif-replay-mem".to_string()
        }

        fn list_with_size(&self, tpe: FileType) -> RusticResult<Vec<(Id, u32)>> {
            Ok(self
                .0
                .read()
                .unwrap()
                .iter()
                .filter(|((t, _), _)| *t == tpe.to_string())
                .map(|((_, id), b)| (*id, u32::try_from(b.len()).unwrap()))
                .collect())
        }

        fn read_full(&self, tpe: FileType, id: &Id) -> RusticResult<Bytes> {
            self.0
                .read()
                .unwrap()
                .get(&(tpe.to_string(), *id))
                .cloned()
                .ok_or_else(|| RusticError::new(ErrorKind::Backend, "no such file in MemBackend"))
        }

        fn read_partial(
            &self,
            tpe: FileType,
            id: &Id,
            _cacheable: bool,
            offset: u32,
            length: u32,
        ) -> RusticResult<Bytes> {
            Ok(self
                .read_full(tpe, id)?
                .slice(offset as usize..(offset + length) as usize))
        }

        fn warmup_path(&self, tpe: FileType, id: &Id) -> String {
            format!("{tpe}/{id}")
        }
    }

    impl WriteBackend for MemBackend {
        fn create(&self) -> RusticResult<()> {
            Ok(())
        }

        fn write_bytes(
            &self,
            tpe: FileType,
            id: &Id,
            _cacheable: bool,
            content: BytesList,
        ) -> RusticResult<()> {
            let mut v = Vec::new();
            for b in content.slice() {
                v.extend_from_slice(b);
            }
            _ = self
                .0
                .write()
                .unwrap()
                .insert((tpe.to_string(), *id), v.into());
            Ok(())
        }

        fn remove(&self, tpe: FileType, id: &Id, _cacheable: bool) -> RusticResult<()> {
            _ = self.0.write().unwrap().remove(&(tpe.to_string(), *id));
            Ok(())
        }
    }


    const N: usize = 64 * 1024;

    fn restore_over(existing_len: usize, sparse: SparseRestore) -> Vec<u8> {
        let source = tempdir().unwrap();
        fs::write(source.path().join("zeros.bin"), vec![0u8; N]).unwrap();

        let be = RepositoryBackends::new(Arc::new(MemBackend::default()), None);
        let repo = Repository::new(&RepositoryOptions::default(), &be)
            .unwrap()
            .init(
                &Credentials::Masterkey(MasterKey::new()),
                &KeyOptions::default(),
                &ConfigOptions::default(),
            )
            .unwrap();
        let repo = repo.to_indexed_ids().unwrap();
        let snap = repo
            .backup(
                &BackupOptions::default().as_path(PathBuf::from("test")),
                &PathList::from_iter(Some(source.path().to_path_buf())),
                SnapshotFile::default(),
            )
            .unwrap();
        let repo = repo.to_indexed().unwrap();
        let node = repo
            .node_from_snapshot_path(&snap.id.to_string(), |_| true)
            .unwrap();

        let sandbox = tempdir().unwrap();
        let dest_dir = sandbox.path().join("dest");
        fs::create_dir_all(dest_dir.join("test")).unwrap();
        let target = dest_dir.join("test").join("zeros.bin");
        fs::write(&target, vec![0xAAu8; existing_len]).unwrap();

        let dest = LocalDestination::new(dest_dir.to_str().unwrap(), true, !node.is_dir()).unwrap();
        let opts = RestoreOptions::default().sparse(Some(sparse));
        let ls_opts = LsOptions::default();
        let plan = repo
            .prepare_restore(&opts, repo.ls(&node, &ls_opts).unwrap(), &dest, false)
            .unwrap();
        repo.restore(plan, &opts, repo.ls(&node, &ls_opts).unwrap(), &dest)
            .unwrap();
        fs::read(&target).unwrap()
    }

    fn assert_snapshot_content(got: &[u8], what: &str) {
        assert_eq!(got.len(), N, "{what}: wrong length");
        let stale = got.iter().filter(|&&b| b != 0).count();
        assert_eq!(stale, 0, "{what}: {stale} bytes of the old destination file survived the restore");
    }

    /// control: without the sparse option the existing file is overwritten correctly
    #[test]
    fn verif_replay_c14_sparse_control_not_sparse() {
        assert_snapshot_content(&restore_over(N, SparseRestore::No), "same size, sparse=No");
        assert_snapshot_content(&restore_over(2 * N, SparseRestore::No), "longer, sparse=No");
    }

    #[test]
    fn verif_replay_c14_sparse_same_size_existing_file() {
        assert_snapshot_content(&restore_over(N, SparseRestore::ByContent), "same size, sparse=ByContent");
    }

    #[test]
    fn verif_replay_c14_sparse_longer_existing_file() {
        assert_snapshot_content(&restore_over(2 * N, SparseRestore::ByContent), "longer, sparse=ByContent");
    }

    #[test]
    fn verif_replay_c14_sparse_shorter_existing_file() {
        assert_snapshot_content(&restore_over(N / 4, SparseRestore::ByContent), "shorter, sparse=ByContent");
    }
}
