// Native replay for C18 findings in ConfigOptions::apply (appended to commands/config.rs in a scratch worktree)
#[cfg(test)]
mod verif_replay {
    use super::*;
    use crate::chunker::ChunkIter;
    use std::io::Cursor;

    #[test]
    fn unnamed_extra_verify_is_left_alone() {
        let mut config = ConfigFile::new(2, crate::repofile::configfile::RepositoryId::default(), 0x3DA3358B4DC173);
        ConfigOptions::default().set_extra_verify(false).apply(&mut config).unwrap();
        assert_eq!(config.extra_verify, Some(false));
        // a change that names only the compression level must not alter extra_verify
        ConfigOptions::default().set_compression(3).apply(&mut config).unwrap();
        assert_eq!(config.extra_verify, Some(false), "extra_verify was reset by a change that did not name it");
    }

    #[test]
    fn accepted_fixed_size_chunker_config_chunks_losslessly() {
        let mut config = ConfigFile::new(2, crate::repofile::configfile::RepositoryId::default(), 0x3DA3358B4DC173);
        let res = ConfigOptions::default()
            .set_chunker(Chunker::FixedSize)
            .set_chunk_size(ByteSize(0))
            .apply(&mut config);
        if res.is_ok() {
            // accepted => chunking must still reproduce the stream
            let data = vec![7u8; 1000];
            let it = ChunkIter::from_config(&config, Cursor::new(data.clone()), 1000).unwrap();
            let mut cat = Vec::new();
            for c in it.take(10_000) {
                cat.extend_from_slice(&c.unwrap());
            }
            assert_eq!(cat, data, "accepted configuration loses file content");
        }
    }
}
