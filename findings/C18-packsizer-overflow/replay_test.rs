// Native replay for C18 finding: PackSizer::pack_size overflows u32 for accepted grow factors
// (appended to blob/packer.rs in a scratch worktree)
#[cfg(test)]
mod verif_replay {
    use super::*;

    #[test]
    fn pack_size_never_panics_and_respects_limits() {
        // every value is accepted by ConfigOptions::apply (set_datapack_growfactor takes any u32)
        let mut config = ConfigFile::default();
        config.datapack_growfactor = Some(u32::MAX);
        let sizer = PackSizer::from_config(&config, BlobType::Data, 4);
        let s = sizer.pack_size();
        assert!(s <= constants::MAX_SIZE);

        config.datapack_growfactor = Some(70_000);
        config.datapack_size = Some(u32::MAX);
        let sizer = PackSizer::from_config(&config, BlobType::Data, u64::MAX);
        assert!(sizer.pack_size() <= constants::MAX_SIZE);
        assert!(!sizer.is_too_large(1));
    }
}
