
// Native replay for C18 finding: prune limit arithmetic (appended to tests/integration/prune.rs in a scratch worktree)
#[rstest]
fn verif_replay_prune_limits_never_panic(
    tar_gz_testdata: Result<TestSource>,
    set_up_repo: Result<RepoOpen>,
    #[values(
        LimitOption::Percentage(100),
        LimitOption::Percentage(150),
        LimitOption::Percentage(u64::MAX)
    )]
    max_unused: LimitOption,
) -> Result<()> {
    let (source, repo) = (tar_gz_testdata?, set_up_repo?.to_indexed_ids()?);
    let opts = BackupOptions::default();
    let paths = PathList::from_iter(Some(source.0.path().join("0/0/9")));
    let snapshot1 = repo.backup(&opts, &paths, SnapshotFile::default())?;
    let repo = repo.to_indexed_ids()?;
    let paths = PathList::from_iter(Some(source.0.path().join("0/0/9/2")));
    let _ = repo.backup(&opts, &paths, SnapshotFile::default())?;
    let repo = repo.drop_index();
    repo.delete_snapshots(&[snapshot1.id])?;
    let prune_opts = PruneOptions::default()
        .instant_delete(true)
        .max_unused(max_unused)
        .max_repack(LimitOption::Percentage(u64::MAX))
        .keep_delete(Span::default());
    // must be a result or an error, never a panic
    if let Ok(plan) = repo.prune_plan(&prune_opts) {
        repo.prune(&prune_opts, plan)?;
        repo.check(CheckOptions::default().read_data(true))?.is_ok()?;
    }
    Ok(())
}
