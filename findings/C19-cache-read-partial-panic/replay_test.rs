
#[cfg(test)]
mod verif_replay_c19 {
    //! Native replay of the two failing obligations of C19.cb_read_partial (Verus):
    //!   - precondition of `data.slice(range)`: the backend's file is shorter than offset + length
    //!   - `offset + length` overflows u32
    //! A ranged read through the cache must fail with an error (as the same read without a cache does),
    //! not panic.
    use super::*;
    use crate::repofile::configfile::RepositoryId;

    #[derive(Debug, Clone)]
    struct ShortFileBackend;
    impl ReadBackend for ShortFileBackend {
        fn location(&self) -> String {
            "short".to_string()
        }
        fn list_with_size(&self, _tpe: FileType) -> RusticResult<Vec<(Id, u32)>> {
            Ok(Vec::new())
        }
        // the stored file has 10 bytes (e.g. a truncated tree pack)
        fn read_full(&self, _tpe: FileType, _id: &Id) -> RusticResult<Bytes> {
            Ok(Bytes::from_static(b"0123456789"))
        }
        // what a backend without cache answers for a range beyond the end of the file: an error
        fn read_partial(&self, _tpe: FileType, _id: &Id, _c: bool, offset: u32, length: u32) -> RusticResult<Bytes> {
            let data = Bytes::from_static(b"0123456789");
            let end = offset as usize + length as usize;
            if end > data.len() {
                return Err(RusticError::new(ErrorKind::Backend, "range beyond end of file"));
            }
            Ok(data.slice(offset as usize..end))
        }
        fn warmup_path(&self, _tpe: FileType, _id: &Id) -> String {
            String::new()
        }
    }
    impl WriteBackend for ShortFileBackend {
        fn create(&self) -> RusticResult<()> {
            Ok(())
        }
        fn write_bytes(&self, _tpe: FileType, _id: &Id, _c: bool, _b: BytesList) -> RusticResult<()> {
            Ok(())
        }
        fn remove(&self, _tpe: FileType, _id: &Id, _c: bool) -> RusticResult<()> {
            Ok(())
        }
    }

    fn cached() -> (Arc<dyn WriteBackend>, tempfile::TempDir) {
        let dir = tempfile::tempdir().unwrap();
        let cache = Cache::new(RepositoryId::from(Id::default()), Some(dir.path().to_path_buf())).unwrap();
        (CachedBackend::new_cache(Arc::new(ShortFileBackend), cache), dir)
    }

    #[test]
    fn ranged_read_beyond_end_of_file_is_an_error_with_and_without_cache() {
        let id = Id::default();
        // without cache: an error
        assert!(ShortFileBackend.read_partial(FileType::Pack, &id, true, 8, 4).is_err());
        // with cache: must be an error too (panics in `Bytes::slice` on the unfixed tree)
        let (be, _dir) = cached();
        let r = be.read_partial(FileType::Pack, &id, true, 8, 4);
        assert!(r.is_err(), "cached ranged read beyond the end of the stored file must fail, got {r:?}");
    }

    #[test]
    fn ranged_read_with_offset_plus_length_above_u32_is_an_error() {
        let id = Id::default();
        let (be, _dir) = cached();
        // `offset + length` overflows u32 on the unfixed tree (panic in debug builds, wrong range in release)
        let r = be.read_partial(FileType::Pack, &id, true, u32::MAX, 2);
        assert!(r.is_err());
    }

    #[test]
    fn ranged_read_inside_the_file_is_unchanged() {
        let id = Id::default();
        let (be, _dir) = cached();
        assert_eq!(be.read_partial(FileType::Pack, &id, true, 2, 3).unwrap(), Bytes::from_static(b"234"));
    }
}
