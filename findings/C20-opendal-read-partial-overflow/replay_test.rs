
// ---- /verif finding C20: OpenDALBackend::read_partial computes `offset + length` in u32 ----
#[cfg(test)]
mod verif_replay_c20 {
    use super::*;
    use rustic_core::{FileType, Id, ReadBackend, WriteBackend};

    #[test]
    fn verif_replay_read_partial_out_of_range_is_an_error_not_a_panic() {
        let be = OpenDALBackend::new("memory", BTreeMap::new()).unwrap();
        let id = Id::default();
        be.write_bytes(
            FileType::Snapshot,
            &id,
            false,
            bytes::Bytes::from_static(b"0123456789").into(),
        )
        .unwrap();
        // an ordinary ranged read: exactly that range
        assert_eq!(
            &be.read_partial(FileType::Snapshot, &id, false, 2, 3).unwrap()[..],
            b"234"
        );
        // a request whose end does not fit u32: the obligation failed by the checker (offset + length overflows)
        let r = std::panic::catch_unwind(std::panic::AssertUnwindSafe(|| {
            be.read_partial(FileType::Snapshot, &id, false, u32::MAX, 1)
        }));
        match r {
            Err(_) => panic!("read_partial(offset = u32::MAX, length = 1) PANICKED instead of returning an error"),
            Ok(Ok(b)) => panic!("read_partial(offset = u32::MAX, length = 1) of a 10 byte file returned {} bytes", b.len()),
            Ok(Err(_)) => {}
        }
    }
}
