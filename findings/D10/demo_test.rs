
// ---------------------------------------------------------------------------------------------
// D10: restore must stay inside the destination directory whatever names the trees contain.
//
// APPEND THIS FILE TO: crates/core/src/commands/restore.rs   (unit-test module; it needs the
// crate-private `Packer`/`Indexer`/`Repository::dbe()` to write a hand-made tree blob - there is
// no public API which saves an arbitrary tree blob, and `rustic_testing::InMemoryBackend`
// cannot be used from a unit test of rustic_core (it implements the traits of the non-test
// build of the crate), hence the tiny in-memory backend below).
//
// Each test
//   1. makes a normal backup of one small file into a fresh in-memory repository,
//   2. writes - exactly like `commands::merge::merge_trees` does - a hand-made ROOT TREE blob
//      which contains the honest file node `victim.txt` plus a clone of it whose `name` is
//      hostile (`../x`, `sub/../../x`, an absolute path),
//   3. saves a snapshot pointing to that tree (this is what a malicious/buggy client sharing the
//      restic repository format can put into a repository),
//   4. restores that snapshot with the normal public entry points
//      (`node_from_snapshot_path` + `ls` + `prepare_restore` + `restore`) into `<tmp>/dest`,
//   5. asserts that nothing was created outside `<tmp>/dest`.
// The tests PASS iff the library confines the restore (error, skip or sanitise - all accepted).
// ---------------------------------------------------------------------------------------------
#[cfg(test)]
mod verif_replay_d10 {
    use std::{
        collections::BTreeMap,
        ffi::OsStr,
        fs,
        path::{Path, PathBuf},
        sync::{Arc, RwLock},
    };

    use bytes::Bytes;
    use tempfile::tempdir;

    use crate::{
        BackupOptions, BytesList, ConfigOptions, Credentials, Id, KeyOptions, LsOptions, PathList,
        RepositoryBackends, RepositoryOptions, WriteBackend,
        backend::decrypt::DecryptWriteBackend,
        blob::{
            BlobId, BlobType,
            packer::{PackSizer, Packer},
            tree::Tree,
        },
        index::{ReadIndex, indexer::Indexer},
        repofile::{MasterKey, SnapshotFile},
    };

    use super::*;

    /// Minimal in-memory repository backend (crate-internal twin of
    /// `rustic_testing::backend::in_memory_backend::InMemoryBackend`).
    #[derive(Debug, Default)]
    struct MemBackend(RwLock<BTreeMap<(String, Id), Bytes>>);

    impl ReadBackend for MemBackend {
        fn location(&self) -> String {
            "verif-replay-mem".to_string()
        }

        fn list_with_size(&self, tpe: FileType) -> RusticResult<Vec<(Id, u32)>> {
            Ok(self
                .0
                .read()
                .unwrap()
                .iter()
                .filter(|((t, _), _)| *t == tpe.to_string())
                .map(|((_, id), b)| (*id, u32::try_from(b.len()).unwrap()))
                .collect())
        }

        fn read_full(&self, tpe: FileType, id: &Id) -> RusticResult<Bytes> {
            self.0
                .read()
                .unwrap()
                .get(&(tpe.to_string(), *id))
                .cloned()
                .ok_or_else(|| RusticError::new(ErrorKind::Backend, "no such file in MemBackend"))
        }

        fn read_partial(
            &self,
            tpe: FileType,
            id: &Id,
            _cacheable: bool,
            offset: u32,
            length: u32,
        ) -> RusticResult<Bytes> {
            Ok(self
                .read_full(tpe, id)?
                .slice(offset as usize..(offset + length) as usize))
        }

        fn warmup_path(&self, tpe: FileType, id: &Id) -> String {
            format!("{tpe}/{id}")
        }
    }

    impl WriteBackend for MemBackend {
        fn create(&self) -> RusticResult<()> {
            Ok(())
        }

        fn write_bytes(
            &self,
            tpe: FileType,
            id: &Id,
            _cacheable: bool,
            content: BytesList,
        ) -> RusticResult<()> {
            let mut v = Vec::new();
            for b in content.slice() {
                v.extend_from_slice(b);
            }
            _ = self
                .0
                .write()
                .unwrap()
                .insert((tpe.to_string(), *id), v.into());
            Ok(())
        }

        fn remove(&self, tpe: FileType, id: &Id, _cacheable: bool) -> RusticResult<()> {
            _ = self.0.write().unwrap().remove(&(tpe.to_string(), *id));
            Ok(())
        }
    }

    const CONTENT: &str = "payload written by restore";

    /// Returns all paths (relative to `root`) below `root`, sorted.
    fn listing(root: &Path) -> Vec<PathBuf> {
        let mut v: Vec<_> = WalkDir::new(root)
            .min_depth(1)
            .sort_by_file_name()
            .into_iter()
            .map(|e| e.unwrap().path().strip_prefix(root).unwrap().to_path_buf())
            .collect();
        v.sort();
        v
    }

    /// Builds the repository + hostile snapshot, restores it to `<sandbox>/dest` and returns the
    /// result of the restore. `hostile_name(sandbox)` gives the name of the hostile tree node.
    fn restore_snapshot_with_hostile_node(
        sandbox: &Path,
        hostile_name: &str,
    ) -> RusticResult<()> {
        // --- 1. an honest backup of one small file
        let source = tempdir().unwrap();
        fs::write(source.path().join("victim.txt"), CONTENT).unwrap();

        let be = RepositoryBackends::new(Arc::new(MemBackend::default()), None);
        let repo = Repository::new(&RepositoryOptions::default(), &be)?.init(
            &Credentials::Masterkey(MasterKey::new()),
            &KeyOptions::default(),
            &ConfigOptions::default(),
        )?;
        let repo = repo.to_indexed_ids()?;
        let snap = repo.backup(
            &BackupOptions::default().as_path(PathBuf::from("test")),
            &PathList::from_iter(Some(source.path().to_path_buf())),
            SnapshotFile::default(),
        )?;

        // --- 2. hand-made root tree: [ <hostile clone>, victim.txt ]
        let repo = repo.to_indexed()?;
        let root = repo.get_tree(&snap.tree)?;
        assert_eq!(root.nodes.len(), 1);
        assert_eq!(root.nodes[0].name(), OsStr::new("test"));
        let sub = repo.get_tree(&root.nodes[0].subtree.unwrap())?;
        let honest = sub
            .nodes
            .iter()
            .find(|n| n.name() == OsStr::new("victim.txt"))
            .expect("victim.txt was backed up")
            .clone();
        assert!(honest.is_file());

        let mut hostile = honest.clone();
        // `name` is a plain pub field which is (de)serialized as is; for these ASCII names the
        // escaping done by `Node::new_node` is the identity.
        hostile.name = hostile_name.to_string();
        hostile.meta.links = 0; // no hardlink handling
        assert_eq!(hostile.name(), OsStr::new(hostile_name));

        let mut tree = Tree::new();
        tree.add(hostile);
        tree.add(honest);
        tree.nodes.sort_by(|a, b| a.name().cmp(&b.name()));
        let (chunk, tree_id) = tree.serialize().unwrap();

        // save the tree blob exactly like commands::merge::merge_trees does
        {
            let indexer = Indexer::new(repo.dbe().clone()).into_shared();
            let pack_sizer = PackSizer::from_config(
                repo.config(),
                BlobType::Tree,
                repo.index().total_size(BlobType::Tree),
            );
            let packer = Packer::new(
                repo.dbe().clone(),
                BlobType::Tree,
                indexer.clone(),
                pack_sizer,
            )?;
            packer.add(chunk.into(), BlobId::from(*tree_id))?;
            _ = packer.finalize()?;
            indexer.write().unwrap().finalize()?;
        }

        // --- 3. snapshot pointing to the hand-made tree
        let mut snap2 = snap.clone();
        snap2.tree = tree_id;
        snap2.id = Default::default();
        let snap2_id = repo.dbe().save_file(&snap2)?;

        // --- 4. restore it the normal way (fresh index, like a new process would have)
        let repo = repo.to_indexed()?;
        let node = repo.node_from_snapshot_path(&snap2_id.to_string(), |_| true)?;
        assert_eq!(node.subtree, Some(tree_id));

        let dest_dir = sandbox.join("dest");
        let dest = LocalDestination::new(dest_dir.to_str().unwrap(), true, !node.is_dir())?;
        let opts = RestoreOptions::default();
        let ls_opts = LsOptions::default();
        let plan = repo.prepare_restore(&opts, repo.ls(&node, &ls_opts)?, &dest, false)?;
        repo.restore(plan, &opts, repo.ls(&node, &ls_opts)?, &dest)
    }

    /// `sandbox` = a fresh dir standing for "the rest of the file system";
    /// the restore destination is `<sandbox>/dest`.
    fn check_confined(sandbox: &Path, hostile_name: &str, escaped: &Path) {
        assert!(!escaped.exists());
        let result = restore_snapshot_with_hostile_node(sandbox, hostile_name);
        let outside: Vec<_> = listing(sandbox)
            .into_iter()
            .filter(|p| !p.starts_with("dest"))
            .collect();
        let escaped_content = fs::read_to_string(escaped).ok();
        assert!(
            outside.is_empty() && escaped_content.is_none(),
            "restore of a tree node named {hostile_name:?} into {} returned {:?} and \
             created OUTSIDE the destination: {outside:?}; content of {}: {escaped_content:?}; \
             inside the destination: {:?}",
            sandbox.join("dest").display(),
            result.as_ref().map_err(|e| e.to_string()),
            escaped.display(),
            listing(&sandbox.join("dest")),
        );
    }

    /// Control: with a harmless name the same procedure stays inside the destination
    /// (shows that the harness itself does not write outside `dest`). Passes on current code.
    #[test]
    fn verif_replay_restore_control_harmless_name() {
        let sandbox = tempdir().unwrap();
        check_confined(
            sandbox.path(),
            "harmless.txt",
            &sandbox.path().join("harmless.txt"),
        );
        assert_eq!(
            fs::read_to_string(sandbox.path().join("dest/harmless.txt")).unwrap(),
            CONTENT
        );
    }

    #[test]
    fn verif_replay_restore_confined_parent_dir_name() {
        let sandbox = tempdir().unwrap();
        check_confined(
            sandbox.path(),
            "../escaped_by_restore.txt",
            &sandbox.path().join("escaped_by_restore.txt"),
        );
    }

    #[test]
    fn verif_replay_restore_confined_inner_parent_dir_name() {
        let sandbox = tempdir().unwrap();
        check_confined(
            sandbox.path(),
            "sub/../../escaped_by_restore.txt",
            &sandbox.path().join("escaped_by_restore.txt"),
        );
    }

    #[test]
    fn verif_replay_restore_confined_absolute_name() {
        let sandbox = tempdir().unwrap();
        let escaped = sandbox.path().join("abs_escaped_by_restore.txt");
        check_confined(sandbox.path(), escaped.to_str().unwrap(), &escaped);
    }

    /// An existing file outside the destination must not be MODIFIED either.
    #[test]
    fn verif_replay_restore_confined_no_overwrite_outside() {
        let sandbox = tempdir().unwrap();
        let precious = sandbox.path().join("precious.txt");
        fs::write(&precious, "do not touch").unwrap();
        let result = restore_snapshot_with_hostile_node(sandbox.path(), "../precious.txt");
        assert_eq!(
            fs::read_to_string(&precious).unwrap(),
            "do not touch",
            "restore (returned {:?}) overwrote a file outside the destination",
            result.as_ref().map_err(|e| e.to_string()),
        );
    }
}
