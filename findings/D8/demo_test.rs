
// ---------------------------------------------------------------------------
// verif replay D8: tree blob / data blob id collision inside ONE backup run.
//
// `Indexer.indexed: Option<BTreeSet<BlobId>>` (crates/core/src/index/indexer.rs) is shared
// by the data packer and the tree packer of a backup run and carries no blob type.
// `Packer::new` (crates/core/src/blob/packer.rs) drops every blob whose id is already in
// that set. So once a pack containing a blob with id X has been written *during* the run,
// a blob of the OTHER type with the same bytes (same SHA-256 id X) is silently skipped,
// although the repository index only knows X under the first type.
//
// The test builds a file whose content is exactly the serialized tree of the sibling
// directory `d` and backs both up in one run into a fresh repository.
// It PASSES iff the library handles the collision correctly.
//
// Cases (colliding file name sorting before / after `d`):
//  * "minimal": DEFAULT repository config, the source contains nothing but the colliding
//    file and `d/inner.txt`.
//  * "small_packs": tiny data/tree pack sizes (every blob flushes a pack) plus filler files.
//  * "big_file": DEFAULT config, > 32 MiB of incompressible data between `a_file` and `d`
//    so that the data pack holding the chunk of `a_file` is flushed mid-run.
// ---------------------------------------------------------------------------
#[cfg(not(windows))]
#[rstest]
#[case::minimal_file_sorts_before_dir("a_file", "minimal")]
#[case::minimal_file_sorts_after_dir("z_file", "minimal")]
#[case::small_packs_file_sorts_before_dir("a_file", "small_packs")]
#[case::small_packs_file_sorts_after_dir("z_file", "small_packs")]
#[case::default_packs_big_file_between("a_file", "big_file")]
// control: same layout, but file content differs by one trailing byte => no collision
#[case::control_no_collision("a_file", "control")]
fn verif_replay_tree_data_blob_id_collision(
    #[case] colliding_name: &str,
    #[case] mode: &str,
) -> Result<()> {
    use std::{fs, sync::Arc, thread::sleep, time::Duration};

    use bytesize::ByteSize;
    use rustic_core::{
        CheckOptions, ConfigOptions, Credentials, KeyOptions, Repository, RepositoryBackends,
        RepositoryOptions,
        repofile::{BlobType, MasterKey},
    };
    use rustic_testing::backend::in_memory_backend::InMemoryBackend;

    fn new_repo(config_opts: &ConfigOptions) -> Result<RepoOpen> {
        let be = RepositoryBackends::new(Arc::new(InMemoryBackend::new()), None);
        let repo = Repository::new(&RepositoryOptions::default(), &be)?;
        Ok(repo.init(
            &Credentials::Masterkey(MasterKey::new()),
            &KeyOptions::default(),
            config_opts,
        )?)
    }

    // ---- source: <src>/d/inner.txt --------------------------------------------------
    let src = tempfile::tempdir()?;
    let base = src.path();
    fs::create_dir(base.join("d"))?;
    fs::write(base.join("d").join("inner.txt"), "inner content")?;
    let paths = PathList::from_iter(Some(base.to_path_buf()));
    let opts = BackupOptions::default().as_path(PathBuf::from("test"));

    // ---- step 1: learn the exact serialized bytes of tree `d` (throw-away repository) --
    let repo1 = new_repo(&ConfigOptions::default())?.to_indexed_ids()?;
    let _ = repo1.backup(&opts, &paths, SnapshotFile::default())?;
    let repo1 = repo1.to_indexed()?;
    let d_node = repo1.node_from_snapshot_path("latest:test/d", |_| true)?;
    let d_tree_id = d_node.subtree.expect("d must have a subtree");
    let d_tree_bytes = repo1.cat_blob(BlobType::Tree, &d_tree_id.to_hex().to_string())?;
    drop(repo1);

    // ---- step 2: add a sibling file whose content == serialized tree of `d` -------------
    // (`d` and its content stay untouched, so its tree is re-computed identically)
    let collide = mode != "control";
    let mut file_bytes = d_tree_bytes.to_vec();
    if !collide {
        file_bytes.push(b'\n');
    }
    fs::write(base.join(colliding_name), &file_bytes)?;
    // Fillers sorting between `a_file` and `d` as well as between `d` and `z_file`: they only
    // give the asynchronous pack writer time to write+index the flushed pack.
    let small_packs = mode == "small_packs";
    if small_packs {
        for i in 0..300 {
            fs::write(base.join(format!("b{i:03}")), format!("filler b {i}"))?;
            fs::write(base.join(format!("e{i:03}")), format!("filler e {i}"))?;
        }
    } else if mode == "big_file" {
        // 40 MiB incompressible data (xorshift64*), sorting between `a_file` and `d`:
        // forces a flush of the (default 32 MiB) data pack containing the chunk of `a_file`.
        let mut x: u64 = 0x9E37_79B9_7F4A_7C15;
        let mut big = Vec::with_capacity(40 * 1024 * 1024);
        while big.len() < 40 * 1024 * 1024 {
            x ^= x >> 12;
            x ^= x << 25;
            x ^= x >> 27;
            big.extend_from_slice(&x.wrapping_mul(0x2545_F491_4F6C_DD1D).to_le_bytes());
        }
        fs::write(base.join("b_big"), &big)?;
        for i in 0..300 {
            fs::write(base.join(format!("c{i:03}")), format!("filler c {i}"))?;
        }
    }
    sleep(Duration::from_millis(10));

    // ---- step 3: ONE backup run of everything into a FRESH repository -------------------
    let config_opts = if small_packs {
        ConfigOptions::default()
            .set_datapack_size(ByteSize::b(1))
            .set_datapack_growfactor(0u32)
            .set_treepack_size(ByteSize::b(1))
            .set_treepack_growfactor(0u32)
    } else {
        ConfigOptions::default()
    };
    let repo2 = new_repo(&config_opts)?.to_indexed_ids()?;
    let snap = repo2.backup(&opts, &paths, SnapshotFile::default())?;
    let repo2 = repo2.to_indexed()?;

    // sanity: the collision really has been constructed (otherwise the test is vacuous)
    let d_node2 = repo2.node_from_path(snap.tree, Path::new("test/d"))?;
    assert_eq!(
        d_node2.subtree,
        Some(d_tree_id),
        "test setup: tree of `d` must be identical in both runs"
    );
    let file_node = repo2.node_from_path(snap.tree, &Path::new("test").join(colliding_name))?;
    let content = file_node.content.clone().expect("file must have content");
    assert_eq!(content.len(), 1);
    assert_eq!(
        content[0].to_hex().to_string() == d_tree_id.to_hex().to_string(),
        collide,
        "test setup: data chunk id must equal the tree id of `d` (iff not the control case)"
    );

    // ---- expectations: the snapshot is complete and readable ----------------------------
    let mut problems = Vec::new();

    // (1) tree `d` is readable and lists `inner.txt`
    match repo2.get_tree(&d_tree_id) {
        Ok(tree) => {
            let names: Vec<_> = tree.nodes.iter().map(|n| n.name()).collect();
            if names != vec![std::ffi::OsString::from("inner.txt")] {
                problems.push(format!("tree d has unexpected entries: {names:?}"));
            }
        }
        Err(err) => problems.push(format!("reading tree of `d` failed: {err}")),
    }
    if let Err(err) = repo2.node_from_path(snap.tree, Path::new("test/d/inner.txt")) {
        problems.push(format!("resolving test/d/inner.txt failed: {err}"));
    }

    // (2) the colliding file is restorable with the right content
    let mut dumped = Vec::new();
    match repo2.dump(&file_node, &mut dumped) {
        Ok(()) => {
            if dumped != file_bytes {
                problems.push("dump of colliding file returned wrong content".to_string());
            }
        }
        Err(err) => problems.push(format!("dump of `{colliding_name}` failed: {err}")),
    }

    // (3) the blob is indexed under BOTH types
    if let Err(err) = repo2.cat_blob(BlobType::Tree, &d_tree_id.to_hex().to_string()) {
        problems.push(format!("cat_blob(Tree) failed: {err}"));
    }
    if let Err(err) = repo2.cat_blob(BlobType::Data, &content[0].to_hex().to_string()) {
        problems.push(format!("cat_blob(Data) failed: {err}"));
    }

    // (4) check is clean
    let check_results = repo2.check(CheckOptions::default())?;
    if check_results.is_ok().is_err() {
        problems.push(format!("check found errors: {:?}", check_results.0));
    }

    assert!(
        problems.is_empty(),
        "tree/data blob id collision corrupted the snapshot:\n{}",
        problems.join("\n")
    );
    Ok(())
}
