
// ---------------------------------------------------------------------------
// verif replay D9: substitution of stored (encrypted) repository files.
//
// Property: "Any modification, truncation or substitution of a stored file makes
// the affected read fail with an error instead of returning different content."
//
// The tests below swap the stored bytes of two files of the same type directly in
// the storage backend (no key needed for that) and then read one of them by id
// through the library. They PASS iff the library either reports an error or
// still returns the original content for that id.
// ---------------------------------------------------------------------------

/// helper: swap the stored bytes of two files of type `tpe` in the raw backend
fn verif_replay_swap_raw(
    be: &rustic_testing::backend::in_memory_backend::InMemoryBackend,
    tpe: rustic_core::FileType,
    id_a: &rustic_core::Id,
    id_b: &rustic_core::Id,
) -> Result<()> {
    use rustic_core::{ReadBackend, WriteBackend};

    let raw_a = be.read_full(tpe, id_a)?;
    let raw_b = be.read_full(tpe, id_b)?;
    assert_ne!(raw_a, raw_b, "the two stored files must differ");
    be.remove(tpe, id_a, false)?;
    be.remove(tpe, id_b, false)?;
    be.write_bytes(tpe, id_a, false, raw_b.clone().into())?;
    be.write_bytes(tpe, id_b, false, raw_a.clone().into())?;
    // make sure the swap really happened in the storage
    assert_eq!(be.read_full(tpe, id_a)?, raw_b);
    assert_eq!(be.read_full(tpe, id_b)?, raw_a);
    Ok(())
}

#[rstest]
fn verif_replay_swapped_snapshot_files_are_detected(
    tar_gz_testdata: Result<TestSource>,
) -> Result<()> {
    use std::sync::Arc;

    use rustic_core::{
        ConfigOptions, Credentials, FileType, Id, KeyOptions, ReadBackend, Repository,
        RepositoryBackends, RepositoryOptions,
    };
    use rustic_testing::backend::in_memory_backend::InMemoryBackend;

    let source = tar_gz_testdata?;

    // repository on an in-memory backend we keep a raw handle to; NO cache
    let raw_be = Arc::new(InMemoryBackend::new());
    let be = RepositoryBackends::new(raw_be.clone(), None);
    let options = RepositoryOptions::default().no_cache(true);
    let creds = Credentials::password("test");
    let repo = Repository::new(&options, &be)?
        .init(&creds, &KeyOptions::default(), &ConfigOptions::default())?
        .to_indexed_ids()?;

    let paths = &source.path_list();

    // two backups which differ in label and backup path
    let opts1 = BackupOptions::default().as_path(PathBuf::from_str("first-path")?);
    let snap_opts1 = SnapshotOptions::default().label("label-ONE".to_string());
    let s1 = repo.backup(&opts1, paths, snap_opts1.to_snapshot()?)?;

    let repo = repo.to_indexed_ids()?;
    let opts2 = BackupOptions::default().as_path(PathBuf::from_str("second-path")?);
    let snap_opts2 = SnapshotOptions::default().label("label-TWO".to_string());
    let s2 = repo.backup(&opts2, paths, snap_opts2.to_snapshot()?)?;
    drop(repo);

    assert_ne!(s1.id, s2.id);
    assert_eq!(s1.label, "label-ONE");
    assert_eq!(s2.label, "label-TWO");
    assert_ne!(s1.paths, s2.paths);

    let id1: Id = *s1.id;
    let id2: Id = *s2.id;
    assert_eq!(raw_be.list(FileType::Snapshot)?.len(), 2);

    // sanity: before the manipulation, reading by id gives the right content
    let repo = Repository::new(&options, &be)?.open(&creds)?;
    let before = repo.get_snapshots(&[id1.to_hex().as_str()])?;
    assert_eq!(before.len(), 1);
    assert_eq!(before[0].label, "label-ONE");
    drop(repo);

    // attacker with write access to the storage (without key): swap the two snapshot files
    verif_replay_swap_raw(&raw_be, FileType::Snapshot, &id1, &id2)?;

    // freshly open the repository (no cache) and read snapshot S1 by its id
    let repo = Repository::new(&options, &be)?.open(&creds)?;

    let mut violations: Vec<String> = Vec::new();

    // (a) get_snapshots(&[id])
    match repo.get_snapshots(&[id1.to_hex().as_str()]) {
        Err(err) => println!("verif_replay: get_snapshots(S1) failed as required: {err}"),
        Ok(snaps) => {
            assert_eq!(snaps.len(), 1);
            let got = &snaps[0];
            println!(
                "verif_replay: get_snapshots(S1={}) returned Ok: id={} label={:?} paths={:?} (S1 was label={:?} paths={:?}; S2={} was label={:?} paths={:?})",
                s1.id, got.id, got.label, got.paths, s1.label, s1.paths, s2.id, s2.label, s2.paths
            );
            if (got.label.as_str(), &got.paths) != (s1.label.as_str(), &s1.paths) {
                violations.push(format!(
                    "get_snapshots: reading snapshot id S1 returned other content (label {:?}, paths {:?}) without an error",
                    got.label, got.paths
                ));
            }
        }
    }

    // (b) get_snapshot_from_str(id)
    match repo.get_snapshot_from_str(id1.to_hex().as_str(), |_| true) {
        Err(err) => println!("verif_replay: get_snapshot_from_str(S1) failed as required: {err}"),
        Ok(got) => {
            println!(
                "verif_replay: get_snapshot_from_str(S1={}) returned Ok: id={} label={:?}",
                s1.id, got.id, got.label
            );
            if (got.label.as_str(), &got.paths) != (s1.label.as_str(), &s1.paths) {
                violations.push(format!(
                    "get_snapshot_from_str: reading snapshot id S1 returned other content (label {:?}, paths {:?}) without an error",
                    got.label, got.paths
                ));
            }
        }
    }

    // (c) get_all_snapshots(): each returned snapshot must carry the content belonging to its id
    match repo.get_all_snapshots() {
        Err(err) => println!("verif_replay: get_all_snapshots failed as required: {err}"),
        Ok(snaps) => {
            for got in &snaps {
                let orig = if got.id == s1.id { &s1 } else { &s2 };
                println!(
                    "verif_replay: get_all_snapshots returned id={} label={:?} (original label for this id: {:?})",
                    got.id, got.label, orig.label
                );
                if got.label != orig.label {
                    violations.push(format!(
                        "get_all_snapshots: snapshot id {} carries other content (label {:?}) without an error",
                        got.id, got.label
                    ));
                }
            }
        }
    }

    assert!(
        violations.is_empty(),
        "substitution of snapshot files was not detected:\n{}",
        violations.join("\n")
    );

    Ok(())
}

#[rstest]
fn verif_replay_swapped_index_files_are_detected(
    tar_gz_testdata: Result<TestSource>,
) -> Result<()> {
    use std::sync::Arc;

    use rustic_core::{
        ConfigOptions, Credentials, FileType, Id, KeyOptions, ReadBackend, Repository,
        RepositoryBackends, RepositoryOptions,
        repofile::{IndexFile, IndexId},
    };
    use rustic_testing::backend::in_memory_backend::InMemoryBackend;

    let source = tar_gz_testdata?;

    let raw_be = Arc::new(InMemoryBackend::new());
    let be = RepositoryBackends::new(raw_be.clone(), None);
    let options = RepositoryOptions::default().no_cache(true);
    let creds = Credentials::password("test");
    let repo = Repository::new(&options, &be)?
        .init(&creds, &KeyOptions::default(), &ConfigOptions::default())?
        .to_indexed_ids()?;

    let paths = &source.path_list();
    let opts = BackupOptions::default().as_path(PathBuf::from_str("test")?);
    let _s1 = repo.backup(&opts, paths, SnapshotFile::default())?;

    // add new data, such that the second backup writes new packs and hence a new index file
    std::fs::write(
        source.path().join("verif-replay-extra-file"),
        b"some new content which is not yet contained in the repository",
    )?;
    let repo = repo.to_indexed_ids()?;
    let _s2 = repo.backup(&opts, paths, SnapshotFile::default())?;
    drop(repo);

    let ids = raw_be.list(FileType::Index)?;
    assert!(ids.len() >= 2, "need at least two index files");
    let (id_a, id_b): (Id, Id) = (ids[0], ids[1]);

    let pack_ids = |idx: &IndexFile| -> Vec<String> {
        let mut v: Vec<String> = idx
            .packs
            .iter()
            .chain(idx.packs_to_delete.iter())
            .map(|p| p.id.to_string())
            .collect();
        v.sort();
        v
    };

    // original contents read via the library
    let repo = Repository::new(&options, &be)?.open(&creds)?;
    let orig_a: IndexFile = repo.get_file(&IndexId::from(id_a))?;
    let orig_b: IndexFile = repo.get_file(&IndexId::from(id_b))?;
    assert_ne!(pack_ids(&orig_a), pack_ids(&orig_b));
    drop(repo);

    verif_replay_swap_raw(&raw_be, FileType::Index, &id_a, &id_b)?;

    let repo = Repository::new(&options, &be)?.open(&creds)?;
    match repo.get_file::<IndexFile>(&IndexId::from(id_a)) {
        Err(err) => println!("verif_replay: get_file::<IndexFile>(A) failed as required: {err}"),
        Ok(got) => {
            println!(
                "verif_replay: get_file::<IndexFile>(A={id_a}) returned Ok with packs {:?}; original packs of A: {:?}; original packs of B={id_b}: {:?}",
                pack_ids(&got),
                pack_ids(&orig_a),
                pack_ids(&orig_b)
            );
            assert_eq!(
                pack_ids(&got),
                pack_ids(&orig_a),
                "reading index id A returned other content (that of B) without an error"
            );
        }
    }

    Ok(())
}
