//! cfg(kani) child module of `crates/core/src/crypto/aespoly1305.rs` (harnesses to be added)
