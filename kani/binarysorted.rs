//! C17 bounded twin: cfg(kani) child module of `index/binarysorted.rs`.
//! BOUNDED stand-in (never counted as proved): 2 packs x <= 2 blobs, ids symbolic in one byte,
//! symbolic blob types/lengths, all three index modes.  Runs the REAL collector -> index pipeline
//! (IndexCollector::new, extend, get_id, has, total_size, PackIndexes::next).  `into_index` and
//! `into_iter` call rayon's par_sort_unstable*, which crashes the Kani compiler (ICE in
//! kani-compiler/src/intrinsics.rs:243); the harness performs their sort step with std's
//! sort_unstable_by_key on the same private fields instead (into_index itself is proved by Verus).
use super::*;
use crate::id::Id;

/// what `IndexCollector::into_index` does, with std's sort in place of rayon's
fn into_index_std(c: IndexCollector) -> Index {
    Index(c.0.map(|_, mut tc| {
        match &mut tc.entries {
            EntriesVariants::None => {}
            EntriesVariants::Ids(ids) => ids.sort_unstable(),
            EntriesVariants::FullEntries(entries) => entries.sort_unstable_by_key(|e| e.id),
        }
        let packs = tc.packs.into_iter().map(|(id, _)| id).collect();
        TypeIndex { packs, entries: tc.entries, total_size: tc.total_size }
    }))
}

/// what `Index::into_iter` does, with std's sort in place of rayon's
fn into_iter_std(index: Index) -> PackIndexes {
    PackIndexes {
        c: Index(index.0.map(|_, mut tc| {
            if let EntriesVariants::FullEntries(entries) = &mut tc.entries {
                entries.sort_unstable_by(|e1, e2| e1.pack_idx.cmp(&e2.pack_idx));
            }
            tc
        })),
        tpe: BlobType::Tree,
        idx: BlobTypeMap::default(),
    }
}

fn bid(b: u8) -> BlobId {
    let mut a = [0u8; 32];
    a[0] = b;
    BlobId::from(Id::new(a))
}
fn pid(b: u8) -> PackId {
    let mut a = [0u8; 32];
    a[0] = b;
    PackId::from(Id::new(a))
}

fn any_type() -> BlobType {
    if kani::any() { BlobType::Tree } else { BlobType::Data }
}

fn any_index_type() -> IndexType {
    let k: u8 = kani::any();
    kani::assume(k < 3);
    match k {
        0 => IndexType::Full,
        1 => IndexType::DataIds,
        _ => IndexType::OnlyTrees,
    }
}

struct B {
    id: u8,
    off: u32,
    len: u32,
}

fn pack(id: u8, tpe: BlobType, n: usize, b0: &B, b1: &B) -> IndexPack {
    let mut p = IndexPack { id: pid(id), blobs: Vec::new(), time: None, size: Some(100) };
    if n >= 1 {
        p.add(bid(b0.id), tpe, b0.off, b0.len, None);
    }
    if n >= 2 {
        p.add(bid(b1.id), tpe, b1.off, b1.len, None);
    }
    p
}

#[kani::proof]
#[kani::unwind(6)]
fn c17_bounded_lookup_matches_listing() {
    let it = any_index_type();
    let t0 = any_type();
    let t1 = any_type();
    let n0: usize = kani::any();
    let n1: usize = kani::any();
    kani::assume(n0 <= 2 && n1 <= 2);
    let b = [
        B { id: kani::any(), off: kani::any(), len: kani::any() },
        B { id: kani::any(), off: kani::any(), len: kani::any() },
        B { id: kani::any(), off: kani::any(), len: kani::any() },
        B { id: kani::any(), off: kani::any(), len: kani::any() },
    ];
    // ids are assumed small so that one byte identifies them (bound)
    kani::assume(b[0].id < 4 && b[1].id < 4 && b[2].id < 4 && b[3].id < 4);
    let p0 = pack(1, t0, n0, &b[0], &b[1]);
    let p1 = pack(2, t1, n1, &b[2], &b[3]);

    let mut c = IndexCollector::new(it);
    c.extend(vec![p0, p1]);
    let index = into_index_std(c);

    // query
    let qt = any_type();
    let q: u8 = kani::any();
    kani::assume(q < 4);
    let qid = bid(q);

    // the listing, written out: blob k is listed under type `tk` in pack `pk` iff present
    let present = [n0 >= 1, n0 >= 2, n1 >= 1, n1 >= 2];
    let tk = [t0, t0, t1, t1];
    let pk = [1u8, 1, 2, 2];
    let mut listed = false;
    let mut k = 0;
    while k < 4 {
        if present[k] && tk[k] == qt && b[k].id == q {
            listed = true;
        }
        k += 1;
    }

    let full = matches!(it, IndexType::Full) || qt == BlobType::Tree;
    let ids_only = matches!(it, IndexType::DataIds) && qt == BlobType::Data;

    // has: exact presence for the information retained
    let has = index.has(qt, &qid);
    if full || ids_only {
        assert!(has == listed, "has() answers exactly 'some index file lists (type, id)'");
    } else {
        assert!(!has, "trees-only index: no data answers");
    }

    // get_id: succeeds exactly when listed (full mode) and returns one such listing
    let got = index.get_id(qt, &qid);
    if full {
        assert!(got.is_some() == listed, "get_id() succeeds exactly when listed");
        if let Some(e) = got {
            let mut ok = false;
            let mut k = 0;
            while k < 4 {
                if present[k] && tk[k] == qt && b[k].id == q && e.pack == pid(pk[k]) && e.location.offset == b[k].off && e.location.length == b[k].len {
                    ok = true;
                }
                k += 1;
            }
            assert!(ok, "returned pack/offset/length are those of one such listing");
        }
    } else {
        assert!(got.is_none());
    }

    // totals: sum of listed pack sizes per type (packs are filed under the type of their first blob; empty => Data)
    let ft0 = if n0 == 0 { BlobType::Data } else { t0 };
    let ft1 = if n1 == 0 { BlobType::Data } else { t1 };
    let exp = u64::from(ft0 == qt) * 100 + u64::from(ft1 == qt) * 100;
    assert!(index.total_size(qt) == exp, "size totals equal the sum of listed pack sizes");

    kani::cover!(listed && full);
    kani::cover!(!listed);
    kani::cover!(ids_only && listed);
    core::mem::forget(index);
}

/// PackIndexes: iterating the index yields every collected pack exactly once with exactly its blobs
#[kani::proof]
#[kani::unwind(6)]
fn c17_bounded_pack_iteration_roundtrip() {
    let t0 = any_type();
    let t1 = any_type();
    let n0: usize = kani::any();
    let n1: usize = kani::any();
    kani::assume(n0 <= 2 && n1 <= 2);
    let b = [
        B { id: kani::any(), off: kani::any(), len: kani::any() },
        B { id: kani::any(), off: kani::any(), len: kani::any() },
        B { id: kani::any(), off: kani::any(), len: kani::any() },
        B { id: kani::any(), off: kani::any(), len: kani::any() },
    ];
    kani::assume(b[0].id < 4 && b[1].id < 4 && b[2].id < 4 && b[3].id < 4);
    let p0 = pack(1, t0, n0, &b[0], &b[1]);
    let p1 = pack(2, t1, n1, &b[2], &b[3]);
    let mut c = IndexCollector::new(IndexType::Full);
    c.extend(vec![p0, p1]);
    let index = into_index_std(c);

    let mut seen = [0usize; 2];
    let mut blobs_seen = [0usize; 2];
    let mut iter = into_iter_std(index);
    let mut rounds = 0;
    while rounds < 3 {
        match iter.next() {
            None => break,
            Some(p) => {
                let which = if p.id == pid(1) { 0 } else { 1 };
                assert!(p.id == pid(1) || p.id == pid(2));
                seen[which] += 1;
                blobs_seen[which] += p.blobs.len();
                let n = if which == 0 { n0 } else { n1 };
                assert!(p.blobs.len() == n, "a pack comes back with exactly its blobs");
                let mut j = 0;
                while j < p.blobs.len() && j < 2 {
                    let src0 = &b[which * 2];
                    let src1 = &b[which * 2 + 1];
                    let x = &p.blobs[j];
                    let m0 = x.id == bid(src0.id) && x.location.offset == src0.off && x.location.length == src0.len;
                    let m1 = n == 2 && x.id == bid(src1.id) && x.location.offset == src1.off && x.location.length == src1.len;
                    assert!(m0 || m1, "every returned blob is one of the pack's listed blobs");
                    j += 1;
                }
                core::mem::forget(p);
            }
        }
        rounds += 1;
    }
    assert!(seen[0] == 1 && seen[1] == 1, "every collected pack is yielded exactly once");
    assert!(rounds == 2);
    kani::cover!(n0 == 2 && n1 == 2);
}
