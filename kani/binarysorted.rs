//! cfg(kani) child module of `crates/core/src/index/binarysorted.rs` (harnesses to be added)
