//! C17: cfg(kani) child module of `index/binarysorted.rs`.
//! BOUNDED stand-in (never counted as proved) for `PackIndexes::next`, which Verus cannot ingest
//! ("complex break expressions").  The iterator state is built directly in the shape `Index::into_iter`
//! leaves it in (entries grouped by ascending pack index): tree packs {T0: 2 blobs, T1: 0 blobs},
//! data packs {D0: 1 blob}; ids, offsets and lengths symbolic.  `into_iter` itself (rayon
//! par_sort_unstable_by) crashes the Kani compiler and is not run here.
//! An end-to-end collector twin (extend + sort + lookup with symbolic ids) was tried and dropped: it
//! did not finish within 25 minutes; those functions are proved unboundedly by the Verus units.
use super::*;
use crate::id::Id;

fn bid(b: u8) -> BlobId {
    let mut a = [0u8; 32];
    a[0] = b;
    BlobId::from(Id::new(a))
}
fn pid(b: u8) -> PackId {
    let mut a = [0u8; 32];
    a[0] = b;
    PackId::from(Id::new(a))
}
fn entry(id: u8, pack_idx: u32, off: u32, len: u32) -> SortedEntry {
    SortedEntry { id: bid(id), pack_idx, location: BlobLocation { offset: off, length: len, uncompressed_length: None } }
}

#[kani::proof]
#[kani::unwind(34)]
fn c17_bounded_pack_indexes_next() {
    let ids: [u8; 3] = [kani::any(), kani::any(), kani::any()];
    let offs: [u32; 3] = [kani::any(), kani::any(), kani::any()];
    let lens: [u32; 3] = [kani::any(), kani::any(), kani::any()];
    let tree = TypeIndex {
        packs: vec![pid(10), pid(11)],
        entries: EntriesVariants::FullEntries(vec![entry(ids[0], 0, offs[0], lens[0]), entry(ids[1], 0, offs[1], lens[1])]),
        total_size: 0,
    };
    let data = TypeIndex {
        packs: vec![pid(20)],
        entries: EntriesVariants::FullEntries(vec![entry(ids[2], 0, offs[2], lens[2])]),
        total_size: 0,
    };
    let mut map = BlobTypeMap::<TypeIndex>::from_fn(|_| TypeIndex { packs: Vec::new(), entries: EntriesVariants::None, total_size: 0 });
    map[BlobType::Tree] = tree;
    map[BlobType::Data] = data;
    let mut it = PackIndexes { c: Index(map), tpe: BlobType::Tree, idx: BlobTypeMap::default() };

    // 1st: tree pack 10 with exactly its two blobs, in order
    let p = it.next().unwrap();
    assert!(p.id == pid(10) && p.blobs.len() == 2);
    assert!(p.blobs[0].id == bid(ids[0]) && p.blobs[0].tpe == BlobType::Tree && p.blobs[0].location.offset == offs[0] && p.blobs[0].location.length == lens[0]);
    assert!(p.blobs[1].id == bid(ids[1]) && p.blobs[1].location.offset == offs[1]);
    core::mem::forget(p);
    // 2nd: empty tree pack 11
    let p = it.next().unwrap();
    assert!(p.id == pid(11) && p.blobs.is_empty());
    core::mem::forget(p);
    // 3rd: data pack 20 with its blob, typed Data
    let p = it.next().unwrap();
    assert!(p.id == pid(20) && p.blobs.len() == 1 && p.blobs[0].tpe == BlobType::Data && p.blobs[0].id == bid(ids[2]) && p.blobs[0].location.length == lens[2]);
    core::mem::forget(p);
    // then exhausted, and stays exhausted
    assert!(it.next().is_none());
    assert!(it.next().is_none());
    kani::cover!(ids[0] == ids[2]);
    core::mem::forget(it);
}


