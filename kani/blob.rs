//! cfg(kani) child module of `crates/core/src/blob.rs` (harnesses to be added)
