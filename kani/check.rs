//! cfg(kani) child module of `crates/core/src/commands/check.rs` (harnesses to be added)
