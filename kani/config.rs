//! cfg(kani) child module of `crates/core/src/commands/config.rs` (harnesses to be added)
