//! cfg(kani) child module of `crates/core/src/repofile/configfile.rs` (harnesses to be added)
