//! cfg(kani) child module of `crates/core/src/backend/decrypt.rs` (harnesses to be added)
