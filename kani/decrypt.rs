//! C04 harnesses: cfg(kani) child module of `backend/decrypt.rs`.
//! The REAL `DecryptBackend<C>` is instantiated with `MockKey` (ciphertext = 0xEE marker + plaintext;
//! decryption fails unless the marker is there and the key's `fail_decrypt` is off) over the recording
//! mock store.  zstd is off (`zstd: None`; the compressed paths call FFI, which Kani does not support).
//! `hash` is replaced by a cheap stub (first byte, last byte, length) -- SHA-256 is not under proof.
use super::*;
use crate::backend::verif_mock::*;
use crate::error::verif_kani_stubs as es;

fn hash_stub(data: &[u8]) -> Id {
    let mut a = [0u8; 32];
    a[0] = data.first().copied().unwrap_or(0);
    a[1] = data.last().copied().unwrap_or(0);
    a[2] = data.len() as u8;
    Id::new(a)
}

fn setup(fail_store: u16, key: MockKey, extra_verify: bool) -> (DecryptBackend<MockKey>, Arc<Log>) {
    let log = Arc::new(Log::new());
    let store = MockBackend::new(0, fail_store, log.clone());
    let mut dbe = DecryptBackend::new(Arc::new(store), key);
    dbe.set_extra_verify(extra_verify);
    (dbe, log)
}

/// U04.1 hash_write_full: what reaches storage is exactly one file whose bytes are the key's ciphertext
/// of the plaintext and whose name is the hash of those stored bytes; if the extra verification cannot
/// decrypt what was just encrypted, nothing is written.
#[kani::proof]
#[kani::unwind(34)]
#[kani::stub(crate::crypto::hasher::hash, hash_stub)]
#[kani::stub(crate::error::RusticError::new, es::new_stub)]
fn c04_hash_write_full_stores_ciphertext_under_its_hash() {
    let key = MockKey { fail_encrypt: kani::any(), fail_decrypt: kani::any() };
    let extra_verify: bool = kani::any();
    let fail_store: u16 = kani::any();
    let (dbe, log) = setup(fail_store, key, extra_verify);
    let tpe = any_filetype();
    let p1: u8 = kani::any();
    let plain = [b'{', p1, b'}'];
    let r = dbe.hash_write_full(tpe, &plain);
    let ok = r.is_ok();
    let id = r.as_ref().ok().copied();
    core::mem::forget(r);
    let cipher = [0xEEu8, b'{', p1, b'}'];
    if key.fail_encrypt || (extra_verify && key.fail_decrypt) {
        assert!(!ok && log.len() == 0, "encryption or self-verification failed: error, nothing stored");
    } else {
        assert!(log.len() == 1, "exactly one storage operation");
        let expect_id = hash_stub(&cipher);
        assert!(log.get(0) == event(0, OP_WRITE, tpe_code(tpe), false, id_tag(&expect_id), 4, 0xEE, 0, 0),
                "the stored bytes are the ciphertext (marker first, 1 byte longer), the name is their hash");
        assert!(ok == (fail_store & (1 << OP_WRITE) == 0));
        if ok { assert!(id == Some(expect_id)); }
    }
    kani::cover!(ok && extra_verify);
    kani::cover!(!ok && log.len() == 0);
}

/// U04.2 reading: data is returned only if the key authenticated it.
#[kani::proof]
#[kani::unwind(6)]
#[kani::stub(crate::error::RusticError::new, es::new_stub)]
fn c04_read_from_partial_requires_authentication() {
    let key = MockKey { fail_encrypt: false, fail_decrypt: kani::any() };
    let (dbe, _log) = setup(0, key, false);
    let data: [u8; 3] = [kani::any(), kani::any(), kani::any()];
    let r = dbe.read_encrypted_from_partial(&data, None);
    let ok = r.is_ok();
    if let Ok(b) = &r {
        assert!(data[0] == 0xEE && !key.fail_decrypt, "Ok only for authenticated ciphertext");
        assert!(b.len() == 2 && b[0] == data[1] && b[1] == data[2], "and then exactly the plaintext");
    }
    assert!(ok == (data[0] == 0xEE && !key.fail_decrypt), "tampered / unauthenticated data is an error");
    core::mem::forget(r);
    kani::cover!(ok);
}

/// U04.4 -- obligation taken from the property statement ("substitution ... makes the affected read fail"):
/// reading file `id` must not succeed when the store hands back the (authentic) bytes of ANOTHER file,
/// i.e. bytes whose hash is not `id`.
#[kani::proof]
#[kani::unwind(6)]
#[kani::stub(crate::crypto::hasher::hash, hash_stub)]
#[kani::stub(crate::error::RusticError::new, es::new_stub)]
fn c04_read_full_rejects_substituted_file() {
    let key = MockKey { fail_encrypt: false, fail_decrypt: false };
    let log = Arc::new(Log::new());
    // the store answers every read_full with the same authentic ciphertext of some other file
    let store = SwappedStore { log };
    let dbe = DecryptBackend::new(Arc::new(store), key);
    let mut a = [0u8; 32];
    a[0] = kani::any();
    let id = Id::new(a);
    kani::assume(id != hash_stub(&SwappedStore::CONTENT));
    let r = dbe.read_encrypted_full(FileType::Snapshot, &id);
    let ok = r.is_ok();
    core::mem::forget(r);
    assert!(!ok, "read of a file whose stored bytes do not hash to its id must fail");
}

#[derive(Debug)]
struct SwappedStore {
    log: Arc<Log>,
}
impl SwappedStore {
    const CONTENT: [u8; 3] = [0xEE, b'{', b'}'];
}
impl ReadBackend for SwappedStore {
    fn location(&self) -> String {
        String::new()
    }
    fn list_with_size(&self, _tpe: FileType) -> RusticResult<Vec<(Id, u32)>> {
        Ok(Vec::new())
    }
    fn read_full(&self, _tpe: FileType, _id: &Id) -> RusticResult<Bytes> {
        self.log.push(1);
        Ok(Bytes::from_static(&Self::CONTENT))
    }
    fn read_partial(&self, _tpe: FileType, _id: &Id, _c: bool, _o: u32, _l: u32) -> RusticResult<Bytes> {
        Ok(Bytes::from_static(&Self::CONTENT))
    }
    fn warmup_path(&self, _tpe: FileType, _id: &Id) -> String {
        String::new()
    }
}
impl WriteBackend for SwappedStore {
    fn write_bytes(&self, _tpe: FileType, _id: &Id, _c: bool, _content: BytesList) -> RusticResult<()> {
        Ok(())
    }
    fn remove(&self, _tpe: FileType, _id: &Id, _c: bool) -> RusticResult<()> {
        Ok(())
    }
}

/// U04.1b process_data (blob path, compression off): the bytes handed to the packer are the key's ciphertext of
/// the chunk, the recorded plain length is the chunk length, no uncompressed length without compression;
/// with the extra verification on, a ciphertext that does not decrypt back is refused.
#[kani::proof]
#[kani::unwind(6)]
#[kani::stub(crate::error::RusticError::new, es::new_stub)]
fn c04_process_data_yields_verified_ciphertext() {
    let key = MockKey { fail_encrypt: kani::any(), fail_decrypt: kani::any() };
    let extra_verify: bool = kani::any();
    let (dbe, log) = setup(0, key, extra_verify);
    let d: [u8; 2] = [kani::any(), kani::any()];
    let r = dbe.process_data(&d);
    match &r {
        Ok((enc, len, ul)) => {
            assert!(!key.fail_encrypt && !(extra_verify && key.fail_decrypt));
            assert!(enc.len() == 3 && enc[0] == 0xEE && enc[1] == d[0] && enc[2] == d[1], "ciphertext of exactly this chunk");
            assert!(*len == 2 && ul.is_none());
        }
        Err(_) => assert!(key.fail_encrypt || (extra_verify && key.fail_decrypt)),
    }
    assert!(log.len() == 0, "process_data itself stores nothing");
    kani::cover!(r.is_ok() && extra_verify);
    core::mem::forget(r);
}

// ---- compressed read path: zstd (FFI) replaced by a mock decoder that returns ANY byte string of length 0..=3 or fails.
fn any_small_vec() -> Vec<u8> {
    let n: u8 = kani::any();
    let (a, b, c): (u8, u8, u8) = (kani::any(), kani::any(), kani::any());
    match n % 4 {
        0 => Vec::new(),
        1 => vec![a],
        2 => vec![a, b],
        _ => vec![a, b, c],
    }
}
fn decode_all_stub<R: std::io::Read>(source: R) -> std::io::Result<Vec<u8>> {
    core::mem::forget(source);
    if kani::any() {
        return Err(std::io::Error::from(std::io::ErrorKind::InvalidData));
    }
    Ok(any_small_vec())
}
// zstd::bulk::decompress(data, capacity): fails if the output exceeds the capacity, otherwise returns the output
fn bulk_decompress_stub(data: &[u8], capacity: usize) -> std::io::Result<Vec<u8>> {
    let _ = data;
    let v = any_small_vec();
    if kani::any() || v.len() > capacity {
        core::mem::forget(v);
        return Err(std::io::Error::from(std::io::ErrorKind::InvalidData));
    }
    Ok(v)
}

/// U04.3 compressed blobs ("compressed-length check after decompress"): whatever the decoder makes of an
/// authentic ciphertext, a read that succeeds returns exactly `uncompressed_length` bytes.
#[kani::proof]
#[kani::unwind(6)]
#[kani::stub(crate::error::RusticError::new, es::new_stub)]
#[kani::stub(crate::error::RusticError::with_source, es::with_source_stub)]
#[kani::stub(crate::error::RusticError::attach_context, es::attach_context_stub)]
#[kani::stub(zstd::stream::decode_all, decode_all_stub)]
#[kani::stub(zstd::bulk::decompress, bulk_decompress_stub)]
fn c04_compressed_read_returns_exactly_the_recorded_length() {
    let key = MockKey { fail_encrypt: false, fail_decrypt: kani::any() };
    let (dbe, _log) = setup(0, key, false);
    let data: [u8; 2] = [kani::any(), kani::any()];
    let ul: u8 = kani::any();
    kani::assume(ul >= 1 && ul <= 4);
    let length = NonZeroU32::new(ul as u32).unwrap();
    let r = dbe.read_encrypted_from_partial(&data, Some(length));
    if let Ok(b) = &r {
        assert!(data[0] == 0xEE && !key.fail_decrypt, "Ok only for authenticated ciphertext");
        assert!(b.len() == ul as usize, "a successful compressed read returns exactly uncompressed_length bytes");
    }
    kani::cover!(r.is_ok());
    kani::cover!(r.is_err() && data[0] == 0xEE && !key.fail_decrypt);
    core::mem::forget(r);
}
