//! C15 harnesses: cfg(kani) child module of `backend/dry_run.rs`.
//! Contract of DryRunBackend over a recording inner backend: with `dry_run` set NO mutating call
//! reaches the inner backend (and the call reports success); without it the call is forwarded exactly
//! once with identical arguments and the inner result is returned.  All code under proof is loop-free.
use super::*;
use crate::backend::verif_mock::*;
use crate::error::verif_kani_stubs as es;
use std::sync::Arc;

fn setup() -> (DryRunBackend<MockDecryptFull>, Arc<Log>, u16, bool) {
    let log = Arc::new(Log::new());
    let fail: u16 = kani::any();
    let dry: bool = kani::any();
    (DryRunBackend::new(MockDecryptFull::new(fail, log.clone()), dry), log, fail, dry)
}

fn any_id() -> Id {
    let mut b = [0u8; 32];
    b[0] = kani::any();
    Id::new(b)
}

fn fails(mask: u16, op: u64) -> bool {
    mask & (1 << op) != 0
}

#[kani::proof]
#[kani::unwind(4)]
#[kani::stub(crate::error::RusticError::new, es::new_stub)]
fn c15_dry_run_write_bytes() {
    let (be, log, fail, dry) = setup();
    let tpe = any_filetype();
    let id = any_id();
    let cacheable: bool = kani::any();
    let r = be.write_bytes(tpe, &id, cacheable, BytesList::from(Bytes::from_static(b"\x05x")));
    let ok = r.is_ok();
    core::mem::forget(r);
    if dry {
        assert!(log.len() == 0, "dry-run: no write reaches the repository");
        assert!(ok);
    } else {
        assert!(log.len() == 1 && log.get(0) == event(0, OP_WRITE, tpe_code(tpe), cacheable, id_tag(&id), 2, 5, 0, 0));
        assert!(ok == !fails(fail, OP_WRITE));
    }
    kani::cover!(dry);
    kani::cover!(!dry && ok);
}

#[kani::proof]
#[kani::stub(crate::error::RusticError::new, es::new_stub)]
fn c15_dry_run_remove() {
    let (be, log, fail, dry) = setup();
    let tpe = any_filetype();
    let id = any_id();
    let cacheable: bool = kani::any();
    let r = be.remove(tpe, &id, cacheable);
    let ok = r.is_ok();
    core::mem::forget(r);
    if dry {
        assert!(log.len() == 0, "dry-run: no removal reaches the repository");
        assert!(ok);
    } else {
        assert!(log.len() == 1 && log.get(0) == event(0, OP_REMOVE, tpe_code(tpe), cacheable, id_tag(&id), 0, 0, 0, 0));
        assert!(ok == !fails(fail, OP_REMOVE));
    }
    kani::cover!(dry);
    kani::cover!(!dry && ok);
}

#[kani::proof]
#[kani::stub(crate::error::RusticError::new, es::new_stub)]
fn c15_dry_run_create() {
    let (be, log, fail, dry) = setup();
    let r = be.create();
    let ok = r.is_ok();
    core::mem::forget(r);
    if dry {
        assert!(log.len() == 0 && ok);
    } else {
        assert!(log.len() == 1 && log.get(0) == event(0, OP_CREATE, 0, false, 0, 0, 0, 0, 0));
        assert!(ok == !fails(fail, OP_CREATE));
    }
    kani::cover!(dry);
    kani::cover!(!dry && ok);
}

#[kani::proof]
#[kani::stub(crate::error::RusticError::new, es::new_stub)]
fn c15_dry_run_hash_write_full() {
    let (be, log, fail, dry) = setup();
    let tpe = any_filetype();
    let d0: u8 = kani::any();
    let data = [d0, 1u8, 2u8];
    let r = be.hash_write_full(tpe, &data);
    let ok = r.is_ok();
    core::mem::forget(r);
    if dry {
        assert!(log.len() == 0 && ok, "dry-run: nothing is hashed-and-written");
    } else {
        assert!(log.len() == 1 && log.get(0) == event(0, OP_HASH_WRITE_FULL, tpe_code(tpe), false, 0, 3, d0, 0, 0));
        assert!(ok == !fails(fail, OP_HASH_WRITE_FULL));
    }
    kani::cover!(dry);
    kani::cover!(!dry && ok);
}

#[kani::proof]
fn c15_dry_run_setters() {
    let (mut be, log, _fail, dry) = setup();
    let z: Option<i32> = kani::any();
    let x: bool = kani::any();
    be.set_zstd(z);
    be.set_extra_verify(x);
    if dry {
        assert!(log.len() == 0, "dry-run: settings of the real backend are not touched");
    } else {
        assert!(log.len() == 2);
        assert!(log.get(0) == event(0, OP_SET_ZSTD, 0, z.is_some(), 0, 0, 0, 0, 0));
        assert!(log.get(1) == event(0, OP_SET_EXTRA_VERIFY, 0, x, 0, 0, 0, 0, 0));
    }
    kani::cover!(dry);
    kani::cover!(!dry);
}

/// reads are always forwarded unchanged (a dry run sees the real repository)
#[kani::proof]
#[kani::stub(crate::error::RusticError::new, es::new_stub)]
fn c15_dry_run_reads_forwarded() {
    let (be, log, fail, _dry) = setup();
    let tpe = any_filetype();
    let id = any_id();
    let which: u8 = kani::any();
    kani::assume(which < 3);
    match which {
        0 => {
            let r = be.read_full(tpe, &id);
            let ok = r.is_ok();
            core::mem::forget(r);
            assert!(log.len() == 1 && log.get(0) == event(0, OP_READ_FULL, tpe_code(tpe), false, id_tag(&id), 0, 0, 0, 0));
            assert!(ok == !fails(fail, OP_READ_FULL));
        }
        1 => {
            let c: bool = kani::any();
            let o: u8 = kani::any();
            let l: u8 = kani::any();
            let r = be.read_partial(tpe, &id, c, u32::from(o), u32::from(l));
            let ok = r.is_ok();
            core::mem::forget(r);
            assert!(log.len() == 1 && log.get(0) == event(0, OP_READ_PARTIAL, tpe_code(tpe), c, id_tag(&id), 0, 0, u64::from(o), u64::from(l)));
            assert!(ok == !fails(fail, OP_READ_PARTIAL));
        }
        _ => {
            let r = be.list_with_size(tpe);
            let ok = r.is_ok();
            core::mem::forget(r);
            assert!(log.len() == 1 && log.get(0) == event(0, OP_LIST, tpe_code(tpe), false, 0, 0, 0, 0, 0));
            assert!(ok == !fails(fail, OP_LIST));
        }
    }
    kani::cover!(which == 0);
    kani::cover!(which == 2);
}
