//! cfg(kani) child module of `crates/core/src/backend/dry_run.rs` (harnesses to be added)
