//! cfg(kani) child module of `error.rs`: allocation-free stand-ins for the RusticError builders.
//! Used through `#[kani::stub(..)]`; they keep the `ErrorKind` and drop guidance/context/backtrace
//! (CBMC would otherwise unwind EcoVec/EcoString/format! machinery without bound).
use super::*;

pub(crate) fn new_stub(kind: ErrorKind, guidance: impl Into<EcoString>) -> Box<RusticError> {
    core::mem::forget(guidance);
    Box::new(RusticError {
        kind,
        guidance: EcoString::new(),
        context: EcoVec::new(),
        source: None,
        error_code: None,
        docs_url: None,
        new_issue_url: None,
        existing_issue_urls: EcoVec::new(),
        severity: None,
        status: None,
        ask_report: false,
        backtrace: None,
    })
}

pub(crate) fn with_source_stub(
    kind: ErrorKind,
    guidance: impl Into<EcoString>,
    source: impl Into<Box<dyn std::error::Error + Send + Sync>>,
) -> Box<RusticError> {
    core::mem::forget(source);
    new_stub(kind, guidance)
}

pub(crate) fn attach_context_stub(
    this: RusticError,
    key: impl Into<EcoString>,
    value: impl Into<EcoString>,
) -> Box<RusticError> {
    core::mem::forget(key);
    core::mem::forget(value);
    Box::new(this)
}

pub(crate) fn ask_report_stub(this: RusticError) -> Box<RusticError> {
    Box::new(this)
}

/// kind of an error without touching anything that allocates
pub(crate) fn kind_of(e: &RusticError) -> ErrorKind {
    e.kind
}
