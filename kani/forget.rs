//! C09 harness: cfg(kani) child module of `commands/forget.rs`.
//! `KeepOptions::matches` is proved against the rule table of the property for ALL counter values,
//! ALL outcomes of the eight period predicates (stubbed by symbolic booleans, i.e. the harness sees
//! only their contracts, which Verus proves separately), has_next and presence of `last`.
//! keep_within*, keep_ids and keep_tags are empty here (stated restriction).  The contract checks the
//! NUMBER of reasons (kept iff > 0) and every counter's post-state; it does not read the reason strings
//! (dereferencing the Vec<&str> buffer made the CBMC formula exceed 30 GB).
use super::*;
use crate::repofile::snapshotfile::{DeleteOption, SnapshotId};
use crate::repofile::snapshotfile::StringList;
use crate::blob::tree::TreeId;
use std::sync::atomic::{AtomicBool, Ordering};

static P_MINUTE: AtomicBool = AtomicBool::new(false);
static P_HOUR: AtomicBool = AtomicBool::new(false);
static P_DAY: AtomicBool = AtomicBool::new(false);
static P_WEEK: AtomicBool = AtomicBool::new(false);
static P_MONTH: AtomicBool = AtomicBool::new(false);
static P_QUARTER: AtomicBool = AtomicBool::new(false);
static P_HALF: AtomicBool = AtomicBool::new(false);
static P_YEAR: AtomicBool = AtomicBool::new(false);

fn s_minute(_a: &SnapshotFile, _b: &SnapshotFile) -> bool { P_MINUTE.load(Ordering::SeqCst) }
fn s_hour(_a: &SnapshotFile, _b: &SnapshotFile) -> bool { P_HOUR.load(Ordering::SeqCst) }
fn s_day(_a: &SnapshotFile, _b: &SnapshotFile) -> bool { P_DAY.load(Ordering::SeqCst) }
fn s_week(_a: &SnapshotFile, _b: &SnapshotFile) -> bool { P_WEEK.load(Ordering::SeqCst) }
fn s_month(_a: &SnapshotFile, _b: &SnapshotFile) -> bool { P_MONTH.load(Ordering::SeqCst) }
fn s_quarter(_a: &SnapshotFile, _b: &SnapshotFile) -> bool { P_QUARTER.load(Ordering::SeqCst) }
fn s_half(_a: &SnapshotFile, _b: &SnapshotFile) -> bool { P_HALF.load(Ordering::SeqCst) }
fn s_year(_a: &SnapshotFile, _b: &SnapshotFile) -> bool { P_YEAR.load(Ordering::SeqCst) }

fn snap(t: &Zoned) -> SnapshotFile {
    SnapshotFile {
        time: t.clone(),
        program_version: String::new(),
        parent: None,
        parents: Vec::new(),
        tree: TreeId::default(),
        label: String::new(),
        paths: StringList::default(),
        hostname: String::new(),
        username: String::new(),
        uid: 0,
        gid: 0,
        tags: StringList::default(),
        original: None,
        delete: DeleteOption::NotSet,
        summary: None,
        description: None,
        id: SnapshotId::default(),
    }
}

#[kani::proof]
#[kani::unwind(34)]
#[kani::stub(equal_minute, s_minute)]
#[kani::stub(equal_hour, s_hour)]
#[kani::stub(equal_day, s_day)]
#[kani::stub(equal_week, s_week)]
#[kani::stub(equal_month, s_month)]
#[kani::stub(equal_quarter_year, s_quarter)]
#[kani::stub(equal_half_year, s_half)]
#[kani::stub(equal_year, s_year)]
fn c09_matches_rule_table() {
    let same: [bool; 9] = [false, kani::any(), kani::any(), kani::any(), kani::any(), kani::any(), kani::any(), kani::any(), kani::any()];
    P_MINUTE.store(same[1], Ordering::SeqCst);
    P_HOUR.store(same[2], Ordering::SeqCst);
    P_DAY.store(same[3], Ordering::SeqCst);
    P_WEEK.store(same[4], Ordering::SeqCst);
    P_MONTH.store(same[5], Ordering::SeqCst);
    P_QUARTER.store(same[6], Ordering::SeqCst);
    P_HALF.store(same[7], Ordering::SeqCst);
    P_YEAR.store(same[8], Ordering::SeqCst);

    let c0: [Option<i32>; 9] = [kani::any(), kani::any(), kani::any(), kani::any(), kani::any(), kani::any(), kani::any(), kani::any(), kani::any()];
    let mut k = KeepOptions::default();
    k.keep_last = c0[0];
    k.keep_minutely = c0[1];
    k.keep_hourly = c0[2];
    k.keep_daily = c0[3];
    k.keep_weekly = c0[4];
    k.keep_monthly = c0[5];
    k.keep_quarter_yearly = c0[6];
    k.keep_half_yearly = c0[7];
    k.keep_yearly = c0[8];

    let t = Zoned::default();
    let sn = snap(&t);
    let prev = snap(&t);
    let has_next: bool = kani::any();
    let have_last: bool = kani::any();
    let last = if have_last { Some(&prev) } else { None };

    let r = k.matches(&sn, last, has_next, &t);
    // the returned &str borrow `k`: copy out what is compared, then release the borrow
    let rlen = r.len();
    core::mem::forget(r);

    let c1: [Option<i32>; 9] = [k.keep_last, k.keep_minutely, k.keep_hourly, k.keep_daily, k.keep_weekly, k.keep_monthly, k.keep_quarter_yearly, k.keep_half_yearly, k.keep_yearly];
    let mut j = 0usize;
    let mut i = 0usize;
    while i < 9 {
        // a rule fires for the newest snapshot of a period: no older snapshot follows, or there is no
        // newer one to compare with, or the newer one lies in a different period
        let fired = !has_next || !have_last || !same[i];
        let expect_reason = fired && matches!(c0[i], Some(n) if n != 0);
        if expect_reason {
            j += 1;
        }
        match c0[i] {
            Some(n) if n > 0 && fired => assert!(c1[i] == Some(n - 1), "a positive counter is used up by one"),
            other => assert!(c1[i] == other, "counter unchanged (None, 0, negative = keep all, or rule not fired)"),
        }
        i += 1;
    }
    assert!(j == rlen, "exactly one reason per rule that fired with a live counter (so: kept iff some rule applies)");
    kani::cover!(rlen == 9);
    kani::cover!(rlen == 0 && has_next && have_last);
    core::mem::forget(sn);
    core::mem::forget(prev);
}

