//! cfg(kani) child module of `crates/core/src/commands/forget.rs` (harnesses to be added)
