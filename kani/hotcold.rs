//! C16 harnesses: cfg(kani) child module of `backend/hotcold.rs`.
//! Contracts are stated over the shared event log of two recording mocks; all inputs symbolic,
//! no loops in the code under proof => complete for the stated domain.
use super::*;
use crate::backend::verif_mock::*;
use crate::error::{RusticError, verif_kani_stubs as es};

fn setup() -> (HotColdBackend, Arc<Log>, u16, u16) {
    let log = Arc::new(Log::new());
    let fail_cold: u16 = kani::any();
    let fail_hot: u16 = kani::any();
    let cold = MockBackend::new(0, fail_cold, log.clone());
    let hot = MockBackend::new(1, fail_hot, log.clone());
    (HotColdBackend::new(cold, hot), log, fail_cold, fail_hot)
}

fn any_id() -> Id {
    let mut b = [0u8; 32];
    b[0] = kani::any();
    Id::new(b)
}

fn fails(mask: u16, op: u64) -> bool {
    mask & (1 << op) != 0
}

/// the set of files the property wants in the hot store: everything except the config file
/// (saved separately with the is_hot marker) and non-cacheable (= data) packs
fn hot_eligible(tpe: FileType, cacheable: bool) -> bool {
    tpe != FileType::Config && (cacheable || tpe != FileType::Pack)
}

/// U16.1 write: hot first, then cold, same bytes; data packs and config never reach the hot store
#[kani::proof]
#[kani::unwind(4)]
#[kani::stub(RusticError::new, es::new_stub)]
fn c16_write_bytes() {
    let (hc, log, fc, fh) = setup();
    let tpe = any_filetype();
    let id = any_id();
    let cacheable: bool = kani::any();
    let c0: u8 = kani::any();
    let two: bool = kani::any();
    let mut content = BytesList::from(Bytes::from_static(if c0 == 7 { b"\x07" } else { b"\x09" }));
    if two {
        content.add(Bytes::from_static(b"zz"));
    }
    let clen: u64 = if two { 3 } else { 1 };
    let cb = if c0 == 7 { 7u8 } else { 9u8 };

    let r = hc.write_bytes(tpe, &id, cacheable, content);
    let ok = r.is_ok();
    core::mem::forget(r);

    let t = tpe_code(tpe);
    let w_hot = event(1, OP_WRITE, t, cacheable, id_tag(&id), clen, cb, 0, 0);
    let w_cold = event(0, OP_WRITE, t, cacheable, id_tag(&id), clen, cb, 0, 0);
    if hot_eligible(tpe, cacheable) {
        assert!(log.len() >= 1 && log.get(0) == w_hot, "eligible file: first effect is the hot write of the same bytes");
        if fails(fh, OP_WRITE) {
            assert!(log.len() == 1 && !ok, "hot write failed: error, cold store untouched");
        } else {
            assert!(log.len() == 2 && log.get(1) == w_cold, "then exactly the cold write of the same bytes");
            assert!(ok == !fails(fc, OP_WRITE), "result is the cold write's result");
        }
    } else {
        assert!(log.len() == 1 && log.get(0) == w_cold, "config / data pack: only the cold store is written");
        assert!(ok == !fails(fc, OP_WRITE));
    }
    kani::cover!(ok && hot_eligible(tpe, cacheable) && tpe == FileType::Pack);
    kani::cover!(ok && !hot_eligible(tpe, cacheable) && tpe == FileType::Pack);
}

/// U16.2 remove: cold first, then hot (so a listed cold file always has its hot copy)
#[kani::proof]
#[kani::stub(RusticError::new, es::new_stub)]
fn c16_remove() {
    let (hc, log, fc, fh) = setup();
    let tpe = any_filetype();
    let id = any_id();
    let cacheable: bool = kani::any();
    let r = hc.remove(tpe, &id, cacheable);
    let ok = r.is_ok();
    core::mem::forget(r);
    let t = tpe_code(tpe);
    let r_cold = event(0, OP_REMOVE, t, cacheable, id_tag(&id), 0, 0, 0, 0);
    let r_hot = event(1, OP_REMOVE, t, cacheable, id_tag(&id), 0, 0, 0, 0);
    assert!(log.len() >= 1 && log.get(0) == r_cold, "first effect is the cold remove");
    if fails(fc, OP_REMOVE) {
        assert!(log.len() == 1 && !ok, "cold remove failed: hot copy stays");
    } else if cacheable || tpe != FileType::Pack {
        assert!(log.len() == 2 && log.get(1) == r_hot, "then the hot copy is removed");
        assert!(ok == !fails(fh, OP_REMOVE));
    } else {
        assert!(log.len() == 1 && ok, "data pack: nothing to remove in the hot store");
    }
    kani::cover!(ok && log.len() == 2);
    kani::cover!(ok && log.len() == 1);
}

/// U16.3 listing comes from the cold store only
#[kani::proof]
#[kani::stub(RusticError::new, es::new_stub)]
fn c16_list_from_cold() {
    let (hc, log, fc, _fh) = setup();
    let tpe = any_filetype();
    let r = hc.list_with_size(tpe);
    let ok = r.is_ok();
    core::mem::forget(r);
    assert!(log.len() == 1 && log.get(0) == event(0, OP_LIST, tpe_code(tpe), false, 0, 0, 0, 0, 0));
    assert!(ok == !fails(fc, OP_LIST));
    kani::cover!(ok);
}

/// U16.3 ranged reads: hot store for everything that is hot-eligible, cold store for data packs
#[kani::proof]
#[kani::stub(RusticError::new, es::new_stub)]
fn c16_read_partial() {
    let (hc, log, fc, fh) = setup();
    let tpe = any_filetype();
    let id = any_id();
    let cacheable: bool = kani::any();
    let off: u8 = kani::any();
    let len: u8 = kani::any();
    let r = hc.read_partial(tpe, &id, cacheable, u32::from(off), u32::from(len));
    let ok = r.is_ok();
    let from_hot = matches!(&r, Ok(b) if b.first() == Some(&0x07));
    let from_cold = matches!(&r, Ok(b) if b.first() == Some(&0xc0));
    core::mem::forget(r);
    let store = u64::from(cacheable || tpe != FileType::Pack);
    assert!(log.len() == 1);
    assert!(log.get(0) == event(store, OP_READ_PARTIAL, tpe_code(tpe), cacheable, id_tag(&id), 0, 0, u64::from(off), u64::from(len)));
    if store == 1 {
        assert!(ok == !fails(fh, OP_READ_PARTIAL) && (!ok || from_hot));
    } else {
        assert!(ok == !fails(fc, OP_READ_PARTIAL) && (!ok || from_cold));
    }
    kani::cover!(from_hot);
    kani::cover!(from_cold);
}

/// U16.3 warm-up requests go to the cold store
#[kani::proof]
#[kani::stub(RusticError::new, es::new_stub)]
fn c16_warm_up_cold() {
    let (hc, log, fc, _fh) = setup();
    let tpe = any_filetype();
    let id = any_id();
    let r = hc.warm_up(tpe, &id);
    let ok = r.is_ok();
    core::mem::forget(r);
    assert!(log.len() == 1 && log.get(0) == event(0, OP_WARM_UP, tpe_code(tpe), false, id_tag(&id), 0, 0, 0, 0));
    assert!(ok == !fails(fc, OP_WARM_UP));
    let _ = hc.needs_warm_up();
    assert!(log.len() == 2 && log.get(1) == event(0, OP_NEEDS_WARM_UP, 0, false, 0, 0, 0, 0, 0));
    kani::cover!(ok);
}

/// U16.1 create: cold first, hot only after cold succeeded
#[kani::proof]
#[kani::stub(RusticError::new, es::new_stub)]
fn c16_create() {
    let (hc, log, fc, fh) = setup();
    let r = hc.create();
    let ok = r.is_ok();
    core::mem::forget(r);
    assert!(log.len() >= 1 && log.get(0) == event(0, OP_CREATE, 0, false, 0, 0, 0, 0, 0));
    if fails(fc, OP_CREATE) {
        assert!(log.len() == 1 && !ok);
    } else {
        assert!(log.len() == 2 && log.get(1) == event(1, OP_CREATE, 0, false, 0, 0, 0, 0, 0));
        assert!(ok == !fails(fh, OP_CREATE));
    }
    kani::cover!(ok);
}

/// U16.5 (obligation taken from the property: "all operations give the same results as on an
/// equivalent single-store repository"): a full read of ANY file present in the cold store
/// succeeds, in particular of a data pack, which by U16.1 is never in the hot store.
/// Stores are modelled by the mocks' failure bits: the hot mock fails `read_full` (it does not have
/// the data pack), the cold mock succeeds.
#[kani::proof]
#[kani::stub(RusticError::new, es::new_stub)]
fn c16_read_full_data_pack() {
    let log = Arc::new(Log::new());
    let cold = MockBackend::new(0, 0, log.clone());
    // the hot store has no data packs: reading one from it fails
    let hot = MockBackend::new(1, 1 << OP_READ_FULL, log.clone());
    let hc = HotColdBackend::new(cold, hot);
    let id = any_id();
    let r = hc.read_full(FileType::Pack, &id);
    let ok = r.is_ok();
    core::mem::forget(r);
    assert!(ok, "read_full(Pack, id) of a data pack that exists (cold store) must succeed");
}

/// U16.3 full reads of hot-eligible-by-type files (everything but packs) come from the hot store
#[kani::proof]
#[kani::stub(RusticError::new, es::new_stub)]
fn c16_read_full_non_pack() {
    let (hc, log, _fc, fh) = setup();
    let tpe = any_filetype();
    kani::assume(tpe != FileType::Pack);
    let id = any_id();
    let r = hc.read_full(tpe, &id);
    let ok = r.is_ok();
    core::mem::forget(r);
    assert!(log.len() == 1 && log.get(0) == event(1, OP_READ_FULL, tpe_code(tpe), false, id_tag(&id), 0, 0, 0, 0));
    assert!(ok == !fails(fh, OP_READ_FULL));
    kani::cover!(ok);
}
