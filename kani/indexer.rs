//! cfg(kani) child module of `crates/core/src/index/indexer.rs` (harnesses to be added)
