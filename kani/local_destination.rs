//! cfg(kani) child module of `crates/core/src/backend/local_destination.rs` (harnesses to be added)
