//! cfg(kani) child module of `backend.rs`: a recording mock `WriteBackend`.
//! Every call appends one event to a log shared by all mocks of a harness (so the order of
//! operations across the hot and the cold store is observable), and fails iff the corresponding bit
//! of the mock's symbolic `fail` mask is set.  No heap allocation apart from the `Arc`.
use super::*;
use crate::error::{ErrorKind, RusticError};
use std::sync::atomic::{AtomicU64, AtomicUsize, Ordering};

pub(crate) const OP_LIST: u64 = 1;
pub(crate) const OP_READ_FULL: u64 = 2;
pub(crate) const OP_READ_PARTIAL: u64 = 3;
pub(crate) const OP_WARM_UP: u64 = 4;
pub(crate) const OP_CREATE: u64 = 5;
pub(crate) const OP_WRITE: u64 = 6;
pub(crate) const OP_REMOVE: u64 = 7;
pub(crate) const OP_NEEDS_WARM_UP: u64 = 8;
pub(crate) const OP_LOCATION: u64 = 9;
pub(crate) const OP_WARMUP_PATH: u64 = 10;

pub(crate) const MAX_EVENTS: usize = 4;

#[derive(Debug)]
pub(crate) struct Log {
    pub(crate) n: AtomicUsize,
    pub(crate) ev: [AtomicU64; MAX_EVENTS],
}

impl Log {
    pub(crate) fn new() -> Self {
        Self {
            n: AtomicUsize::new(0),
            ev: [AtomicU64::new(0), AtomicU64::new(0), AtomicU64::new(0), AtomicU64::new(0)],
        }
    }
    pub(crate) fn push(&self, e: u64) {
        let k = self.n.load(Ordering::SeqCst);
        assert!(k < MAX_EVENTS, "mock log overflow: more backend calls than any contract allows");
        self.ev[k].store(e, Ordering::SeqCst);
        self.n.store(k + 1, Ordering::SeqCst);
    }
    pub(crate) fn len(&self) -> usize {
        self.n.load(Ordering::SeqCst)
    }
    pub(crate) fn get(&self, k: usize) -> u64 {
        self.ev[k].load(Ordering::SeqCst)
    }
}

pub(crate) fn tpe_code(t: FileType) -> u64 {
    match t {
        FileType::Config => 0,
        FileType::Index => 1,
        FileType::Key => 2,
        FileType::Snapshot => 3,
        FileType::Pack => 4,
    }
}

pub(crate) fn id_tag(id: &Id) -> u8 {
    (id.as_u32() & 0xff) as u8
}

pub(crate) fn any_filetype() -> FileType {
    let k: u8 = kani::any();
    kani::assume(k < 5);
    match k {
        0 => FileType::Config,
        1 => FileType::Index,
        2 => FileType::Key,
        3 => FileType::Snapshot,
        _ => FileType::Pack,
    }
}

/// event = store | op | type | cacheable | first id byte | content length | first content byte | offset | length
pub(crate) fn event(store: u64, op: u64, tpe: u64, cacheable: bool, id0: u8, clen: u64, c0: u8, off: u64, len: u64) -> u64 {
    (store & 1)
        | (op & 15) << 1
        | (tpe & 7) << 5
        | u64::from(cacheable) << 8
        | u64::from(id0) << 9
        | (clen & 0xff) << 17
        | u64::from(c0) << 25
        | (off & 0xff) << 33
        | (len & 0xff) << 41
}

#[derive(Debug)]
pub(crate) struct MockBackend {
    /// 0 = cold / only store, 1 = hot store
    pub(crate) store: u64,
    /// bit k set => operation with code k fails
    pub(crate) fail: u16,
    pub(crate) needs_warm_up: bool,
    pub(crate) log: Arc<Log>,
}

impl MockBackend {
    pub(crate) fn new(store: u64, fail: u16, log: Arc<Log>) -> Self {
        Self { store, fail, needs_warm_up: false, log }
    }
    pub(crate) fn fails(&self, op: u64) -> bool {
        self.fail & (1 << op) != 0
    }
    fn res(&self, op: u64) -> RusticResult<()> {
        if self.fails(op) {
            Err(RusticError::new(ErrorKind::Backend, "mock failure"))
        } else {
            Ok(())
        }
    }
}

static STORE_TAG: [[u8; 1]; 2] = [[0xc0], [0x07]];

impl ReadBackend for MockBackend {
    fn location(&self) -> String {
        self.log.push(event(self.store, OP_LOCATION, 0, false, 0, 0, 0, 0, 0));
        String::new()
    }
    fn list_with_size(&self, tpe: FileType) -> RusticResult<Vec<(Id, u32)>> {
        self.log.push(event(self.store, OP_LIST, tpe_code(tpe), false, 0, 0, 0, 0, 0));
        self.res(OP_LIST)?;
        Ok(Vec::new())
    }
    fn read_full(&self, tpe: FileType, id: &Id) -> RusticResult<Bytes> {
        self.log.push(event(self.store, OP_READ_FULL, tpe_code(tpe), false, id_tag(id), 0, 0, 0, 0));
        self.res(OP_READ_FULL)?;
        Ok(Bytes::from_static(&STORE_TAG[self.store as usize]))
    }
    fn read_partial(&self, tpe: FileType, id: &Id, cacheable: bool, offset: u32, length: u32) -> RusticResult<Bytes> {
        self.log.push(event(self.store, OP_READ_PARTIAL, tpe_code(tpe), cacheable, id_tag(id), 0, 0, u64::from(offset), u64::from(length)));
        self.res(OP_READ_PARTIAL)?;
        Ok(Bytes::from_static(&STORE_TAG[self.store as usize]))
    }
    fn needs_warm_up(&self) -> bool {
        self.log.push(event(self.store, OP_NEEDS_WARM_UP, 0, false, 0, 0, 0, 0, 0));
        self.needs_warm_up
    }
    fn warm_up(&self, tpe: FileType, id: &Id) -> RusticResult<()> {
        self.log.push(event(self.store, OP_WARM_UP, tpe_code(tpe), false, id_tag(id), 0, 0, 0, 0));
        self.res(OP_WARM_UP)
    }
    fn warmup_path(&self, tpe: FileType, id: &Id) -> String {
        self.log.push(event(self.store, OP_WARMUP_PATH, tpe_code(tpe), false, id_tag(id), 0, 0, 0, 0));
        String::new()
    }
}

impl WriteBackend for MockBackend {
    fn create(&self) -> RusticResult<()> {
        self.log.push(event(self.store, OP_CREATE, 0, false, 0, 0, 0, 0, 0));
        self.res(OP_CREATE)
    }
    fn write_bytes(&self, tpe: FileType, id: &Id, cacheable: bool, content: BytesList) -> RusticResult<()> {
        let clen = content.size() as u64;
        let c0 = content.slice().first().and_then(|b| b.first().copied()).unwrap_or(0);
        core::mem::forget(content);
        self.log.push(event(self.store, OP_WRITE, tpe_code(tpe), cacheable, id_tag(id), clen, c0, 0, 0));
        self.res(OP_WRITE)
    }
    fn remove(&self, tpe: FileType, id: &Id, cacheable: bool) -> RusticResult<()> {
        self.log.push(event(self.store, OP_REMOVE, tpe_code(tpe), cacheable, id_tag(id), 0, 0, 0, 0));
        self.res(OP_REMOVE)
    }
}

// ---------------------------------------------------------------------------------------------
// A recording mock that implements the full decrypt stack (DecryptFullBackend) on top of the same
// event log; used as the inner backend of DryRunBackend.
use crate::backend::decrypt::{DecryptReadBackend, DecryptWriteBackend};
use crate::crypto::CryptoKey;

pub(crate) const OP_HASH_WRITE_FULL: u64 = 11;
pub(crate) const OP_SET_ZSTD: u64 = 12;
pub(crate) const OP_SET_EXTRA_VERIFY: u64 = 13;
pub(crate) const OP_DECRYPT: u64 = 14;
pub(crate) const OP_PROCESS_DATA: u64 = 15;

/// A key whose "encryption" is the identity framed by one marker byte (0xEE) in front; decryption
/// fails unless the marker is present.  Stands for an arbitrary AEAD in framing proofs.
#[derive(Clone, Copy, Debug)]
pub(crate) struct MockKey {
    pub(crate) fail_encrypt: bool,
    pub(crate) fail_decrypt: bool,
}

impl CryptoKey for MockKey {
    fn decrypt_data(&self, data: &[u8]) -> RusticResult<Vec<u8>> {
        if self.fail_decrypt || data.first() != Some(&0xEE) {
            return Err(RusticError::new(ErrorKind::Cryptography, "mock: MAC mismatch"));
        }
        Ok(data[1..].to_vec())
    }
    fn encrypt_data(&self, data: &[u8]) -> RusticResult<Vec<u8>> {
        if self.fail_encrypt {
            return Err(RusticError::new(ErrorKind::Cryptography, "mock: encrypt failed"));
        }
        let mut v = Vec::with_capacity(data.len() + 1);
        v.push(0xEE);
        v.extend_from_slice(data);
        Ok(v)
    }
}

#[derive(Clone, Debug)]
pub(crate) struct MockDecryptFull {
    pub(crate) fail: u16,
    pub(crate) key: MockKey,
    pub(crate) log: Arc<Log>,
}

impl MockDecryptFull {
    pub(crate) fn new(fail: u16, log: Arc<Log>) -> Self {
        Self { fail, key: MockKey { fail_encrypt: false, fail_decrypt: false }, log }
    }
    pub(crate) fn fails(&self, op: u64) -> bool {
        self.fail & (1 << op) != 0
    }
    fn res(&self, op: u64) -> RusticResult<()> {
        if self.fails(op) {
            Err(RusticError::new(ErrorKind::Backend, "mock failure"))
        } else {
            Ok(())
        }
    }
}

impl ReadBackend for MockDecryptFull {
    fn location(&self) -> String {
        self.log.push(event(0, OP_LOCATION, 0, false, 0, 0, 0, 0, 0));
        String::new()
    }
    fn list_with_size(&self, tpe: FileType) -> RusticResult<Vec<(Id, u32)>> {
        self.log.push(event(0, OP_LIST, tpe_code(tpe), false, 0, 0, 0, 0, 0));
        self.res(OP_LIST)?;
        Ok(Vec::new())
    }
    fn read_full(&self, tpe: FileType, id: &Id) -> RusticResult<Bytes> {
        self.log.push(event(0, OP_READ_FULL, tpe_code(tpe), false, id_tag(id), 0, 0, 0, 0));
        self.res(OP_READ_FULL)?;
        Ok(Bytes::from_static(&STORE_TAG[0]))
    }
    fn read_partial(&self, tpe: FileType, id: &Id, cacheable: bool, offset: u32, length: u32) -> RusticResult<Bytes> {
        self.log.push(event(0, OP_READ_PARTIAL, tpe_code(tpe), cacheable, id_tag(id), 0, 0, u64::from(offset), u64::from(length)));
        self.res(OP_READ_PARTIAL)?;
        Ok(Bytes::from_static(&STORE_TAG[0]))
    }
    fn needs_warm_up(&self) -> bool {
        self.log.push(event(0, OP_NEEDS_WARM_UP, 0, false, 0, 0, 0, 0, 0));
        false
    }
    fn warmup_path(&self, tpe: FileType, id: &Id) -> String {
        self.log.push(event(0, OP_WARMUP_PATH, tpe_code(tpe), false, id_tag(id), 0, 0, 0, 0));
        String::new()
    }
}

impl WriteBackend for MockDecryptFull {
    fn create(&self) -> RusticResult<()> {
        self.log.push(event(0, OP_CREATE, 0, false, 0, 0, 0, 0, 0));
        self.res(OP_CREATE)
    }
    fn write_bytes(&self, tpe: FileType, id: &Id, cacheable: bool, content: BytesList) -> RusticResult<()> {
        let clen = content.size() as u64;
        let c0 = content.slice().first().and_then(|b| b.first().copied()).unwrap_or(0);
        core::mem::forget(content);
        self.log.push(event(0, OP_WRITE, tpe_code(tpe), cacheable, id_tag(id), clen, c0, 0, 0));
        self.res(OP_WRITE)
    }
    fn remove(&self, tpe: FileType, id: &Id, cacheable: bool) -> RusticResult<()> {
        self.log.push(event(0, OP_REMOVE, tpe_code(tpe), cacheable, id_tag(id), 0, 0, 0, 0));
        self.res(OP_REMOVE)
    }
}

impl DecryptReadBackend for MockDecryptFull {
    fn decrypt(&self, data: &[u8]) -> RusticResult<Vec<u8>> {
        self.log.push(event(0, OP_DECRYPT, 0, false, 0, data.len() as u64, data.first().copied().unwrap_or(0), 0, 0));
        self.res(OP_DECRYPT)?;
        Ok(Vec::new())
    }
    fn read_encrypted_full(&self, tpe: FileType, id: &Id) -> RusticResult<Bytes> {
        self.read_full(tpe, id)
    }
}

impl DecryptWriteBackend for MockDecryptFull {
    type Key = MockKey;
    fn key(&self) -> &Self::Key {
        &self.key
    }
    fn hash_write_full(&self, tpe: FileType, data: &[u8]) -> RusticResult<Id> {
        self.log.push(event(0, OP_HASH_WRITE_FULL, tpe_code(tpe), false, 0, data.len() as u64, data.first().copied().unwrap_or(0), 0, 0));
        self.res(OP_HASH_WRITE_FULL)?;
        let mut b = [0u8; 32];
        b[0] = 0xAB;
        Ok(Id::new(b))
    }
    fn process_data(&self, data: &[u8]) -> RusticResult<(Vec<u8>, u32, Option<std::num::NonZeroU32>)> {
        self.log.push(event(0, OP_PROCESS_DATA, 0, false, 0, data.len() as u64, data.first().copied().unwrap_or(0), 0, 0));
        self.res(OP_PROCESS_DATA)?;
        Ok((Vec::new(), 0, None))
    }
    fn set_zstd(&mut self, zstd: Option<i32>) {
        self.log.push(event(0, OP_SET_ZSTD, 0, zstd.is_some(), 0, 0, 0, 0, 0));
    }
    fn set_extra_verify(&mut self, extra_check: bool) {
        self.log.push(event(0, OP_SET_EXTRA_VERIFY, 0, extra_check, 0, 0, 0, 0, 0));
    }
}
