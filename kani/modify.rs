//! cfg(kani) child module of `crates/core/src/blob/tree/modify.rs` (harnesses to be added)
