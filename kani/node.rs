//! cfg(kani) child module of `crates/core/src/backend/node.rs` (harnesses to be added)
