//! cfg(kani) child module of `crates/core/src/blob/packer.rs` (harnesses to be added)
