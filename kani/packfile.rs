//! C08 bounded harnesses: cfg(kani) child module of `repofile/packfile.rs`.
//! The binary header encoding (binrw derive) and the iterator folds `PackHeaderRef::{size, pack_size}` are
//! outside Verus' reach; here they are checked on the REAL code for blob lists of length <= 2 with fully
//! symbolic ids (first byte), lengths, compressed/uncompressed variants and types.  BOUNDED stand-in.
use super::*;
use crate::blob::BlobId;

fn any_blob(offset: u32) -> IndexBlob {
    let mut a = [0u8; 32];
    a[0] = kani::any();
    a[31] = kani::any();
    let length: u32 = kani::any();
    let ul: u32 = kani::any();
    let compressed: bool = kani::any();
    IndexBlob {
        id: BlobId::from(Id::new(a)),
        tpe: if kani::any() { BlobType::Tree } else { BlobType::Data },
        location: BlobLocation { offset, length, uncompressed_length: if compressed { NonZeroU32::new(ul) } else { None } },
    }
}

fn entry_len(b: &IndexBlob) -> u32 {
    if b.location.uncompressed_length.is_some() { 41 } else { 37 }
}

/// sizes computed by the iterator folds: size() == 32 + sum of entry lengths (37 uncompressed / 41
/// compressed, MIXED within one pack), pack_size() == size() + 4 + sum of blob lengths.
#[kani::proof]
#[kani::unwind(4)]
fn c08_bounded_header_sizes() {
    let b0 = any_blob(0);
    kani::assume(b0.location.length < 1_000_000);
    let b1 = any_blob(b0.location.length);
    kani::assume(b1.location.length < 1_000_000);
    let blobs = [b0, b1];
    let two: bool = kani::any();
    let hr = PackHeaderRef(if two { &blobs[..] } else { &blobs[..1] });
    let expect_hdr = entry_len(&b0) + if two { entry_len(&b1) } else { 0 };
    assert!(hr.size() == expect_hdr + 32, "size() = one 37/41 byte entry per blob + crypto overhead");
    let data = b0.location.length + if two { b1.location.length } else { 0 };
    assert!(hr.pack_size() == hr.size() + 4 + data, "pack_size() = blobs + encrypted header + length field");
    kani::cover!(two && b0.location.uncompressed_length.is_some() != b1.location.uncompressed_length.is_some());
}
