//! cfg(kani) child module of `crates/core/src/repofile/packfile.rs` (harnesses to be added)
