//! C11 harnesses: cfg(kani) child module of `archiver/parent.rs`.
//! BOUNDED in structure (one parent tree with one node named "a", file/dir node types), COMPLETE in
//! the metadata that decides reuse: size, mtime, ctime (each present or not), inode, the two ignore flags.
use super::*;
use crate::backend::node::{Metadata, NodeType};
use crate::backend::verif_mock::{Log, MockDecryptFull};
use crate::blob::{BlobId, BlobType, DataId};
use crate::id::Id;
use crate::index::{IndexEntry, ReadIndex};
use jiff::Timestamp;
use std::path::PathBuf;
use std::sync::Arc;

/// `Node::name()` un-escapes the stored name (string search + parser); the harness names contain no
/// backslash, for which `name()` is the identity -- stubbed to keep CBMC away from `str::contains`.
fn plain_name(n: &Node) -> std::borrow::Cow<'_, OsStr> {
    std::borrow::Cow::Borrowed(OsStr::new(&n.name))
}

fn any_ts() -> Option<Timestamp> {
    let present: bool = kani::any();
    let s: i64 = kani::any();
    kani::assume(s >= 0 && s < 4);
    if present { Some(Timestamp::from_second(s).unwrap()) } else { None }
}

fn any_type() -> NodeType {
    if kani::any() { NodeType::File } else { NodeType::Dir }
}

fn node(name: &str, node_type: NodeType, size: u64, mtime: Option<Timestamp>, ctime: Option<Timestamp>, inode: u64, content: Option<Vec<DataId>>) -> Node {
    Node {
        name: name.to_string(),
        node_type,
        meta: Metadata {
            mode: None, mtime, atime: None, ctime, uid: None, gid: None, user: None, group: None,
            inode, device_id: 0, size, links: 0, extended_attributes: Vec::new(),
        },
        content,
        subtree: None,
    }
}

fn did(b: u8) -> DataId {
    let mut a = [0u8; 32];
    a[0] = b;
    DataId::from(Id::new(a))
}

/// U11.1: a parent node is accepted as "unchanged" only if type, size and mtime agree (and ctime,
/// unless ignored or unknown on one side); a name without parent node is NotFound.
#[kani::proof]
#[kani::unwind(6)]
#[kani::stub(crate::backend::node::Node::name, plain_name)]
fn c11_is_parent_requires_equal_metadata() {
    let (pt, psize, pmtime, pctime, pinode) = (any_type(), kani::any::<u64>(), any_ts(), any_ts(), kani::any::<u64>());
    let (nt, nsize, nmtime, nctime, ninode) = (any_type(), kani::any::<u64>(), any_ts(), any_ts(), kani::any::<u64>());
    let ignore_ctime: bool = kani::any();
    let ignore_inode: bool = kani::any();
    let tree = Tree { nodes: vec![node("a", pt.clone(), psize, pmtime, pctime, pinode, None)] };
    let mut parent = Parent { tree_ids: Vec::new(), trees: vec![(tree, 0)], stack: Vec::new(), ignore_ctime, ignore_inode };
    let n = node("a", nt.clone(), nsize, nmtime, nctime, ninode, None);

    let same_core = pt == nt && psize == nsize && pmtime == nmtime;
    let ctime_ok = ignore_ctime || pctime.is_none() || nctime.is_none() || pctime == nctime;
    let matched = matches!(parent.is_parent(&n, OsStr::new("a")), ParentResult::Matched(_));
    if matched {
        assert!(same_core, "reuse requires identical type, size and modification time");
        assert!(ctime_ok, "reuse requires an identical change time unless ignored / unknown");
    }
    // the decisive direction for C11: a file whose size or mtime changed is never taken from the parent
    if psize != nsize || pmtime != nmtime || pt != nt {
        assert!(!matched);
    }
    kani::cover!(matched);
    kani::cover!(!matched && same_core);
    core::mem::forget(parent);
    core::mem::forget(n);
}

#[kani::proof]
#[kani::unwind(6)]
#[kani::stub(crate::backend::node::Node::name, plain_name)]
fn c11_unknown_name_is_not_found() {
    let tree = Tree { nodes: vec![node("a", NodeType::File, kani::any(), any_ts(), any_ts(), kani::any(), None)] };
    let mut parent = Parent { tree_ids: Vec::new(), trees: vec![(tree, 0)], stack: Vec::new(), ignore_ctime: kani::any(), ignore_inode: kani::any() };
    let n = node("b", NodeType::File, kani::any(), any_ts(), any_ts(), kani::any(), None);
    let r = parent.is_parent(&n, OsStr::new("b"));
    assert!(matches!(r, ParentResult::NotFound));
    core::mem::forget(parent);
    core::mem::forget(n);
}

#[derive(Clone, Debug)]
struct MockIndex {
    has1: bool,
    has2: bool,
}
impl ReadIndex for MockIndex {
    fn get_id(&self, _tpe: BlobType, _id: &BlobId) -> Option<IndexEntry> {
        None
    }
    fn total_size(&self, _tpe: BlobType) -> u64 {
        0
    }
    fn has(&self, tpe: BlobType, id: &BlobId) -> bool {
        tpe == BlobType::Data && ((*id == BlobId::from(did(1)) && self.has1) || (*id == BlobId::from(did(2)) && self.has2))
    }
}
impl ReadGlobalIndex for MockIndex {}

/// U11.2: content is taken over from a matching parent node only if ALL its chunks are still in the
/// index; otherwise the file is reported NotFound (= read again).
#[kani::proof]
#[kani::unwind(34)]
#[kani::stub(crate::backend::node::Node::name, plain_name)]
fn c11_reuse_only_if_all_chunks_indexed() {
    let size: u64 = kani::any();
    let mtime = any_ts();
    // metadata that is_parent does NOT compare differs freely between the parent's node and the current source
    let (p_mode, c_mode): (Option<u32>, Option<u32>) = (kani::any(), kani::any());
    let (p_uid, c_uid): (Option<u32>, Option<u32>) = (kani::any(), kani::any());
    let (p_ctime, c_ctime) = (any_ts(), any_ts());
    let (p_links, c_links): (u64, u64) = (kani::any(), kani::any());
    let mut p = node("a", NodeType::File, size, mtime, p_ctime, 0, Some(vec![did(1), did(2)]));
    p.meta.mode = p_mode;
    p.meta.uid = p_uid;
    p.meta.links = p_links;
    let tree = Tree { nodes: vec![p] };
    let mut parent = Parent { tree_ids: Vec::new(), trees: vec![(tree, 0)], stack: Vec::new(), ignore_ctime: true, ignore_inode: false };
    let mut n = node("a", NodeType::File, size, mtime, c_ctime, 0, None);
    n.meta.mode = c_mode;
    n.meta.uid = c_uid;
    n.meta.links = c_links;
    let index = MockIndex { has1: kani::any(), has2: kani::any() };
    let be = MockDecryptFull::new(0, Arc::new(Log::new()));
    let r = parent.process(&be, &index, TreeType::<(), OsString>::Other((PathBuf::new(), n, ())));
    match r {
        Ok(TreeType::Other((_, out, ((), res)))) => {
            let reused = matches!(res, ParentResult::Matched(()));
            assert!(reused == (index.has1 && index.has2), "reuse iff every chunk of the parent file is still indexed");
            // "same tree as a backup that reads every file": whatever is reused, the node carries the CURRENT metadata
            assert!(out.meta.mode == c_mode && out.meta.uid == c_uid && out.meta.links == c_links && out.meta.ctime == c_ctime
                    && out.meta.size == size && out.meta.mtime == mtime && out.node_type == NodeType::File,
                    "only the content list is taken from the parent; every metadata field is the current source's");
            if reused {
                assert!(out.content.as_ref().map(Vec::len) == Some(2));
            } else {
                assert!(matches!(res, ParentResult::NotFound) && out.content.is_none(), "missing chunk: the file is read again");
            }
            core::mem::forget(out);
        }
        _ => assert!(false),
    }
    kani::cover!(index.has1 && index.has2);
    kani::cover!(index.has1 && !index.has2);
    kani::cover!(index.has1 && index.has2 && p_mode != c_mode);
    core::mem::forget(parent);
}
