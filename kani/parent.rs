//! cfg(kani) child module of `crates/core/src/archiver/parent.rs` (harnesses to be added)
