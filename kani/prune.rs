//! cfg(kani) child module of `crates/core/src/commands/prune.rs` (harnesses to be added)
