//! C02 harnesses: cfg(kani) child module of `commands/prune.rs`.
use super::*;
use crate::id::Id;
use crate::blob::BlobLocation;

fn bid(b: u8) -> BlobId {
    let mut a = [0u8; 32];
    a[0] = b;
    BlobId::from(Id::new(a))
}
fn pid(b: u8) -> PackId {
    let mut a = [0u8; 32];
    a[0] = b;
    PackId::from(Id::new(a))
}
fn blob(id: u8, tpe: BlobType, offset: u32, length: u32) -> IndexBlob {
    IndexBlob { id: bid(id), tpe, location: BlobLocation { offset, length, uncompressed_length: None } }
}
/// `Zoned::saturating_sub(span)` for the ZERO span used by the decision-table harness (jiff's calendar
/// arithmetic is far too heavy for CBMC); exact for Span::default().
fn zoned_sub_zero<A: Into<jiff::ZonedArithmetic>>(z: &Zoned, _d: A) -> Zoned {
    z.clone()
}
fn no_debug_stats(_s: &mut DebugStats, _pi: &PackInfo, _todo: PackToDo, _status: EnumSet<PackStatus>) {}

/// U02.1 `PackInfo::from_pack` -- BOUNDED: one pack with 3 blobs (ids from {1,2}, so duplicates inside the
/// pack occur), `used_ids` with up to 2 keys and symbolic reference counts 0..=3.
/// Contract (from the property): blobs are partitioned into used/unused with sizes adding up; an id whose
/// last outstanding reference is met in this pack makes the pack used; after the call no id that occurs
/// in a pack counted as used here is still outstanding (so no later pack is the "only" holder wrongly).
#[kani::proof]
#[kani::unwind(34)]
fn c02_bounded_from_pack_accounting() {
    let ids: [u8; 3] = [kani::any(), kani::any(), kani::any()];
    kani::assume(ids[0] >= 1 && ids[0] <= 2 && ids[1] >= 1 && ids[1] <= 2 && ids[2] >= 1 && ids[2] <= 2);
    let lens: [u32; 3] = [kani::any(), kani::any(), kani::any()];
    kani::assume(lens[0] < 1000 && lens[1] < 1000 && lens[2] < 1000);
    let pack = PrunePack {
        id: pid(9),
        blob_type: BlobType::Data,
        size: 0,
        delete_mark: false,
        to_do: PackToDo::Undecided,
        time: None,
        blobs: vec![blob(ids[0], BlobType::Data, 0, lens[0]), blob(ids[1], BlobType::Data, 0, lens[1]), blob(ids[2], BlobType::Data, 0, lens[2])],
    };
    // reference counts as find_used_blobs leaves them: number of index entries still to be seen
    let c1: u8 = kani::any();
    let c2: u8 = kani::any();
    let has1: bool = kani::any();
    let has2: bool = kani::any();
    kani::assume(c1 <= 3 && c2 <= 3);
    let mut used = BTreeMap::new();
    if has1 { let _ = used.insert((BlobType::Data, bid(1)), c1); }
    if has2 { let _ = used.insert((BlobType::Data, bid(2)), c2); }
    // a TREE blob that shares id 1 with the data blob: a different blob (identity = type + id); this data pack
    // neither holds nor settles it
    let has_t: bool = kani::any();
    let ct: u8 = kani::any();
    if has_t { let _ = used.insert((BlobType::Tree, bid(1)), ct); }

    let pi = PackInfo::from_pack(&pack, &mut used);

    // every blob is counted exactly once, sizes add up
    assert!(u32::from(pi.used_blobs) + u32::from(pi.unused_blobs) == 3);
    assert!(pi.used_size + pi.unused_size == lens[0] + lens[1] + lens[2]);
    // occurrences of id k in this pack
    let n1 = (ids[0] == 1) as u8 + (ids[1] == 1) as u8 + (ids[2] == 1) as u8;
    let n2 = 3 - n1;
    // "last copy lives here": the outstanding count of a referenced id is exhausted by this pack
    let last1 = has1 && c1 >= 1 && n1 >= c1;
    let last2 = has2 && c2 >= 1 && n2 >= c2;
    if last1 || last2 {
        assert!(pi.used_blobs >= 1, "SAFETY: a pack holding the last outstanding copy of a referenced blob is used");
    }
    // ids that are not referenced at all never make the pack used
    let ref1 = has1 && c1 >= 1;
    let ref2 = has2 && c2 >= 1;
    if !(ref1 && n1 > 0) && !(ref2 && n2 > 0) {
        assert!(pi.used_blobs == 0);
    }
    // once the pack is used, every referenced id occurring in it is settled (count 0) for later packs
    if pi.used_blobs >= 1 {
        if n1 > 0 { assert!(used.get(&(BlobType::Data, bid(1))).copied().unwrap_or(0) == 0); }
        if n2 > 0 { assert!(used.get(&(BlobType::Data, bid(2))).copied().unwrap_or(0) == 0); }
    }
    // the outstanding count of the tree blob with the same id is untouched by a data pack
    assert!(used.get(&(BlobType::Tree, bid(1))).copied() == if has_t { Some(ct) } else { None }, "a blob of the other type sharing the id is a different blob");
    kani::cover!(pi.used_blobs == 3);
    kani::cover!(pi.used_blobs == 0 && has1 && c1 == 3 && n1 == 2);
    core::mem::forget(used);
    core::mem::forget(pack);
}

/// U02.2 decision table of `PrunePlan::decide_packs` for ONE pack holding ONE blob -- complete over: marked
/// or not, blob referenced or not, pack time None / before / after the limit, all boolean options.
/// keep_pack = keep_delete = 0 (Zoned::saturating_sub stubbed by the identity, exact for the zero span) and "now" = Unix epoch.
#[kani::proof]
#[kani::unwind(34)]
#[kani::stub(DebugStats::add, no_debug_stats)]
#[kani::stub(jiff::Zoned::saturating_sub, zoned_sub_zero)]
fn c02_decision_table_single_pack() {
    let marked: bool = kani::any();
    let referenced: bool = kani::any();
    let tpe = if kani::any() { BlobType::Tree } else { BlobType::Data };
    let t: i64 = kani::any();
    kani::assume(t >= -100 && t <= 100);
    let has_time: bool = kani::any();
    let time = if has_time { Some(Timestamp::from_second(t).unwrap()) } else { None };
    let size: u32 = kani::any();
    let pack = PrunePack {
        id: pid(9), blob_type: tpe, size, delete_mark: marked, to_do: PackToDo::Undecided, time,
        blobs: vec![blob(1, tpe, 0, 100)],
    };
    let mut used_ids = BTreeMap::new();
    if referenced { let _ = used_ids.insert((tpe, bid(1)), 1u8); }
    let now = Zoned::default();
    let mut plan = PrunePlan {
        time: now,
        used_ids,
        existing_packs: BTreeMap::new(),
        repack_candidates: Vec::new(),
        index_files: vec![PruneIndex { id: IndexId::default(), modified: false, packs: vec![pack] }],
        stats: PruneStats::default(),
    };
    let sizer = BlobTypeMap::<PackSizer>::from_fn(|_| PackSizer::fixed(kani::any()));
    let repack_cacheable_only: bool = kani::any();
    let repack_uncompressed: bool = kani::any();
    let repack_all: bool = kani::any();
    let r = plan.decide_packs(Span::default(), Span::default(), repack_cacheable_only, repack_uncompressed, repack_all, &sizer);
    assert!(r.is_ok());
    core::mem::forget(r);
    let todo = plan.index_files[0].packs[0].to_do;
    let candidate = plan.repack_candidates.len() == 1;

    if referenced {
        // a pack holding a blob some snapshot still needs is never scheduled for removal
        assert!(todo != PackToDo::MarkDelete && todo != PackToDo::Delete && todo != PackToDo::KeepMarked && todo != PackToDo::KeepMarkedAndCorrect);
        if marked {
            assert!(todo == PackToDo::Recover, "marked pack that is needed again is recovered");
        } else {
            assert!(todo == PackToDo::Keep || (todo == PackToDo::Undecided && candidate));
        }
    } else if marked {
        // unreferenced and already marked: deleted only once the keep-delete time has passed
        match (has_time, todo) {
            (false, x) => assert!(x == PackToDo::KeepMarkedAndCorrect),
            (true, PackToDo::Delete) => assert!(t <= 0),
            (true, x) => assert!(x == PackToDo::KeepMarked && t > 0),
        }
    } else {
        // unreferenced, not marked: first phase only marks (never deletes), young packs are kept
        let too_young = has_time && t > 0;
        assert!(todo == if too_young { PackToDo::Keep } else { PackToDo::MarkDelete });
        assert!(!candidate);
    }
    kani::cover!(todo == PackToDo::Recover);
    kani::cover!(todo == PackToDo::Delete);
    kani::cover!(todo == PackToDo::MarkDelete);
    kani::cover!(candidate);
    core::mem::forget(plan);
}
