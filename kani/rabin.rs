//! cfg(kani) child module of `crates/core/src/chunker/rabin.rs` (harnesses to be added)
