//! cfg(kani) child module of `crates/core/src/repository.rs` (harnesses to be added)
