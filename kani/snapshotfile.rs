//! cfg(kani) child module of `crates/core/src/repofile/snapshotfile.rs` (harnesses to be added)
