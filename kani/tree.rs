//! cfg(kani) child module of `crates/core/src/blob/tree.rs` (harnesses to be added)
