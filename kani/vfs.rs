//! cfg(kani) child module of `crates/core/src/vfs.rs` (harnesses to be added)
