"""Property-breaking one-line edits used by the mutation self-test (tools/mutate.py).
Each must compile; each must flip the named check to VIOLATION."""
R = "crates/core/src/chunker/rabin.rs"
FX = "crates/core/src/chunker/fixed_size.rs"
FG = "crates/core/src/commands/forget.rs"
CO = "crates/core/src/commands/config.rs"
PK = "crates/core/src/blob/packer.rs"
PR = "crates/core/src/commands/prune.rs"
MUTATIONS = [
    dict(id="c06_drop_max_break", prop="C06", file=R, old="            if vec.len() >= self.max_size {\n                break;\n            }\n", new=""),
    dict(id="c06_max_gt", prop="C06", file=R, old="if vec.len() >= self.max_size {", new="if vec.len() > self.max_size {"),
    dict(id="c06_mask_neq", prop="C06", file=R, old="if (self.rabin.hash & self.split_mask) == 0 {", new="if (self.rabin.hash & self.split_mask) != 0 {"),
    dict(id="c06_lose_byte", prop="C06", file=R, old="            vec.push(byte);\n            self.pos += 1;", new="            vec.push(byte);\n            self.pos += 2;"),
    dict(id="c06_buffer_take_all", prop="C06", file=R, old="let open_buf_len = (self.buf.len() - self.pos).min(min_size);", new="let open_buf_len = self.buf.len() - self.pos;"),
    dict(id="c06_skip_slide", prop="C06", file=R, old="            self.rabin.slide(byte);\n", new="            if byte != 0 { self.rabin.slide(byte); }\n"),
    dict(id="c06_fixed_truncate", prop="C06", file=FX, old="            vec.truncate(size);", new="            vec.truncate(size / 2);"),
    dict(id="c06_poly_low_bit", prop="C06", file=R, old="poly |= (1 << 53) | 1;", new="poly |= 1 << 53;"),
    dict(id="c06_params_min_gt", prop="C06", file=R, old="if chunk_min_size > chunk_size {", new="if chunk_min_size > chunk_max_size {"),
    dict(id="c09_day_is_month", prop="C09", file=FG, old="equal_year(sn1, sn2) && sn1.time.day_of_year() == sn2.time.day_of_year()", new="equal_year(sn1, sn2) && sn1.time.month() == sn2.time.month()"),
    dict(id="c09_quarter_div", prop="C09", file=FG, old="(sn1.time.month() - 1) / 3 == (sn2.time.month() - 1) / 3", new="sn1.time.month() / 3 == sn2.time.month() / 3"),
    dict(id="c09_hour_no_day", prop="C09", file=FG, old="equal_day(sn1, sn2) && sn1.time.hour() == sn2.time.hour()", new="equal_month(sn1, sn2) && sn1.time.hour() == sn2.time.hour()"),
    dict(id="c18_version_range", prop="C18", file=CO, old="let range = 1..=2;", new="let range = 1..=3;"),
    dict(id="c18_downgrade", prop="C18", file=CO, old="} else if version < config.version {", new="} else if version > config.version {"),
    dict(id="c18_compress_v1", prop="C18", file=CO, old="if config.version == 1 && compression != 0 {", new="if config.version == 1 && compression < 0 {"),
    dict(id="c18_wrong_field", prop="C18", file=CO, old="            config.datapack_growfactor = Some(factor);", new="            config.treepack_growfactor = Some(factor);"),
    dict(id="c18_percent", prop="C18", file=CO, old="if percent < 100 && percent > 0 {", new="if percent < 100 && percent > 1 {"),
    dict(id="c18_isqrt_wrap", prop="C18", file=PK, old=".saturating_mul(self.grow_factor)", new=".wrapping_mul(self.grow_factor)"),
    dict(id="c18_limit_100", prop="C18", file=PR, old="(false, LimitOption::Percentage(p)) if *p >= 100 => u64::MAX,", new="(false, LimitOption::Percentage(p)) if *p > 100 => u64::MAX,"),
    dict(id="c15_prune_guard", prop="C15", file=PR, old="    if repo.config().append_only == Some(true) {\n        return Err(RusticError::new(\n            ErrorKind::AppendOnly,\n            \"Pruning", new="    if repo.config().append_only == Some(false) {\n        return Err(RusticError::new(\n            ErrorKind::AppendOnly,\n            \"Pruning"),
    dict(id="c15_rewrite_guard", prop="C15", file="crates/core/src/commands/rewrite.rs", old="    let config_file = repo.config();\n    if opts.forget && config_file.append_only == Some(true) {\n        return Err(RusticError::new(\n            ErrorKind::AppendOnly,\n            \"Removing snapshots is not allowed in append-only repositories. Please disable append-only mode first, if you know what you are doing. Aborting.\",\n        ));\n    }\n    let mut rewriter", new="    let config_file = repo.config();\n    if opts.forget && opts.dry_run && config_file.append_only == Some(true) {\n        return Err(RusticError::new(\n            ErrorKind::AppendOnly,\n            \"Removing snapshots is not allowed in append-only repositories. Please disable append-only mode first, if you know what you are doing. Aborting.\",\n        ));\n    }\n    let mut rewriter"),
    dict(id="c15_modifier_finalize", prop="C15", file="crates/core/src/blob/tree/modify.rs", old="        if !self.dry_run {\n            _ = self.packer.finalize()?;", new="        {\n            _ = self.packer.finalize()?;"),
    dict(id="c15_modifier_save", prop="C15", file="crates/core/src/blob/tree/modify.rs", old="if !self.index.has_tree(&new_id) && !self.dry_run {", new="if !self.index.has_tree(&new_id) || !self.dry_run {"),
    dict(id="c14_no_guard", prop="C14", file="crates/core/src/blob/tree.rs", old="if !is_plain_name(&name) {", new="if false {"),
    dict(id="c07_untyped_insert", prop="C07", file="crates/core/src/index/indexer.rs", old="_ = indexed.insert((blob.tpe, blob.id));", new="_ = indexed.insert((BlobType::Data, blob.id));"),
    dict(id="c07_has_any_type", prop="C07", file="crates/core/src/index/indexer.rs", old=".is_some_and(|indexed| indexed.contains(&(tpe, *id)))", new=".is_some_and(|indexed| indexed.contains(&(tpe, *id)) || indexed.contains(&(BlobType::Data, *id)))"),
    dict(id="c08_offset_off_by_one", prop="C08", file=PK, old="        let offset = self.size;\n", new="        let offset = self.size.saturating_sub(1);\n"),
    dict(id="c08_no_count", prop="C08", file=PK, old="            .add(*id, self.blob_type, offset, len, uncompressed_length);\n        self.count += 1;", new="            .add(*id, self.blob_type, offset, len, uncompressed_length);"),
    dict(id="c08_wrong_type", prop="C08", file=PK, old="            .add(*id, self.blob_type, offset, len, uncompressed_length);", new="            .add(*id, BlobType::Data, offset, len, uncompressed_length);"),
    dict(id="c08_dup_not_noop", prop="C08", file=PK, old="        if self.has(id) {\n            return Ok(());\n        }\n        self.stats.blobs += 1;", new="        self.stats.blobs += 1;"),
    dict(id="c08_take_before_header", prop="C08", file=PK, old="        self.basic.write_header(data)?;\n\n        // write file to backend\n        let (file, index) = self.basic.take_data();", new="        // write file to backend\n        let (file, index) = self.basic.take_data();\n        self.basic.write_header(data)?;"),
    dict(id="c08_entry_len", prop="C08", file="crates/core/src/repofile/packfile.rs", old="const ENTRY_LEN: u32 = 37;", new="const ENTRY_LEN: u32 = 36;"),
    dict(id="c08_from_file_check", prop="C08", file="crates/core/src/repofile/packfile.rs", old="if header.pack_size() != pack_size {", new="if header.pack_size() > pack_size {"),
    dict(id="c08_into_blob_type", prop="C08", file="crates/core/src/repofile/packfile.rs", old="                id: id.into(),\n                tpe: BlobType::Tree,", new="                id: id.into(),\n                tpe: BlobType::Data,"),
    dict(id="c17_wrong_pack", prop="C17", file="crates/core/src/index/binarysorted.rs", old="self.0[blob_type].packs[be.pack_idx as usize],", new="self.0[blob_type].packs[0],"),
    dict(id="c17_has_ids_inverted", prop="C17", file="crates/core/src/index/binarysorted.rs", old="EntriesVariants::Ids(ids) => ids.binary_search(id).is_ok(),", new="EntriesVariants::Ids(ids) => ids.binary_search(id).is_err(),"),
    dict(id="c17_extend_idx", prop="C17", file="crates/core/src/index/binarysorted.rs", old="                    pack_idx: idx,", new="                    pack_idx: idx + 1,"),
    dict(id="c17_total_size", prop="C17", file="crates/core/src/index/binarysorted.rs", old="self.0[blob_type].total_size += u64::from(size);", new="self.0[BlobType::Data].total_size += u64::from(size);"),
    dict(id="c17_no_sort", prop="C17", file="crates/core/src/index/binarysorted.rs", old="EntriesVariants::Ids(ids) => ids.par_sort_unstable(),", new="EntriesVariants::Ids(_ids) => {}"),
    dict(id="c17_new_mode", prop="C17", file="crates/core/src/index/binarysorted.rs", old="IndexType::DataIds => EntriesVariants::Ids(Vec::new()),", new="IndexType::DataIds => EntriesVariants::None,"),
    dict(id="c02_append_len", prop="C02", file="crates/core/src/blob.rs", old="self.length = other.offset + other.length - self.offset; // read till the end of other", new="self.length = self.length + other.length; // read till the end of other"),
    dict(id="c02_coalesce_overlap", prop="C02", file="crates/core/src/blob.rs", old="&& other.offset >= self.offset + self.length", new="&& other.offset >= self.offset"),
    dict(id="c05_no_pack_hash", prop="C05", file="crates/core/src/commands/check.rs", old="    if id != comp_id {\n        collector.add_error(CheckError::PackHashMismatch", new="    if id != comp_id && data.len() > 1_000_000 {\n        collector.add_error(CheckError::PackHashMismatch"),
    dict(id="c05_no_blob_hash", prop="C05", file="crates/core/src/commands/check.rs", old="        if blob.id != comp_id {\n            collector.add_error(CheckError::PackBlobHashMismatch", new="        if blob.id != comp_id && blob.location.length > 64 {\n            collector.add_error(CheckError::PackBlobHashMismatch"),
    dict(id="c05_header_check_skipped", prop="C05", file="crates/core/src/commands/check.rs", old="    if pack_blobs != blobs {", new="    if pack_blobs.len() != blobs.len() {"),
    dict(id="c05_header_len_check", prop="C05", file="crates/core/src/commands/check.rs", old="    if pack_header_len != header_len {", new="    if pack_header_len > header_len {"),
    dict(id="c05_size_check", prop="C05", file="crates/core/src/commands/check.rs", old="    if data.len() != size as usize {", new="    if data.len() < size as usize {"),
    dict(id="c01_no_offset_reset", prop="C01", file="crates/core/src/vfs.rs", old="            offset = 0;\n            length -= to_copy;", new="            length -= to_copy;"),
    dict(id="c01_copy_len", prop="C01", file="crates/core/src/vfs.rs", old="let to_copy = (data.len() - offset).min(length);", new="let to_copy = data.len().min(length);"),
    dict(id="c01_start_off_by_one", prop="C01", file="crates/core/src/vfs.rs", old="let i = self.0.partition_point(|o| o <= &offset) - 1;", new="let i = self.0.partition_point(|o| o < &offset).saturating_sub(1);"),
    dict(id="c01_skip_blob", prop="C01", file="crates/core/src/vfs.rs", old="            length -= to_copy;\n            i += 1;", new="            length -= to_copy;\n            i += if to_copy == 0 { 2 } else { 1 };"),
    dict(id="c04_static_nonce", prop="C04", file="crates/core/src/crypto/aespoly1305.rs", old="        rng().fill_bytes(&mut nonce);\n", new=""),
    dict(id="c04_short_ok", prop="C04", file="crates/core/src/crypto/aespoly1305.rs", old="if data.len() < 16 {", new="if data.len() < 8 {"),
    dict(id="c04_tag_dropped", prop="C04", file="crates/core/src/crypto/aespoly1305.rs", old="        res.extend_from_slice(&tag);\n", new="        let _ = &tag;\n"),
    dict(id="c02_recover_to_delete", prop="C02", file=PR, old="pack.set_todo(PackToDo::Recover, &pi, status, &mut self.stats);", new="pack.set_todo(PackToDo::Delete, &pi, status, &mut self.stats);"),
    dict(id="c02_delete_ignores_time", prop="C02", file=PR, old="                                Some(_) => pack.set_todo(\n                                    PackToDo::KeepMarked,", new="                                Some(_) => pack.set_todo(\n                                    PackToDo::Delete,"),
    dict(id="c02_young_marked", prop="C02", file=PR, old="                            if too_young {\n                                // keep packs which are too young", new="                            if too_young && pi.unused_blobs > 1 {\n                                // keep packs which are too young"),
    dict(id="c02_partly_used_markdelete", prop="C02", file=PR, old="                            if too_young || keep_uncacheable {\n                                // keep packs which are too young and non-cacheable packs if requested\n                                pack.set_todo(PackToDo::Keep,", new="                            if too_young || keep_uncacheable {\n                                // keep packs which are too young and non-cacheable packs if requested\n                                pack.set_todo(PackToDo::MarkDelete,"),
    dict(id="k16_write_cold_first", engine="kani", prop="C16", file="crates/core/src/backend/hotcold.rs",
         old="        if tpe != FileType::Config && (cacheable || tpe != FileType::Pack) {\n            self.be_hot\n                .write_bytes(tpe, id, cacheable, content.clone())?;\n        }\n        self.be.write_bytes(tpe, id, cacheable, content)",
         new="        self.be.write_bytes(tpe, id, cacheable, content.clone())?;\n        if tpe != FileType::Config && (cacheable || tpe != FileType::Pack) {\n            self.be_hot.write_bytes(tpe, id, cacheable, content)?;\n        }\n        Ok(())"),
    dict(id="k16_data_pack_hot", engine="kani", prop="C16", file="crates/core/src/backend/hotcold.rs",
         old="        if tpe != FileType::Config && (cacheable || tpe != FileType::Pack) {\n            self.be_hot", new="        if tpe != FileType::Config {\n            self.be_hot"),
    dict(id="k15_dry_run_remove_forwards", engine="kani", prop="C15", file="crates/core/src/backend/dry_run.rs",
         old="    fn remove(&self, tpe: FileType, id: &Id, cacheable: bool) -> RusticResult<()> {\n        if self.dry_run {", new="    fn remove(&self, tpe: FileType, id: &Id, cacheable: bool) -> RusticResult<()> {\n        if self.dry_run && tpe != FileType::Key {"),
    dict(id="k09_counter_gt", engine="kani", prop="C09", file=FG, old="                    && *counter != 0\n", new="                    && *counter > 0\n"),
    dict(id="k04_verify_skipped", engine="kani", prop="C04", file="crates/core/src/backend/decrypt.rs",
         old="        let data_encrypted = self.encrypt_file(data)?;\n\n        self.very_file(&data_encrypted, data)?;\n\n        let id = hash(&data_encrypted);\n\n        self.write_bytes(tpe, &id, false, data_encrypted.into())?;",
         new="        let data_encrypted = self.encrypt_file(data)?;\n\n        let id = hash(&data_encrypted);\n\n        self.write_bytes(tpe, &id, false, data_encrypted.clone().into())?;\n        self.very_file(&data_encrypted, data)?;"),
    dict(id="k11_mtime_ignored", engine="kani", prop="C11", file="crates/core/src/archiver/parent.rs", old="                    && p_meta.mtime == meta.mtime\n", new="                    && (p_meta.mtime == meta.mtime || ignore_ctime)\n"),
    dict(id="k17_next_skips_last", engine="kani", prop="C17", file="crates/core/src/index/binarysorted.rs", old="            while *idx < entries.len() && entries[*idx].pack_idx == *pack_idx {", new="            while *idx + 1 < entries.len() && entries[*idx].pack_idx == *pack_idx {"),
    dict(id="c05_offset_check_lt", prop="C05", file="crates/core/src/commands/check.rs", old="                if blob.location.offset != expected_offset {", new="                if blob.location.offset < expected_offset {"),
    dict(id="c05_type_check_dropped", prop="C05", file="crates/core/src/commands/check.rs", old="                if blob.tpe != blob_type {\n                    collector.add_error(CheckError::PackBlobTypesMismatch", new="                if blob.tpe != blob_type && blob.location.length > 0 {\n                    collector.add_error(CheckError::PackBlobTypesMismatch"),
    dict(id="c18_apply_config_saves_refused", prop="C18", file=CO, old="    opts.apply(&mut new_config)?;\n", new="    let res = opts.apply(&mut new_config);\n    repo.set_config(new_config.clone());\n    res?;\n"),
    dict(id="c02_settle_keepmarked", prop="C02", file=PR, old="                PackToDo::Keep | PackToDo::Recover => {\n                    for blob in &pack.blobs {", new="                PackToDo::Keep | PackToDo::Recover | PackToDo::KeepMarked => {\n                    for blob in &pack.blobs {"),
    dict(id="c07_reset_forgets", prop="C07", file="crates/core/src/index/indexer.rs", old="        self.count = 0;\n        self.created = SystemTime::now();\n    }", new="        self.count = 0;\n        self.created = SystemTime::now();\n        if let Some(indexed) = &mut self.indexed {\n            indexed.clear();\n        }\n    }"),
    dict(id="c16_hot_marker_missing", prop="C16", file=CO, old="        new_config.is_hot = Some(true);\n", new=""),
    dict(id="c16_cold_marker_kept", prop="C16", file=CO, old="    new_config.is_hot = None;\n", new=""),
]

# ---- C14 restore plan kernel (RestorePlan::add_file, blob placement)
RS = "crates/core/src/commands/restore.rs"
MUTATIONS += [
    dict(id="C14-plan-offset-not-advanced", prop="C14", file=RS, old="            file_pos += length;\n        }\n\n        self.file_lengths.push(file_pos);", new="            file_pos = length;\n        }\n\n        self.file_lengths.push(file_pos);", expect="every_blob_planned_at_its_offset"),
    dict(id="C14-plan-start-after-blob", prop="C14", file=RS, old="                file_start: file_pos,\n                matches,", new="                file_start: file_pos + length,\n                matches,", expect="every_blob_planned_at_its_offset"),
    dict(id="C14-plan-verified-despite-unmatched", prop="C14", file=RS, old="                self.restore_size += length;\n                has_unmatched = true;", new="                self.restore_size += length;\n                has_unmatched = file_pos == 0;", expect="verified_only_if_every_blob_matched"),
    dict(id="C14-plan-verified-without-file", prop="C14", file=RS, old="if !has_unmatched && open_file.is_some() {", new="if !has_unmatched {", expect="verified_only_if_every_blob_matched"),
    dict(id="C14-plan-length-uses-stored-size", prop="C14", file=RS, old="let length: u64 = bl.data_length().into();", new="let length: u64 = bl.length.into();", expect="every_blob_planned_at_its_offset"),
]

# ---- C05 list comparisons of check
CK = "crates/core/src/commands/check.rs"
MUTATIONS += [
    dict(id="C05-list-size-only-smaller", prop="C05", file=CK, old="            Some((index_size, to_delete)) if index_size != size => {\n                collector.add_error(CheckError::PackSizeMismatchIndex {", new="            Some((index_size, to_delete)) if index_size > size => {\n                collector.add_error(CheckError::PackSizeMismatchIndex {"),
    dict(id="C05-list-missing-pack-is-warning", prop="C05", file=CK, old="        collector.add_error(CheckError::NoPack {", new="        collector.add_warn(CheckError::NoPack {"),
    dict(id="C05-hot-missing-cold-is-warning", prop="C05", file=CK, old="            None => collector.add_error(CheckError::NoColdFile { id, file_type }),", new="            None => collector.add_warn(CheckError::NoColdFile { id, file_type }),"),
    dict(id="C05-hot-size-mismatch-one-direction", prop="C05", file=CK, old="            Some(size) if size != size_hot => {", new="            Some(size) if size < size_hot => {"),
    dict(id="C05-hot-missing-hot-pack-is-warning", prop="C05", file=CK, old="        collector.add_error(CheckError::NoHotPack {", new="        collector.add_warn(CheckError::NoHotPack {"),
    dict(id="C05-hot-missing-hot-file-dropped", prop="C05", file=CK, old="    for (id, _) in files {\n        collector.add_error(CheckError::NoHotFile { id, file_type });\n    }", new="    for (id, _) in files {\n        collector.add_warn(CheckError::NoHotFile { id, file_type });\n    }"),
]

# ---- C05 check_trees node loop
MUTATIONS += [
    dict(id="C05-trees-missing-blob-is-warning", prop="C05", file=CK, old="                                    collector.add_error(CheckError::FileBlobNotInIndex {", new="                                    collector.add_warn(CheckError::FileBlobNotInIndex {"),
    dict(id="C05-trees-tree-pack-not-recorded", prop="C05", file=CK, old="                            Some(entry) => {\n                                _ = packs.insert(entry.pack);\n                            }\n                        }, // subtree is ok", new="                            Some(_entry) => {}\n                        }, // subtree is ok"),
    dict(id="C05-trees-null-subtree-accepted", prop="C05", file=CK, old="                        Some(tree) if tree.is_null() => {", new="                        Some(tree) if tree.is_null() && node.content.is_none() => {"),
    dict(id="C05-trees-no-content-accepted", prop="C05", file=CK, old="                        collector.add_error(CheckError::FileHasNoContent {", new="                        collector.add_warn(CheckError::FileHasNoContent {"),
    dict(id="C05-trees-null-blob-accepted", prop="C05", file=CK, old="                            if id.is_null() {\n                                collector.add_error(", new="                            if id.is_null() && i > 0 {\n                                collector.add_error("),
]

# ---- C16 repair hotcold: tree packs
RH = "crates/core/src/commands/repair/hotcold.rs"
MUTATIONS += [
    dict(id="C16-treepacks-skip-marked", prop="C16", file=RH, old="        for (pack, _) in index.all_packs() {\n            let blob_type = pack.blob_type();\n            if blob_type == BlobType::Tree {", new="        for (pack, marked) in index.all_packs() {\n            let blob_type = pack.blob_type();\n            if blob_type == BlobType::Tree && !marked {"),
    dict(id="C16-treepacks-data", prop="C16", file=RH, old="            if blob_type == BlobType::Tree {\n                _ = tree_packs.insert(pack.id);", new="            if blob_type == BlobType::Data {\n                _ = tree_packs.insert(pack.id);"),
    dict(id="C16-treepacks-empty-pack-is-tree", prop="C16", file="crates/core/src/repofile/indexfile.rs", old="        if self.blobs.is_empty() {\n            BlobType::Data", new="        if self.blobs.is_empty() {\n            BlobType::Tree"),
]

# ---- C05 check_packs as a whole
MUTATIONS += [
    dict(id="C05-packs-collector-gets-marked", prop="C05", file=CK, old="        index_collector.extend(index.packs.clone());", new="        index_collector.extend(index.packs.clone());\n        index_collector.extend(index.packs_to_delete.clone());"),
    dict(id="C05-packs-marked-not-compared", prop="C05", file=CK, old="            _ = packs.insert(p.id, (pack_size, to_delete));", new="            if !to_delete {\n                _ = packs.insert(p.id, (pack_size, to_delete));\n            }"),
    dict(id="C05-packs-time-check-inverted", prop="C05", file=CK, old="            if check_time && p.time.is_none() {", new="            if !check_time && p.time.is_none() {"),
    dict(id="C05-packs-list-check-skipped-when-hot", prop="C05", file=CK, old="    let p = repo.progress_spinner(\"listing packs...\");\n    check_packs_list(be, &mut packs, collector)?;", new="    let p = repo.progress_spinner(\"listing packs...\");\n    if hot_be.is_none() {\n        check_packs_list(be, &mut packs, collector)?;\n    }"),
]

# ---- `continue` inside for loops (R-forcontinue fallback)
MUTATIONS += [
    dict(id="C05-trees-skip-dirs-continue", prop="C05", file=CK, old="        for node in tree.nodes {\n            match node.node_type {", new="        for node in tree.nodes {\n            if node.node_type == NodeType::Dir && node.subtree.is_none() {\n                continue;\n            }\n            match node.node_type {"),
]
MUTATIONS += [
    dict(id="C02-check-count-one", prop="C02", file=PR, old="            if *count == 0 {\n                return Err(RusticError::new(\n                    ErrorKind::Internal,\n                    \"Blob ID `{blob_id}` is missing in index files.\",", new="            if *count == 1 {\n                return Err(RusticError::new(\n                    ErrorKind::Internal,\n                    \"Blob ID `{blob_id}` is missing in index files.\","),
]

# ---- C01 tree archiver
TA = "crates/core/src/archiver/tree_archiver.rs"
MUTATIONS += [
    dict(id="C01-ta-upload-only-known-trees", prop="C01", file=TA, old="        if !self.index.has_tree(&id) {", new="        if self.index.has_tree(&id) {"),
    dict(id="C01-ta-trust-parent-tree", prop="C01", file=TA, old="            ParentResult::Matched(p_id) if id == *p_id => {\n                debug!(\"unchanged tree: {}\", path.display());\n                self.summary.dirs_unmodified += 1;\n                return Ok(id);", new="            ParentResult::Matched(p_id) => {\n                debug!(\"unchanged tree: {}\", path.display());\n                self.summary.dirs_unmodified += 1;\n                return Ok(*p_id);"),
    dict(id="C01-ta-node-lost-on-endtree", prop="C01", file=TA, old="                self.tree = tree;\n                self.tree.add(node);", new="                self.tree.add(node);\n                self.tree = tree;"),
    dict(id="C01-ta-subtree-not-set", prop="C01", file=TA, old="                node.subtree = Some(id);\n", new="                node.subtree = node.subtree.or(Some(id));\n"),
    dict(id="C01-ta-empty-file-dropped", prop="C01", file=TA, old="        self.summary.total_bytes_processed += size;\n        self.tree.add(node);", new="        self.summary.total_bytes_processed += size;\n        if size > 0 || !matches!(parent, ParentResult::NotFound) {\n            self.tree.add(node);\n        }"),
    dict(id="C01-ta-tree-add-front", prop="C01", file="crates/core/src/blob/tree.rs", old="        self.nodes.push(node);", new="        self.nodes.insert(0, node);"),
]

# ---- C11 is_parent predicate (Verus)
PA = "crates/core/src/archiver/parent.rs"
MUTATIONS += [
    dict(id="C11-pred-mtime-dropped", prop="C11", file=PA, old="                    && p_meta.mtime == meta.mtime\n", new=""),
    dict(id="C11-pred-ctime-or", prop="C11", file=PA, old="                    && match_ctime\n                    && match_inode", new="                    && (match_ctime || match_inode)"),
    dict(id="C11-pred-size-le", prop="C11", file=PA, old="                    && p_meta.size == meta.size\n", new="                    && p_meta.size <= meta.size\n"),
    dict(id="C11-pred-ignore-ctime-inverted", prop="C11", file=PA, old="                    ignore_ctime || p_meta.ctime.zip(meta.ctime).is_none_or(|(x, y)| x == y);", new="                    !ignore_ctime || p_meta.ctime.zip(meta.ctime).is_none_or(|(x, y)| x == y);"),
    dict(id="C11-lookup-skips-larger", prop="C11", file=PA, old="                        Ordering::Greater => {\n                            break None;\n                        }", new="                        Ordering::Greater => *idx += 1,"),
    dict(id="C11-lookup-equal-advances-first", prop="C11", file=PA, old="                        Ordering::Equal => {\n                            break Some(p_node);", new="                        Ordering::Equal => {\n                            *idx += 1;\n                            break Some(p_node);"),
    dict(id="C11-lookup-less-gives-up", prop="C11", file=PA, old="                        Ordering::Less => *idx += 1,", new="                        Ordering::Less => break None,"),
]

# ---- C08 header size folds (Verus, unbounded)
PFILE = "crates/core/src/repofile/packfile.rs"
MUTATIONS += [
    dict(id="C08-fold-size-flat-entry", prop="C08", file=PFILE, old="            acc + HeaderEntry::from_blob(blob).length()\n        })", new="            acc + HeaderEntry::ENTRY_LEN\n        })"),
    dict(id="C08-fold-packsize-no-length-field", prop="C08", file=PFILE, old="            constants::COMP_OVERHEAD + constants::LENGTH_LEN,\n            |acc, blob|", new="            constants::COMP_OVERHEAD,\n            |acc, blob|"),
]

# ---- C18 -> C06: ChunkIter::from_config
CHF = "crates/core/src/chunker.rs"
MUTATIONS += [
    dict(id="C18-fromconfig-min-max-swapped", prop="C18", file=CHF, old="                    config.chunk_min_size(),\n                    config.chunk_max_size(),", new="                    config.chunk_max_size(),\n                    config.chunk_min_size(),"),
    dict(id="C18-fromconfig-fixed-uses-min", prop="C18", file=CHF, old="            Chunker::FixedSize => Self::FixedSize(FixedSizeChunkIter::new(\n                config.chunk_size(),", new="            Chunker::FixedSize => Self::FixedSize(FixedSizeChunkIter::new(\n                config.chunk_min_size(),"),
]

# ---- C09 KeepOptions::apply (Verus)
MUTATIONS += [
    dict(id="C09-apply-last-only-if-kept", prop="C09", file=FG, old="            last = Some(sn.clone());\n", new="            if keep {\n                last = Some(sn.clone());\n            }\n"),
    dict(id="C09-apply-has-next-inverted", prop="C09", file=FG, old="group_keep.matches(&sn, last.as_ref(), iter.peek().is_some(), &latest_time);", new="group_keep.matches(&sn, last.as_ref(), !iter.peek().is_some(), &latest_time);"),
    dict(id="C09-apply-unchanged-inverted", prop="C09", file=FG, old="iter.peek().is_some_and(|sn_next| sn_next.tree == sn.tree)", new="iter.peek().is_some_and(|sn_next| sn_next.tree != sn.tree)"),
    dict(id="C09-apply-keep-inverted", prop="C09", file=FG, old="                    let keep = !reasons.is_empty();", new="                    let keep = reasons.is_empty();"),
    dict(id="C09-apply-validity-not-checked", prop="C09", file=FG, old="        if !self.is_valid() {\n            return Err(RusticError::new(\n                ErrorKind::InvalidInput,\n                \"Invalid keep options", new="        if !self.is_valid() && snapshots.is_empty() {\n            return Err(RusticError::new(\n                ErrorKind::InvalidInput,\n                \"Invalid keep options"),
    dict(id="C09-apply-expired-kept-by-rules", prop="C09", file=FG, old="                } else if sn.must_delete(now) {\n                    (false, vec![\"snapshot\"])", new="                } else if sn.must_delete(now) && iter.peek().is_some() {\n                    (false, vec![\"snapshot\"])"),
]

# ---- C08 RawPacker
MUTATIONS += [
    dict(id="C08-raw-finalize-skips-save", prop="C08", file=PK, old="        if !self.basic.is_empty() {\n            self.save()?;\n        }\n\n        self.file_writer.take()", new="        if self.basic.is_empty() {\n            self.save()?;\n        }\n\n        self.file_writer.take()"),
    dict(id="C08-raw-add-drops-open-pack", prop="C08", file=PK, old="        if self.basic.should_save() {\n            self.save()?;\n        }\n        Ok(())", new="        if self.basic.should_save() {\n            _ = self.basic.take_data();\n        }\n        Ok(())"),
    dict(id="C08-raw-writer-closed-before-flush", prop="C08", file=PK, old="        if !self.basic.is_empty() {\n            self.save()?;\n        }\n\n        self.file_writer.take().unwrap().finalize()?;\n", new="        let writer = self.file_writer.take().unwrap();\n        if !self.basic.is_empty() {\n            self.save()?;\n        }\n\n        writer.finalize()?;\n"),
]

# ---- C04 key lookup
KFILE = "crates/core/src/repofile/keyfile.rs"
MUTATIONS += [
    dict(id="C04-findkey-hint-ignored-id", prop="C04", file=KFILE, old="        Ok((key_from_backend(be, id, passwd)?, *id))", new="        Ok((key_from_backend(be, id, passwd)?, KeyId::default()))"),
    dict(id="C04-findkey-returns-other-id", prop="C04", file=KFILE, old="                Ok(key) => return Ok((key, KeyId(id))),", new="                Ok(key) => return Ok((key, KeyId(Id::default()))),"),
]

# ---- C07 Packer::add_raw
MUTATIONS += [
    dict(id="C07-packer-addraw-untyped", prop="C07", file=PK, old="        if self.indexer.read().unwrap().has(self.blob_type, id) {\n            Ok(())", new="        if self.indexer.read().unwrap().has(BlobType::Data, id) {\n            Ok(())"),
    dict(id="C07-packer-addraw-inverted", prop="C07", file=PK, old="        if self.indexer.read().unwrap().has(self.blob_type, id) {\n            Ok(())", new="        if !self.indexer.read().unwrap().has(self.blob_type, id) {\n            Ok(())"),
]

# ---- C02 prune execution (per-pack decision)
MUTATIONS += [
    dict(id="C02-exec-keep-goes-to-marked", prop="C02", file=PR, old="                    let pack = pack.into_index_pack(prune_time);\n                    indexer.add(pack)?;\n                }\n                PackToDo::Repack => {", new="                    let pack = pack.into_index_pack(prune_time);\n                    indexer.add_remove(pack)?;\n                }\n                PackToDo::Repack => {"),
    dict(id="C02-exec-recover-deleted-when-instant", prop="C02", file=PR, old="                PackToDo::Recover => {\n                    // recover pack: add to new index in section packs\n                    let pack = pack.into_index_pack_with_time(prune_time);\n                    indexer.add(pack)?;", new="                PackToDo::Recover if opts.instant_delete => delete_pack(&pack),\n                PackToDo::Recover => {\n                    // recover pack: add to new index in section packs\n                    let pack = pack.into_index_pack_with_time(prune_time);\n                    indexer.add(pack)?;"),
    dict(id="C02-exec-repack-not-queued-when-instant", prop="C02", file=PR, old="                    pack.blobs.sort_unstable();\n                    repack_packs.push(pack);", new="                    pack.blobs.sort_unstable();\n                    if !opts.instant_delete {\n                        repack_packs.push(pack);\n                    }"),
    dict(id="C02-exec-markdelete-queued-for-repack", prop="C02", file=PR, old="                PackToDo::MarkDelete => {\n                    if opts.instant_delete {", new="                PackToDo::MarkDelete => {\n                    repack_packs.push(pack.clone());\n                    if opts.instant_delete {"),
    dict(id="C02-exec-keepmarked-becomes-live", prop="C02", file=PR, old="                        let pack = pack.into_index_pack(prune_time);\n                        indexer.add_remove(pack)?;\n                    }\n                }\n                PackToDo::Recover => {", new="                        let pack = pack.into_index_pack(prune_time);\n                        indexer.add(pack)?;\n                    }\n                }\n                PackToDo::Recover => {"),
]

# ---- C05/C17 GlobalIndex::new_from_collector
IXR = "crates/core/src/index.rs"
MUTATIONS += [
    dict(id="C05-globalindex-includes-marked", prop="C05", file=IXR, old="            collector.extend(index?.1.packs);", new="            collector.extend(index?.1.packs_to_delete);"),
    dict(id="C05-globalindex-skips-file-after-first", prop="C05", file=IXR, old="            collector.extend(index?.1.packs);\n        }", new="            collector.extend(index?.1.packs);\n            break;\n        }"),
]

# ---- C17 typed wrappers of ReadIndex
MUTATIONS += [
    dict(id="C17-has-tree-looks-in-data", prop="C17", file=IXR, old="        self.has(BlobType::Tree, &BlobId::from(**id))", new="        self.has(BlobType::Data, &BlobId::from(**id))"),
    dict(id="C17-get-data-looks-in-tree", prop="C17", file=IXR, old="        self.get_id(BlobType::Data, &BlobId::from(**id))", new="        self.get_id(BlobType::Tree, &BlobId::from(**id))"),
]

# ---- restore PackInfo::coalesce
MUTATIONS += [
    dict(id="C02-restore-coalesce-across-packs", prop="C02", file=RS, old="        if self.pack_id == other.pack_id // if the pack is identical\n           && self.from_file.is_none()", new="        if self.from_file.is_none()"),
    dict(id="C02-restore-coalesce-from-file", prop="C02", file=RS, old="           && self.from_file.is_none() // and we don't read from a present file\n", new=""),
]

# ---- C19 caching wrapper
CAF = "crates/core/src/backend/cache.rs"
MUTATIONS += [
    dict(id="C19-list-no-cache-cleaning-for-index", prop="C19", file=CAF, old="        if tpe.is_cacheable()\n            && let Err(err) = self.cache.remove_not_in_list(tpe, &list)", new="        if tpe == FileType::Snapshot\n            && let Err(err) = self.cache.remove_not_in_list(tpe, &list)"),
    dict(id="C19-read-full-caches-uncacheable", prop="C19", file=CAF, old="    fn read_full(&self, tpe: FileType, id: &Id) -> RusticResult<Bytes> {\n        if tpe.is_cacheable() {", new="    fn read_full(&self, tpe: FileType, id: &Id) -> RusticResult<Bytes> {\n        if tpe.is_cacheable() || tpe == FileType::Key {"),
    dict(id="C19-read-partial-wrong-range", prop="C19", file=CAF, old="                    let range = offset as usize..end as usize;", new="                    let range = 0..end as usize;"),
    dict(id="C19-read-partial-bound-check-off-by-one", prop="C19", file=CAF, old="                    if end > data.len() as u64 {", new="                    if end > data.len() as u64 + 1 {"),
    dict(id="C19-write-data-packs-cached", prop="C19", file=CAF, old="        if (cacheable || tpe.is_cacheable())\n            && let Err(err) = self.cache.write_bytes(tpe, id, &content)", new="        if (cacheable || tpe.is_cacheable() || tpe == FileType::Pack)\n            && let Err(err) = self.cache.write_bytes(tpe, id, &content)"),
    dict(id="C19-remove-leaves-cache-entry", prop="C19", file=CAF, old="        if (cacheable || tpe.is_cacheable())\n            && let Err(err) = self.cache.remove(tpe, id)", new="        if tpe.is_cacheable()\n            && let Err(err) = self.cache.remove(tpe, id)"),
    dict(id="C19-remove-skips-backend-on-cache-error", prop="C19", file=CAF, old="                \"Error in cache backend removing {tpe:?},{id}: {}\",\n                err.display_log()\n            );\n        }\n        self.be.remove(tpe, id, cacheable)", new="                \"Error in cache backend removing {tpe:?},{id}: {}\",\n                err.display_log()\n            );\n            return Ok(());\n        }\n        self.be.remove(tpe, id, cacheable)"),
    dict(id="C19-index-files-not-cacheable", prop="C19", file="crates/core/src/backend.rs", old="            Self::Config | Self::Key | Self::Pack => false,\n            Self::Snapshot | Self::Index => true,", new="            Self::Config | Self::Key | Self::Pack | Self::Index => false,\n            Self::Snapshot => true,"),
]

# ---- C14 collect_and_prepare: extra entries
MUTATIONS += [
    dict(id="C14-extra-removed-in-dry-run", prop="C14", file=RS, old="            match (opts.delete, dry_run, is_dir) {", new="            match (opts.delete, dry_run && is_dir, is_dir) {"),
    dict(id="C14-extra-dir-removed-without-delete", prop="C14", file=RS, old="                (true, false, true) => {\n                    if let Err(err) = dest.remove_dir(entry.path()) {", new="                (_, false, true) => {\n                    if let Err(err) = dest.remove_dir(entry.path()) {"),
]

# ---- C14 collect_and_prepare: merge walk
MUTATIONS += [
    dict(id="C14-merge-equal-node-skipped", prop="C14", file=RS, old="                        process_node(path, node, true)?;\n                        next_node = node_streamer.next().transpose()?;", new="                        if !node.is_special() {\n                            process_node(path, node, true)?;\n                        }\n                        next_node = node_streamer.next().transpose()?;"),
    dict(id="C14-merge-less-greater-swapped", prop="C14", file=RS, old="                match destination.path().cmp(&dest.path(path)) {", new="                match dest.path(path).cmp(destination.path()) {"),
    dict(id="C14-merge-equal-always-replaced", prop="C14", file=RS, old="                            || node.is_special()\n                        {", new="                            || node.is_special()\n                            || node.is_file()\n                        {"),
]

MUTATIONS += [
    dict(id="C08-fromfile-header-slice-off-by-one", prop="C08", file=PFILE, old="            data.split_off((size_guess - size_real) as usize)", new="            data.split_off((size_guess - size_real + 1).min(size_guess) as usize)"),
    dict(id="C08-fromfile-reread-wrong-offset", prop="C08", file=PFILE, old="            let offset = pack_size - size_real - constants::LENGTH_LEN;", new="            let offset = pack_size - size_real;"),
]

# ---- C02 BlobCopier
MUTATIONS += [
    dict(id="C02-copyfast-start-not-rebased", prop="C02", file=PK, old="            let start = usize::try_from(blob.offset - offset)\n                .expect(\"convert from u32 to usize should not fail!\");\n            let end = usize::try_from(blob.offset + blob.length - offset)\n                .expect(\"convert from u32 to usize should not fail!\");\n            self.packer\n                .add_raw(", new="            let start = usize::try_from(blob.offset)\n                .expect(\"convert from u32 to usize should not fail!\");\n            let end = usize::try_from(blob.offset + blob.length - offset)\n                .expect(\"convert from u32 to usize should not fail!\");\n            self.packer\n                .add_raw("),
    dict(id="C02-copyfast-drops-uncompressed-length", prop="C02", file=PK, old="                    u64::from(blob.length),\n                    blob.uncompressed_length,\n                )", new="                    u64::from(blob.length),\n                    None,\n                )"),
    dict(id="C02-copy-end-one-short", prop="C02", file=PK, old="            let end = usize::try_from(blob.offset + blob.length - offset)\n                .expect(\"convert from u32 to usize should not fail!\");\n            let data = self", new="            let end = usize::try_from(blob.offset + blob.length - offset - 1)\n                .expect(\"convert from u32 to usize should not fail!\");\n            let data = self"),
    dict(id="C02-copy-coalesce-across-packs", prop="C02", file=PK, old="        if self.pack_id == other.pack_id && self.locations.can_coalesce(&other.locations) {", new="        if self.locations.can_coalesce(&other.locations) {"),
]

MUTATIONS += [
    dict(id="C16-open-hot-alone-accepted", prop="C16", file="crates/core/src/repository.rs", old="        match (config.is_hot == Some(true), self.be_hot.is_some()) {\n            (true, false) => {", new="        match (config.is_hot == Some(true), self.be_hot.is_some()) {\n            (true, false) if config.is_hot.is_none() => {"),
]

# ---- C03 ordering kernels
RSNF = "crates/core/src/commands/repair/snapshots.rs"
ARF = "crates/core/src/archiver.rs"
MUTATIONS += [
    dict(id="C03-repair-snapshot-saved-before-flush", prop="C03", file=RSNF, old="                    modified_snapshots.push(snap);", new="                    let _new_id = be.save_file(&snap)?;\n                    modified_snapshots.push(snap);"),
    dict(id="C03-repair-delete-before-flush", prop="C03", file=RSNF, old="    modifier.finalize()?;\n\n    for snap in modified_snapshots {", new="    if opts.delete && !dry_run {\n        be.delete_list(\n            true,\n            state.delete.iter(),\n            repo.progress_counter(\"remove defect snapshots\"),\n        )?;\n    }\n    modifier.finalize()?;\n\n    for snap in modified_snapshots {"),
    dict(id="C03-backup-snapshot-before-index", prop="C03", file=ARF, old="        self.indexer.write().unwrap().finalize()?;\n\n        summary.finalize(&self.snap.time);\n        self.snap.summary = Some(summary);\n\n        if !skip_identical_parent || Some(self.snap.tree) != self.parent.tree_id() {\n            let id = self.be.save_file(&self.snap)?;\n            self.snap.id = id.into();\n        }\n", new="        summary.finalize(&self.snap.time);\n        self.snap.summary = Some(summary);\n\n        if !skip_identical_parent || Some(self.snap.tree) != self.parent.tree_id() {\n            let id = self.be.save_file(&self.snap)?;\n            self.snap.id = id.into();\n        }\n        self.indexer.write().unwrap().finalize()?;\n"),
    dict(id="C03-backup-index-before-tree-packs", prop="C03", file=ARF, old="        let stats = self.file_archiver.finalize()?;\n        let (id, mut summary) = self.tree_archiver.finalize(self.parent.tree_id())?;\n        stats.apply(&mut summary, BlobType::Data);\n        self.snap.tree = id;\n\n        self.indexer.write().unwrap().finalize()?;\n", new="        let stats = self.file_archiver.finalize()?;\n        self.indexer.write().unwrap().finalize()?;\n        let (id, mut summary) = self.tree_archiver.finalize(self.parent.tree_id())?;\n        stats.apply(&mut summary, BlobType::Data);\n        self.snap.tree = id;\n\n"),
    dict(id="C03-prune-packs-before-index-files", prop="C03", file=PR, old="    // remove old index files first as they may reference pack files which are removed soon.\n    if !indexes_remove.is_empty() && !early_delete_index {\n        let p = repo.progress_counter(\"removing old index files...\");\n        be.delete_list(true, indexes_remove.iter(), p)?;\n    }\n\n    if !data_packs_remove.is_empty() {\n        let p = repo.progress_counter(\"removing old data packs...\");\n        be.delete_list(false, data_packs_remove.iter(), p)?;\n    }\n", new="    if !data_packs_remove.is_empty() {\n        let p = repo.progress_counter(\"removing old data packs...\");\n        be.delete_list(false, data_packs_remove.iter(), p)?;\n    }\n\n    // remove old index files\n    if !indexes_remove.is_empty() && !early_delete_index {\n        let p = repo.progress_counter(\"removing old index files...\");\n        be.delete_list(true, indexes_remove.iter(), p)?;\n    }\n"),
    dict(id="C03-writer-index-entry-despite-failed-write", prop="C03", file=PK, old="        self.be\n            .write_bytes(FileType::Pack, &id, self.cacheable, file)?;\n        index.time = Some(Timestamp::now());", new="        _ = self.be.write_bytes(FileType::Pack, &id, self.cacheable, file);\n        index.time = Some(Timestamp::now());"),
]

MUTATIONS += [
    dict(id="C03-copy-snapshots-before-index", prop="C03", file="crates/core/src/commands/copy.rs", old="    indexer.write().unwrap().finalize()?;\n\n    let p = repo_dest.progress_counter(\"saving snapshots...\");\n    be_dest.save_list(snaps.iter(), p)?;", new="    let p = repo_dest.progress_counter(\"saving snapshots...\");\n    be_dest.save_list(snaps.iter(), p)?;\n    indexer.write().unwrap().finalize()?;"),
]

MUTATIONS += [
    dict(id="C03-rewrite-forget-before-save", prop="C03", file="crates/core/src/commands/rewrite.rs", old="        repo.save_snapshots(snapshots.clone())?;\n        if opts.forget {\n            let old_snap_ids: Vec<_> = snapshots.iter().map(|sn| sn.id).collect();\n            repo.delete_snapshots(&old_snap_ids)?;\n        }", new="        if opts.forget {\n            let old_snap_ids: Vec<_> = snapshots.iter().map(|sn| sn.id).collect();\n            repo.delete_snapshots(&old_snap_ids)?;\n        }\n        repo.save_snapshots(snapshots.clone())?;"),
]

# ---- C12 repair / rewrite kernels
RWTF = "crates/core/src/blob/tree/rewrite.rs"
MODF = "crates/core/src/blob/tree/modify.rs"
MUTATIONS += [
    dict(id="C12-repair-missing-blob-not-flagged", prop="C12", file=RSNF, old="                        || {\n                            file_changed = true;\n                        },", new="                        || {\n                            file_changed = new_content.is_empty();\n                        },"),
    dict(id="C12-repair-keeps-missing-blob", prop="C12", file=RSNF, old="                        || {\n                            file_changed = true;\n                        },", new="                        || {\n                            file_changed = true;\n                            new_content.push(blob);\n                        },"),
    dict(id="C12-repair-unchanged-file-renamed", prop="C12", file=RSNF, old="                if file_changed {\n                    warn!(\"file {}: contents are missing\", node.name);\n                    node.name += &self.opts.suffix;", new="                if file_changed || new_size != node.meta.size {\n                    warn!(\"file {}: contents are missing\", node.name);\n                    node.name += &self.opts.suffix;"),
    dict(id="C12-rewrite-excluded-dir-kept", prop="C12", file=RWTF, old="        if let Match::Ignore(_) = self.overrides.matched(path, node.is_dir()) {\n            NodeAction::Removed", new="        if let Match::Ignore(_) = self.overrides.matched(path, false) {\n            NodeAction::Removed"),
    dict(id="C12-rewrite-change-flag-lost", prop="C12", file=RWTF, old="                NodeAction::Node(node, changed)", new="                NodeAction::Node(node, self.all_trees)"),
    dict(id="C12-modify-saves-unchanged-tree", prop="C12", file=MODF, old="        let new_id = if changed {\n            let new_id = self.save_tree(&new_tree)?;", new="        let new_id = if changed || !self.dry_run {\n            let new_id = self.save_tree(&new_tree)?;"),
]

MUTATIONS += [
    dict(id="C12-modify-changed-subtree-not-flagged", prop="C12", file=MODF, old="                        ModifierChange::Changed(tree_id) => {\n                            node.subtree = Some(tree_id);\n                            new_tree.add(node);\n                            changed = true;", new="                        ModifierChange::Changed(tree_id) => {\n                            node.subtree = Some(tree_id);\n                            new_tree.add(node);"),
    dict(id="C12-modify-removed-node-not-flagged", prop="C12", file=MODF, old="                NodeAction::Removed => {\n                    changed = true;\n                }", new="                NodeAction::Removed => {}"),
]

# ---- C07/C02/C03 Indexer sections and saving
IXF2 = "crates/core/src/index/indexer.rs"
MUTATIONS += [
    dict(id="C07-indexer-add-marks-pack", prop="C07", file=IXF2, old="    pub fn add(&mut self, pack: IndexPack) -> RusticResult<()> {\n        self.add_with(pack, false)", new="    pub fn add(&mut self, pack: IndexPack) -> RusticResult<()> {\n        self.add_with(pack, true)"),
    dict(id="C07-indexer-add-remove-live", prop="C07", file=IXF2, old="    pub fn add_remove(&mut self, pack: IndexPack) -> RusticResult<()> {\n        self.add_with(pack, true)", new="    pub fn add_remove(&mut self, pack: IndexPack) -> RusticResult<()> {\n        self.add_with(pack, false)"),
    dict(id="C07-indexer-reset-without-save", prop="C07", file=IXF2, old="            self.save()?;\n            self.reset();", new="            self.reset();"),
    dict(id="C07-indexer-save-skips-marked-only", prop="C07", file=IXF2, old="        if (self.file.packs.len() + self.file.packs_to_delete.len()) > 0 {", new="        if self.file.packs.len() > 0 {"),
    dict(id="C07-indexfile-sections-swapped", prop="C07", file="crates/core/src/repofile/indexfile.rs", old="        if delete {\n            self.packs_to_delete.push(p);\n        } else {\n            self.packs.push(p);\n        }", new="        if delete {\n            self.packs.push(p);\n        } else {\n            self.packs_to_delete.push(p);\n        }"),
]

MUTATIONS += [
    dict(id="C19-clean-size-mismatch-kept", prop="C19", file=CAF, old="                && &cached_size != size\n", new="                && &cached_size > size\n"),
    dict(id="C19-clean-unlisted-files-kept", prop="C19", file=CAF, old="        for id in list_cache.keys() {\n            self.remove(tpe, id)?;\n        }\n        Ok(())", new="        Ok(())"),
]

RIXF = "crates/core/src/commands/repair/index.rs"
MUTATIONS += [
    dict(id="C12-repairindex-marked-becomes-live", prop="C12", file=RIXF, old="                        new_index.add(p, to_delete);", new="                        new_index.add(p, false);"),
    dict(id="C12-repairindex-drop-not-flagged", prop="C12", file=RIXF, old="                    debug!(\"removing non-existing pack {id} from index\");\n                    changed = true;", new="                    debug!(\"removing non-existing pack {id} from index\");"),
    dict(id="C12-repairindex-sound-pack-reread", prop="C12", file=RIXF, old="                    if index_size != size || read_all {", new="                    if index_size >= size || read_all {"),
]

MUTATIONS += [
    dict(id="C03-packer-finalize-skips-writer-when-empty", prop="C03", file=PK, old="        if !self.basic.is_empty() {\n            self.save()?;\n        }\n\n        self.file_writer.take().unwrap().finalize()?;\n", new="        if !self.basic.is_empty() {\n            self.save()?;\n            self.file_writer.take().unwrap().finalize()?;\n        }\n"),
    dict(id="C03-packer-finalize-writer-error-ignored", prop="C03", file=PK, old="        self.file_writer.take().unwrap().finalize()?;\n\n        Ok(self.basic.take_stats())", new="        _ = self.file_writer.take().unwrap().finalize();\n\n        Ok(self.basic.take_stats())"),
]

MUTATIONS += [
    dict(id="C03-repairindex-replace-in-first-pass", prop="C03", file=RIXF, old="            (true, false) => changed_index_files.push((index_id, new_index)),", new="            (true, false) => {\n                be.remove(FileType::Index, &index_id, true)?;\n                changed_index_files.push((index_id, new_index));\n            }"),
    dict(id="C03-repairindex-replace-before-finalize", prop="C03", file=RIXF, old="    indexer.write().unwrap().finalize()?;\n    p.finish();\n\n    // now that all re-read packs are indexed, replace the modified index files\n    for (index_id, new_index) in changed_index_files {\n        if !new_index.packs.is_empty() || !new_index.packs_to_delete.is_empty() {\n            _ = be.save_file(&new_index)?;\n        }\n        be.remove(FileType::Index, &index_id, true)?;\n    }\n", new="    // replace the modified index files\n    for (index_id, new_index) in changed_index_files {\n        if !new_index.packs.is_empty() || !new_index.packs_to_delete.is_empty() {\n            _ = be.save_file(&new_index)?;\n        }\n        be.remove(FileType::Index, &index_id, true)?;\n    }\n    indexer.write().unwrap().finalize()?;\n    p.finish();\n"),
]

MUTATIONS += [
    dict(id="C12-rewrite-memo-ignores-path-on-lookup", prop="C12", file=RWTF, old="        if self.unchanged.contains(&(path.clone(), id)) {", new="        if self.unchanged.contains(&(PathBuf::new(), id)) {"),
    dict(id="C12-rewrite-memo-recorded-without-path", prop="C12", file=RWTF, old="            _ = self.unchanged.insert((path, id));", new="            _ = self.unchanged.insert((PathBuf::new(), id));"),
]

MUTATIONS += [
    dict(id="C12-modify-unchanged-dir-dropped", prop="C12", file=MODF, old="                        ModifierChange::Unchanged => {\n                            new_tree.add(node);\n                        }", new="                        ModifierChange::Unchanged => {}"),
    dict(id="C12-modify-subtree-id-not-updated", prop="C12", file=MODF, old="                        ModifierChange::Changed(tree_id) => {\n                            node.subtree = Some(tree_id);\n                            new_tree.add(node);", new="                        ModifierChange::Changed(_tree_id) => {\n                            new_tree.add(node);"),
    dict(id="C12-modify-removed-subtree-kept", prop="C12", file=MODF, old="                        ModifierChange::Removed => {\n                            changed = true;\n                        }", new="                        ModifierChange::Removed => {\n                            changed = true;\n                            new_tree.add(node);\n                        }"),
    dict(id="C12-modify-unchanged-nodes-dropped-on-rewrite", prop="C12", file=MODF, old="                NodeAction::Node(node, node_changed) => {\n                    changed |= node_changed;\n                    new_tree.add(node);", new="                NodeAction::Node(node, node_changed) => {\n                    changed |= node_changed;\n                    if node_changed || !changed {\n                        new_tree.add(node);\n                    }"),
]

MUTATIONS += [
    dict(id="C04-kdf-wrong-salt-param", prop="C04", file=KFILE, old="            self.r,\n            self.p,\n        )", new="            self.p,\n            self.r,\n        )"),
    dict(id="C04-keyfromdata-skips-authentication", prop="C04", file=KFILE, old="        let dec_data = key.decrypt_data(&self.data)?;", new="        let dec_data = match key.decrypt_data(&self.data) {\n            Ok(d) => d,\n            Err(_) => self.data.clone(),\n        };"),
    dict(id="C04-kdf-password-truncated", prop="C04", file=KFILE, old="        scrypt::scrypt(passwd.as_ref(), &self.salt, &params, &mut key).map_err(|err| {\n            RusticError::with_source(\n                ErrorKind::Key,\n                \"Output length invalid. Please check the key file and password.\",\n                err,\n            )\n        })?;\n\n        Ok(Key::from_slice(&key))", new="        scrypt::scrypt(&self.salt, passwd.as_ref(), &params, &mut key).map_err(|err| {\n            RusticError::with_source(\n                ErrorKind::Key,\n                \"Output length invalid. Please check the key file and password.\",\n                err,\n            )\n        })?;\n\n        Ok(Key::from_slice(&key))"),
]

MUTATIONS += [
    dict(id="C07-backuptree-uploads-known-changed-tree", prop="C07", file=TA, old="        if !self.index.has_tree(&id) {", new="        if !matches!(parent, ParentResult::NotFound) || !self.index.has_tree(&id) {"),
]

MUTATIONS += [
    dict(id="C16-repair-hot-direction-skipped", prop="C16", file=RH, old="    if !missing_hot.is_empty() {\n        if dry_run {", new="    if !missing_hot.is_empty() && missing_cold_size == 0 {\n        if dry_run {"),
    dict(id="C16-repair-hot-copy-without-warmup", prop="C16", file=RH, old="            warm_up_wait(repo, file_type, missing_hot.iter().copied())?;\n", new=""),
    dict(id="C16-repair-dry-run-copies", prop="C16", file=RH, old="    if !missing_cold.is_empty() {\n        if dry_run {", new="    if !missing_cold.is_empty() {\n        if dry_run && file_type == FileType::Pack {"),
]

MUTATIONS += [
    dict(id="C05-list-missing-marked-pack-is-warning", prop="C05", file=CK, old="    for (id, (size, to_delete)) in packs {\n        collector.add_error(CheckError::NoPack {\n            id: *id,\n            to_delete: *to_delete,\n            size: *size,\n        });\n    }", new="    for (id, (size, to_delete)) in packs {\n        let err = CheckError::NoPack {\n            id: *id,\n            to_delete: *to_delete,\n            size: *size,\n        };\n        if *to_delete {\n            collector.add_warn(err);\n        } else {\n            collector.add_error(err);\n        }\n    }"),
]

# ---- C03 merge ordering
MRG = "crates/core/src/commands/merge.rs"
MUTATIONS += [
    dict(id="C03-merge-index-before-packer", prop="C03", file=MRG, old="    let stats = packer.finalize()?;\n    indexer.write().unwrap().finalize()?;\n", new="    indexer.write().unwrap().finalize()?;\n    let stats = packer.finalize()?;\n"),
    dict(id="C03-merge-index-never-finalized", prop="C03", file=MRG, old="    let stats = packer.finalize()?;\n    indexer.write().unwrap().finalize()?;\n", new="    let stats = packer.finalize()?;\n"),
    dict(id="C03-merge-snapshot-saved-first", prop="C03", file=MRG, old="    snap.tree = merge_trees(repo, &trees, cmp, &mut summary)?;\n", new="    snap.id = repo.dbe().save_file(&snap)?.into();\n    snap.tree = merge_trees(repo, &trees, cmp, &mut summary)?;\n"),
]

# ---- C14 write kernel of restore_contents
RSF = "crates/core/src/commands/restore.rs"
MUTATIONS += [
    dict(id="C14-write-sparse-skip-unconditional", prop="C14", file=RSF, old="                                let skip = is_sparse\n                                    && dest\n                                        .read_at(path, start, size)\n                                        .is_ok_and(|old| old.iter().all(|&b| b == 0));\n", new="                                let skip = is_sparse;\n"),
    # (C14-write-no-alloc-reset moved to HARMLESS: without the reset the file is re-allocated to the SAME length before every blob, which keeps its content)
    dict(id="C14-write-at-zero-offset", prop="C14", file=RSF, old="                                    dest.write_at(path, start, &data).unwrap();\n                                }\n                                p.inc(size);", new="                                    dest.write_at(path, 0, &data).unwrap();\n                                }\n                                p.inc(size);"),
    dict(id="C14-write-alloc-skipped", prop="C14", file=RSF, old="                                if filesize > 0 {\n                                    dest.set_length(path, filesize).unwrap();", new="                                if filesize > 1 {\n                                    dest.set_length(path, filesize).unwrap();"),
    dict(id="C14-sparse-decision-no-means-yes", prop="C14", file=RSF, old="                            SparseRestore::No => false,", new="                            SparseRestore::No => true,"),
]

# ---- round 7
MUTATIONS += [
    dict(id="C11-new-fields-swapped", prop="C11", file=PA, old="            ignore_ctime,\n            ignore_inode,\n        }", new="            ignore_ctime: ignore_inode,\n            ignore_inode: ignore_ctime,\n        }"),
    dict(id="C11-wiring-both-ctime", prop="C11", file="crates/core/src/commands/backup.rs", old="                self.ignore_ctime,\n                self.ignore_inode,\n            ),", new="                self.ignore_ctime,\n                self.ignore_ctime,\n            ),"),
    dict(id="C02-filter-index-recover-ignored", prop="C02", file=PR, old="p.to_do != PackToDo::Keep && (instant_delete || p.to_do != PackToDo::KeepMarked)", new="p.to_do != PackToDo::Keep\n                        && p.to_do != PackToDo::Recover\n                        && (instant_delete || p.to_do != PackToDo::KeepMarked)"),
    dict(id="C02-filter-index-only-instant", prop="C02", file=PR, old="p.to_do != PackToDo::Keep && (instant_delete || p.to_do != PackToDo::KeepMarked)", new="p.to_do != PackToDo::Keep && instant_delete"),
    dict(id="C15-repair-index-dry-run-collects", prop="C15", file="crates/core/src/commands/repair/index.rs", old="            (true, true) => info!(\"would have modified index file {index_id}\"),\n            (true, false) => changed_index_files.push((index_id, new_index)),", new="            (true, _) => changed_index_files.push((index_id, new_index)),"),
    dict(id="C15-repair-index-add-unguarded", prop="C15", file="crates/core/src/commands/repair/index.rs", old="                if !dry_run {\n                    // write pack file to index - without the delete mark\n                    indexer.write().unwrap().add_with(pack, false)?;\n                }", new="                indexer.write().unwrap().add_with(pack, false)?;"),
    dict(id="C14-restore-coalesce-from-file", prop="C14", file=RSF, old="           && self.from_file.is_none() //", new="           && other.from_file.is_none() //"),
    dict(id="C01-restore-coalesce-from-file", prop="C01", file=RSF, old="           && self.from_file.is_none() //", new="           && other.from_file.is_none() //"),
]

# ---- C05 check_cache_files
CKF = "crates/core/src/commands/check.rs"
MUTATIONS += [
    dict(id="C05-cache-mismatch-ignored", prop="C05", file=CKF, old="                (Ok(Some(data_cached)), Ok(data)) if data_cached != data => {\n                    collector.add_error(CheckError::CacheMismatch { id, file_type });\n                }\n", new=""),
    dict(id="C05-cache-mismatch-only-length", prop="C05", file=CKF, old="if data_cached != data =>", new="if data_cached.len() != data.len() =>"),
    dict(id="C05-cache-backend-error-is-warning", prop="C05", file=CKF, old="                (_, Err(err)) => {\n                    collector.add_error(CheckError::ErrorReadingFile {", new="                (_, Err(err)) => {\n                    collector.add_warn(CheckError::ErrorReadingFile {"),
]

# ---- C12 merge heap order
TRF = "crates/core/src/blob/tree.rs"
MUTATIONS += [
    dict(id="C12-merge-heap-by-escaped-name", prop="C12", file=TRF, old="            self.0.name().cmp(&other.0.name()).reverse()", new="            self.0.name.cmp(&other.0.name).reverse()"),
    dict(id="C12-merge-heap-not-reversed", prop="C12", file=TRF, old="            self.0.name().cmp(&other.0.name()).reverse()", new="            self.0.name().cmp(&other.0.name())"),
]

# ---- C02 find_used_blobs (typed blob identity)
MUTATIONS += [
    dict(id="C02-used-file-chunks-as-tree", prop="C02", file=PR, old="                            .map(|id| ((BlobType::Data, BlobId::from(**id)), 0)),", new="                            .map(|id| ((BlobType::Tree, BlobId::from(**id)), 0)),"),
    dict(id="C02-used-subtree-as-data", prop="C02", file=PR, old="                    _ = ids.insert((BlobType::Tree, BlobId::from(*node.subtree.unwrap())), 0);", new="                    _ = ids.insert((BlobType::Data, BlobId::from(*node.subtree.unwrap())), 0);"),
    dict(id="C02-used-dirs-ignored", prop="C02", file=PR, old="                NodeType::Dir => {\n                    _ = ids.insert((BlobType::Tree, BlobId::from(*node.subtree.unwrap())), 0);\n                }", new="                NodeType::Dir => {}"),
]

# ---- C02 PackInfo::from_pack
MUTATIONS += [
    dict(id="C02-from-pack-last-copy-not-noticed", prop="C02", file=PR, old="                        return true; // break the search\n", new=""),
    dict(id="C02-from-pack-settle-forgotten", prop="C02", file=PR, old="                        // blob is used in this pack\n                        pi.used_size += blob.location.length;\n                        pi.used_blobs += 1;\n                        *count = 0; // count = 0 indicates to other packs that the blob is not needed anymore.\n", new="                        // blob is used in this pack\n                        pi.used_size += blob.location.length;\n                        pi.used_blobs += 1;\n"),
    dict(id="C02-from-pack-scan-key-untyped-constant", prop="C02", file=PR, old="            let length = blob.location.length;\n            match used_ids.get_mut(&(blob.tpe, blob.id)) {", new="            let length = blob.location.length;\n            match used_ids.get_mut(&(BlobType::Data, blob.id)) {"),
    dict(id="C02-from-pack-count-zero-is-needed", prop="C02", file=PR, old="                    *count -= 1;\n                    if *count == 0 {", new="                    *count -= 1;\n                    if *count == 1 {"),
    dict(id="C02-count-used-key-by-pack-type-constant", prop="C02", file=PR, old="            if let Some(count) = self.used_ids.get_mut(&(blob.tpe, blob.id)) {", new="            if let Some(count) = self.used_ids.get_mut(&(BlobType::Data, blob.id)) {"),
    dict(id="C02-count-used-not-counted", prop="C02", file=PR, old="                *count = count.saturating_add(1);", new="                *count = count.saturating_add(0);"),
]

HARMLESS = [
    dict(id="H-C05-trees-symlink-continue", prop="C05", file=CK, old="        for node in tree.nodes {\n            match node.node_type {", new="        for node in tree.nodes {\n            if node.node_type == NodeType::Symlink {\n                continue;\n            }\n            match node.node_type {"),
    # independent statements reordered
    dict(id="H-C14-addfile-reorder-locals", prop="C14", file=RS, old="        let file_idx = self.names.len();\n        self.names.push(name);\n        let mut file_pos = 0;\n        let mut has_unmatched = false;", new="        let mut has_unmatched = false;\n        let mut file_pos = 0;\n        let file_idx = self.names.len();\n        self.names.push(name);"),
    # renamed local
    dict(id="H-C05-packslist-renamed-local", prop="C05", file=CK, old="    let mut packs_from_be = be.list_with_size(FileType::Pack)?;\n    packs_from_be.sort_by_key(|item| item.0);\n    for (id, size) in packs_from_be {", new="    let mut listed = be.list_with_size(FileType::Pack)?;\n    listed.sort_by_key(|item| item.0);\n    for (id, size) in listed {"),
    # progress call moved
    dict(id="H-C03-archive-progress-finish-earlier", prop="C03", file=ARF, old="        self.indexer.write().unwrap().finalize()?;\n\n        summary.finalize(&self.snap.time);", new="        self.indexer.write().unwrap().finalize()?;\n        p.finish();\n\n        summary.finalize(&self.snap.time);"),
    # equivalent condition
    dict(id="H-C19-write-condition-reordered", prop="C19", file=CAF, old="        if (cacheable || tpe.is_cacheable())\n            && let Err(err) = self.cache.write_bytes(tpe, id, &content)", new="        if (tpe.is_cacheable() || cacheable)\n            && let Err(err) = self.cache.write_bytes(tpe, id, &content)"),
    # early return instead of else
    dict(id="H-C07-packer-addraw-early-return", prop="C07", file=PK, old="        if self.indexer.read().unwrap().has(self.blob_type, id) {\n            Ok(())\n        } else {\n            self.raw_packer\n                .write()\n                .unwrap()\n                .add_raw(data, id, data_len, uncompressed_length)\n        }", new="        if self.indexer.read().unwrap().has(self.blob_type, id) {\n            return Ok(());\n        }\n        self.raw_packer\n            .write()\n            .unwrap()\n            .add_raw(data, id, data_len, uncompressed_length)"),
    # extra logging
    dict(id="H-C02-exec-extra-log", prop="C02", file=PR, old="                PackToDo::Delete => delete_pack(&pack),", new="                PackToDo::Delete => {\n                    debug!(\"deleting pack {}\", pack.id);\n                    delete_pack(&pack);\n                }"),
    # equivalent comparison
    dict(id="H-C18-fromconfig-match-order", prop="C18", file=CHF, old="            Chunker::FixedSize => Self::FixedSize(FixedSizeChunkIter::new(\n                config.chunk_size(),\n                reader,\n                size_hint,\n            )),", new="            Chunker::FixedSize => {\n                let size = config.chunk_size();\n                Self::FixedSize(FixedSizeChunkIter::new(size, reader, size_hint))\n            }"),
]

HARMLESS += [
    dict(id="H-C12-repair-assign-order", prop="C12", file=RSNF, old="                node.content = Some(new_content);\n                node.meta.size = new_size;", new="                node.meta.size = new_size;\n                node.content = Some(new_content);"),
    dict(id="H-C03-repair-progress-var", prop="C03", file=RSNF, old="    modifier.finalize()?;\n\n    for snap in modified_snapshots {", new="    modifier.finalize()?;\n    info!(\"saving {} modified snapshots\", modified_snapshots.len());\n\n    for snap in modified_snapshots {"),
    dict(id="H-C08-raw-finalize-binding", prop="C08", file=PK, old="        self.file_writer.take().unwrap().finalize()?;\n\n        Ok(self.basic.take_stats())", new="        let writer = self.file_writer.take().unwrap();\n        writer.finalize()?;\n\n        Ok(self.basic.take_stats())"),
    dict(id="H-C09-apply-keep-binding", prop="C09", file=FG, old="                    let keep = !reasons.is_empty();\n                    (keep, reasons)", new="                    (!reasons.is_empty(), reasons)"),
    dict(id="H-C01-ta-match-arm-order", prop="C01", file=TA, old="            ParentResult::NotMatched => {\n                debug!(\"changed   file: {}\", filename.display());\n                self.summary.files_changed += 1;\n            }\n            ParentResult::NotFound => {\n                debug!(\"new       file: {}\", filename.display());\n                self.summary.files_new += 1;\n            }", new="            ParentResult::NotFound => {\n                debug!(\"new       file: {}\", filename.display());\n                self.summary.files_new += 1;\n            }\n            ParentResult::NotMatched => {\n                debug!(\"changed   file: {}\", filename.display());\n                self.summary.files_changed += 1;\n            }"),
    dict(id="H-C16-treepacks-inline-type", prop="C16", file=RH, old="            let blob_type = pack.blob_type();\n            if blob_type == BlobType::Tree {", new="            if pack.blob_type() == BlobType::Tree {"),
    dict(id="H-C02-check-neg-cond", prop="C02", file=PR, old="            if *count == 0 {\n                return Err(RusticError::new(\n                    ErrorKind::Internal,\n                    \"Blob ID `{blob_id}` is missing in index files.\",", new="            if *count < 1 {\n                return Err(RusticError::new(\n                    ErrorKind::Internal,\n                    \"Blob ID `{blob_id}` is missing in index files.\","),
]

TRF2 = "crates/core/src/blob/tree.rs"
HARMLESS += [
    # independent statements of the merge loop reordered
    dict(id="H-C12-merge-reset-after-switch", prop="C12", file=TRF2, old="                nodes = Vec::new();\n                // use this node as new node\n                (node, num) = (new_node, new_num);", new="                // use this node as new node\n                (node, num) = (new_node, new_num);\n                nodes = Vec::new();"),
    # from_pack: counters updated in the other order
    dict(id="H-C02-from-pack-counter-order", prop="C02", file=PR, old="                        // blob is used in this pack\n                        pi.used_size += blob.location.length;\n                        pi.used_blobs += 1;", new="                        // blob is used in this pack\n                        pi.used_blobs += 1;\n                        pi.used_size += blob.location.length;"),
    # restore write task: progress before the write
    dict(id="H-C14-write-skip-binding-inline", prop="C14", file=RSF, old="                                if !skip {\n                                    dest.write_at(path, start, &data).unwrap();\n                                }", new="                                if skip {\n                                    // nothing to write\n                                } else {\n                                    dest.write_at(path, start, &data).unwrap();\n                                }"),
]
MUTATIONS += [
    dict(id="C12-merge-loop-switch-keeps-old-input", prop="C12", file=TRF2, old="                nodes = Vec::new();\n                // use this node as new node\n                (node, num) = (new_node, new_num);", new="                nodes = Vec::new();\n                // use this node as new node\n                (node, num) = (new_node, num);"),
    dict(id="C12-merge-loop-last-group-dropped", prop="C12", file=TRF2, old="                // no node left to proceed, merge nodes and quit\n                tree.add(merge_nodes(be, index, nodes, cmp, save, summary)?);\n                break;", new="                // no node left to proceed, merge nodes and quit\n                break;"),
    dict(id="C12-merge-loop-next-from-wrong-input", prop="C12", file=TRF2, old="        if let Some(next_node) = tree_iters[num].next() {", new="        if let Some(next_node) = tree_iters[0].next() {"),
]

FGF = "crates/core/src/commands/forget.rs"
MUTATIONS += [
    dict(id="C09-equal-day-by-day-of-month", prop="C09", file=FGF, old="sn1.time.day_of_year() == sn2.time.day_of_year()", new="sn1.time.day() == sn2.time.day()"),
]
HARMLESS += [
    # the same day, expressed by month and day of month
    dict(id="H-C09-equal-day-by-month-and-day", prop="C09", file=FGF, old="equal_year(sn1, sn2) && sn1.time.day_of_year() == sn2.time.day_of_year()", new="equal_month(sn1, sn2) && sn1.time.day() == sn2.time.day()"),
]

CAF = "crates/core/src/backend/cache.rs"
MUTATIONS += [
    dict(id="C19-cache-read-partial-from-start", prop="C19", file=CAF, old="            .seek(SeekFrom::Start(u64::from(offset)))", new="            .seek(SeekFrom::Start(0))"),
    dict(id="C19-cache-read-partial-short-hit", prop="C19", file=CAF, old="        let mut vec = vec![0; length as usize];\n\n        file.read_exact(&mut vec).map_err(|err| {", new="        let mut vec = Vec::with_capacity(length as usize);\n\n        _ = file.take(u64::from(length)).read_to_end(&mut vec).map_err(|err| {"),
]

MUTATIONS += [
    # adapter-free form of seeded change C05-8: a file chunk that is only indexed as TREE blob is accepted
    dict(id="C05-trees-data-blob-found-as-tree", prop="C05", file=CKF, old="                            match index.get_data(id) {", new="                            match index.get_data(id).or(index.get_id(BlobType::Tree, &BlobId::from(**id))) {"),
    dict(id="C03-prune-early-delete-without-instant", prop="C03", file=PR, old="    let early_delete_index = opts.early_delete_index && opts.instant_delete;", new="    let early_delete_index = opts.early_delete_index;"),
]

MUTATIONS += [
    dict(id="C08-from-binary-offset-of-previous-blob", prop="C08", file=PFILE, old="                Ok(entry) => entry.into_blob(offset),", new="                Ok(entry) => entry.into_blob(offset.saturating_sub(1)),"),
    dict(id="C08-from-binary-offset-counts-entries", prop="C08", file=PFILE, old="            offset += blob.location.length;\n            blobs.push(blob);", new="            offset += 1;\n            blobs.push(blob);"),
]

PKF2 = "crates/core/src/blob/packer.rs"
MUTATIONS += [
    # regression of defect 10 in the pipeline filter: the other packer's type is asked
    dict(id="C07-packer-filter-untyped", prop="C07", file=PKF2, old="                    .filter(|(_, id)| !indexer.read().unwrap().has(blob_type, id))\n                    .filter(|(_, id)| !raw_packer", new="                    .filter(|(_, id)| !indexer.read().unwrap().has(BlobType::Data, id))\n                    .filter(|(_, id)| !raw_packer"),
    dict(id="C07-packer-filter-inverted", prop="C07", file=PKF2, old="                    .filter(|(_, id)| !indexer.read().unwrap().has(blob_type, id))\n                    .filter(|(_, id)| !raw_packer", new="                    .filter(|(_, id)| indexer.read().unwrap().has(blob_type, id))\n                    .filter(|(_, id)| !raw_packer"),
]

FAF = "crates/core/src/archiver/file_archiver.rs"
MUTATIONS += [
    dict(id="C07-chunk-uploaded-although-known", prop="C07", file=FAF, old="            if !self.index.has_data(&DataId::from(id)) {\n                self.data_packer.add(chunk.into(), BlobId::from(id))?;\n            }", new="            self.data_packer.add(chunk.into(), BlobId::from(id))?;"),
    dict(id="C07-chunk-skipped-although-new", prop="C07", file=FAF, old="            if !self.index.has_data(&DataId::from(id)) {", new="            if self.index.has_data(&DataId::from(id)) {"),
    dict(id="C07-chunk-size-off", prop="C07", file=FAF, old="            let size = chunk.len() as u64;", new="            let size = chunk.len() as u64 + 1;"),
]

MUTATIONS += [
    dict(id="C02-plan-new-duplicate-kept", prop="C02", file=PR, old="                        let no_duplicate = processed_packs.insert(p.id);\n                        modified |= !no_duplicate;\n                        no_duplicate", new="                        let no_duplicate = processed_packs.insert(p.id);\n                        modified |= !no_duplicate;\n                        true"),
    dict(id="C02-plan-new-marked-live-kept-unmodified", prop="C02", file=PR, old="                    let duplicate = processed_packs.contains(&p.id);\n                    modified |= duplicate;\n                    !duplicate", new="                    let duplicate = processed_packs.contains(&p.id);\n                    !duplicate"),
]

RSF3 = "crates/core/src/commands/restore.rs"
MUTATIONS += [
    dict(id="C16-restore-warmup-after-read", prop="C16", file=RSF3, old="    repo.warm_up_wait(file_infos.to_packs().into_iter())?;\n    restore_contents(", new="    restore_contents("),
    dict(id="C16-check-warmup-dropped", prop="C16", file=CKF, old="        repo.warm_up_wait(packs.iter().map(|pack| pack.id))?;\n\n        let total_pack_size", new="        if packs.is_empty() {\n            repo.warm_up_wait(packs.iter().map(|pack| pack.id))?;\n        }\n\n        let total_pack_size"),
]

MUTATIONS += [
    dict(id="C16-repair-index-warmup-after-headers", prop="C16", file="crates/core/src/commands/repair/index.rs", old="    repo.warm_up_wait(pack_read_header.iter().map(|(id, _, _)| *id))?;\n\n    let indexer = Indexer::new(be.clone()).into_shared();\n    let p = repo.progress_counter(\"reading pack headers\");\n", new="    let indexer = Indexer::new(be.clone()).into_shared();\n    let p = repo.progress_counter(\"reading pack headers\");\n    if dry_run {\n        repo.warm_up_wait(pack_read_header.iter().map(|(id, _, _)| *id))?;\n    }\n"),
]

HARMLESS += [
    # progress reported before the write instead of after it
    dict(id="H-C14-write-progress-first", prop="C14", file=RSF, old="                                drop(sizes_guard);\n", new="                                drop(sizes_guard);\n                                p.inc(size);\n"),
]

CPYF2 = "crates/core/src/commands/copy.rs"
MUTATIONS += [
    dict(id="C12-copy-subtrees-not-collected", prop="C12", file=CPYF2, old="                NodeType::Dir => {\n                    tree_ids.extend(node.subtree.into_iter().filter(filter_tree));\n                }", new="                NodeType::Dir => {}"),
    dict(id="C12-copy-symlinks-treated-as-files-only", prop="C12", file=CPYF2, old="                NodeType::File => {\n                    data_ids.extend(node.content.into_iter().flatten().filter(filter_data));", new="                NodeType::Symlink { .. } => {\n                    data_ids.extend(node.content.into_iter().flatten().filter(filter_data));"),
]

MUTATIONS += [
    dict(id="C16-prune-warmup-only-instant", prop="C16", file=PR, old="    repo.warm_up_wait(prune_plan.repack_packs().into_iter())?;\n", new="    if opts.instant_delete {\n        repo.warm_up_wait(prune_plan.repack_packs().into_iter())?;\n    }\n"),
]

MUTATIONS += [
    dict(id="C16-restore-warmup-for-the-wrong-packs", prop="C16", file=RSF, old="            .filter(|(_, fls)| fls.iter().all(|fl| !fl.matches))", new="            .filter(|(_, fls)| !fls.iter().all(|fl| !fl.matches))"),
    dict(id="C14-restore-read-drops-source-file", prop="C14", file=RSF, old="                pack_id,\n                from_file,\n                locations: BlobLocations::from_blob_location(bl, name_dests),", new="                pack_id,\n                from_file: None,\n                locations: BlobLocations::from_blob_location(bl, name_dests),"),
]

RIXF = "crates/core/src/commands/repair/index.rs"
MUTATIONS += [
    dict(id="C12-check-pack-queued-with-index-size", prop="C12", file=RIXF, old="                            Some(PackHeaderRef::from_index_pack(&p).size()),\n                            size,", new="                            Some(PackHeaderRef::from_index_pack(&p).size()),\n                            index_size,"),
    dict(id="C08-check-pack-queued-with-index-size", prop="C08", file=RIXF, old="                            Some(PackHeaderRef::from_index_pack(&p).size()),\n                            size,", new="                            Some(PackHeaderRef::from_index_pack(&p).size()),\n                            index_size,"),
    dict(id="C04-from-file-longer-pack-accepted", prop="C04", file=PFILE, old="header.pack_size() != pack_size", new="header.pack_size() > pack_size"),
]

KFF = "crates/core/src/repofile/keyfile.rs"
MUTATIONS += [
    dict(id="C04-generate-params-swapped", prop="C04", file=KFF, old="            r: params.r(),\n            p: params.p(),", new="            r: params.p(),\n            p: params.r(),"),
    dict(id="C04-generate-salt-after-derivation", prop="C04", file=KFF, old="        let key = Key::from_slice(&key);\n\n        let json_byte_vec", new="        let key = Key::from_slice(&key);\n        rng().fill_bytes(&mut salt);\n\n        let json_byte_vec"),
]

MUTATIONS += [
    dict(id="C07-archiver-indexer-forgets", prop="C07", file="crates/core/src/archiver.rs", old="        let indexer = Indexer::new(be.clone()).into_shared();", new="        let indexer = Indexer::new_unindexed(be.clone()).into_shared();"),
]

MUTATIONS += [
    dict(id="C11-pred-type-only-dir-or-not", prop="C11", file=PA, old="p_node.node_type == node.node_type", new="p_node.is_dir() == node.is_dir()"),
]

HARMLESS += [
    # the inode switch with the other polarity (compare inodes unless the user asked to ignore them): the statement of C11 does not
    # mention the inode, either polarity keeps the property
    dict(id="H-C11-inode-switch-other-polarity", prop="C11", file=PA, old="                let match_inode = !ignore_inode\n", new="                let match_inode = ignore_inode\n"),
]

CFF = "crates/core/src/repofile/configfile.rs"
HARMLESS += [
    # other defaults for unnamed settings: not part of C18
    dict(id="H-C18-default-datapack-size", prop="C18", file=CFF, old="    pub(super) const DEFAULT_DATA_SIZE: u32 = 32 * MB;", new="    pub(super) const DEFAULT_DATA_SIZE: u32 = 64 * MB;"),
    dict(id="H-C18-default-min-percentage", prop="C18", file=CFF, old="    pub(super) const DEFAULT_MIN_PERCENTAGE: u32 = 30;", new="    pub(super) const DEFAULT_MIN_PERCENTAGE: u32 = 25;"),
]

HARMLESS += [
    dict(id="H-C18-default-chunk-size", prop="C18", file=CFF, old="    pub(super) const DEFAULT_CHUNK_SIZE: usize = 1024 * 1024;", new="    pub(super) const DEFAULT_CHUNK_SIZE: usize = 2 * 1024 * 1024;"),
]

MUTATIONS += [
    dict(id="C08-actor-pack-id-of-default", prop="C08", file=PK, old="                        (file, PackId::from(id), index)", new="                        (file, index.id, index)"),
]

DMPF = "crates/core/src/commands/dump.rs"
MUTATIONS += [
    dict(id="C01-dump-blob-written-twice", prop="C01", file=DMPF, old="        write_blob(w, &data)?;\n    }\n    Ok(())", new="        write_blob(w, &data)?;\n        write_blob(w, &data)?;\n    }\n    Ok(())"),
    dict(id="C01-dump-error-swallowed", prop="C01", file=DMPF, old="        write_blob(w, &data)?;\n    }\n    Ok(())", new="        _ = write_blob(w, &data);\n    }\n    Ok(())"),
]

INIF = "crates/core/src/commands/init.rs"
MUTATIONS += [
    dict(id="C18-init-creates-before-validating", prop="C18", file=INIF, old="    config_opts.apply(&mut config)?;\n\n    let (key, key_id) = init_with_config(repo, credentials, key_opts, &config)?;", new="    let (key, key_id) = init_with_config(repo, credentials, key_opts, &config)?;\n    config_opts.apply(&mut config)?;\n"),
    dict(id="C18-init-ignores-refusal", prop="C18", file=INIF, old="    config_opts.apply(&mut config)?;\n\n    let (key, key_id)", new="    _ = config_opts.apply(&mut config);\n\n    let (key, key_id)"),
]

MUTATIONS += [
    dict(id="C03-prune-repacker-error-swallowed", prop="C03", file=PR, old="        _ = data_repacker.finalize()?;\n        indexer.write().unwrap().finalize()?;", new="        _ = data_repacker.finalize();\n        indexer.write().unwrap().finalize()?;"),
    dict(id="C03-copy-blobs-finalize-error-swallowed", prop="C03", file="crates/core/src/commands/copy.rs", old="    _ = copier.finalize()?;\n    p.finish();", new="    _ = copier.finalize();\n    p.finish();"),
]

MUTATIONS += [
    dict(id="C04-init-key-constant", prop="C04", file="crates/core/src/commands/key.rs", old="    let key = Key::new();", new="    let key = Key::default();"),
    dict(id="C14-matching-file-longer-accepted", prop="C14", file="crates/core/src/backend/local_destination.rs", old="                if meta.is_file() && meta.len() == size {", new="                if meta.is_file() && meta.len() >= size {"),
    dict(id="C07-has-only-while-collecting", prop="C07", file="crates/core/src/index/indexer.rs", old="        self.indexed\n            .as_ref()\n            .is_some_and(|indexed| indexed.contains(&(tpe, *id)))", new="        self.count > 0\n            && self\n                .indexed\n                .as_ref()\n                .is_some_and(|indexed| indexed.contains(&(tpe, *id)))"),
    dict(id="C02-marked-only-index-not-saved", prop="C02", file="crates/core/src/index/indexer.rs", old="        if (self.file.packs.len() + self.file.packs_to_delete.len()) > 0 {", new="        if !self.file.packs.is_empty() {"),
]

PKR13 = "crates/core/src/blob/packer.rs"
MUTATIONS += [
    # the writer thread swallows a failed pack write (only successfully written packs are indexed, the status stays Ok)
    dict(id="C03-writer-thread-skips-failed-pack", prop="C03", file=PKR13, old="                    .try_for_each(|index| fwh.index(index?));", new="                    .try_for_each(|index| { if let Ok(index) = index { fwh.index(index)?; } Ok(()) });"),
    # the writer thread always reports success
    dict(id="C03-writer-thread-reports-ok", prop="C03", file=PKR13, old="                    .try_for_each(|index| fwh.index(index?));\n                _ = finish_tx.send(status);", new="                    .try_for_each(|index| fwh.index(index?));\n                let _unused = status;\n                _ = finish_tx.send(Ok(()));"),
]
HARMLESS += [
    dict(id="H-C03-writer-status-typed", prop="C03", file=PKR13, old="                let status = rx\n                    .into_iter()\n                    .readahead_scoped(scope)\n                    .map(", new="                let status: RusticResult<()> = rx\n                    .into_iter()\n                    .readahead_scoped(scope)\n                    .map("),
]

BS13 = "crates/core/src/index/binarysorted.rs"
MUTATIONS += [
    # pack iteration hands every blob back typed Data
    dict(id="C17-packs-back-all-typed-data", prop="C17", file=BS13, old="                    id: entry.id,\n                    tpe: self.tpe,", new="                    id: entry.id,\n                    tpe: BlobType::Data,"),
    # pack iteration stops one blob early
    dict(id="C17-packs-back-last-blob-dropped", prop="C17", file=BS13, old="            while *idx < entries.len() && entries[*idx].pack_idx == *pack_idx {", new="            while *idx + 1 < entries.len() && entries[*idx].pack_idx == *pack_idx {"),
]
HARMLESS += [
    # entries from *idx on never belong to an earlier pack: `<=` selects the same run
    dict(id="H-C17-packs-back-le", prop="C17", file=BS13, old="            while *idx < entries.len() && entries[*idx].pack_idx == *pack_idx {", new="            while *idx < entries.len() && entries[*idx].pack_idx <= *pack_idx {"),
]

MUTATIONS += [
    # the blob thread reports success without finalizing the raw packer (the open pack is never flushed)
    dict(id="C03-blob-thread-no-finalize", prop="C03", file=PKR13, old="                    .and_then(|()| raw_packer.write().unwrap().finalize());", new="                    .and_then(|()| Ok(PackerStats::default()));"),
    # the blob thread drops blobs whose processing failed and goes on
    dict(id="C03-blob-thread-skips-failed-blob", prop="C03", file=PKR13, old="                        let (data, id, data_len, ul) = item?;\n", new="                        let Ok((data, id, data_len, ul)) = item else { return Ok(()) };\n"),
]
HARMLESS += [
    dict(id="H-C03-blob-thread-item-binding", prop="C03", file=PKR13, old="                        let (data, id, data_len, ul) = item?;\n", new="                        let item = item?;\n                        let (data, id, data_len, ul) = item;\n"),
]

PAR13 = "crates/core/src/archiver/parent.rs"
MUTATIONS += [
    # a file is reused as soon as ONE of the parent's chunks is in the index
    dict(id="C11-reuse-if-any-chunk-indexed", prop="C11", file=PAR13, old="                        if p_node.content.iter().flatten().all(|id| index.has_data(id)) {", new="                        if p_node.content.iter().flatten().any(|id| index.has_data(id)) {"),
    # the index test is dropped: a parent whose chunks were pruned is reused
    dict(id="C11-reuse-without-index-test", prop="C11", file=PAR13, old="                        if p_node.content.iter().flatten().all(|id| index.has_data(id)) {", new="                        if p_node.content.is_some() {"),
    # when chunks are missing the parent's content is taken anyway before the file is re-read
    dict(id="C11-content-copied-before-test", prop="C11", file=PAR13, old="                    ParentResult::Matched(p_node) => {\n                        if p_node", new="                    ParentResult::Matched(p_node) => {\n                        node.content.clone_from(&p_node.content);\n                        if p_node"),
]
HARMLESS += [
    # the clone is made before the test but assigned only when the test succeeds
    dict(id="H-C11-reuse-test-bound-first", prop="C11", file=PAR13, old="                        if p_node.content.iter().flatten().all(|id| index.has_data(id)) {", new="                        let all_indexed = p_node.content.iter().flatten().all(|id| index.has_data(id));\n                        if all_indexed {"),
]

MUTATIONS += [
    # leaving a directory pops the stack but keeps looking things up in the sub-directory's parent trees
    dict(id="C11-finish-dir-keeps-subtree", prop="C11", file=PAR13, old="        let tree = self.stack.pop().ok_or(TreeStackEmptyError)?;\n        self.trees = tree;", new="        let _tree = self.stack.pop().ok_or(TreeStackEmptyError)?;"),
]

RSN13 = "crates/core/src/commands/repair/snapshots.rs"
MUTATIONS += [
    # dry run of repair snapshots still saves the modified snapshots
    dict(id="C15-repair-snapshots-dry-run-saves", prop="C15", file=RSN13, old="                if dry_run {\n                    info!(\"would have modified snapshot {snap_id}.\");\n                } else {\n                    modified_snapshots.push(snap);\n                }", new="                if dry_run {\n                    info!(\"would have modified snapshot {snap_id}.\");\n                }\n                modified_snapshots.push(snap);"),
    # dry run of repair snapshots --delete removes the damaged snapshots
    dict(id="C15-repair-snapshots-dry-run-deletes", prop="C15", file=RSN13, old="    if opts.delete {\n        if dry_run {\n            info!(\"would have removed {} snapshots.\", state.delete.len());\n        } else {", new="    if opts.delete {\n        if dry_run {\n            info!(\"would have removed {} snapshots.\", state.delete.len());\n        }\n        {"),
    # the tree modifier is created as a writing one even in a dry run
    dict(id="C15-repair-snapshots-modifier-not-dry", prop="C15", file=RSN13, old="    let modifier = TreeModifier::new(be, repo.index(), config_file, dry_run)?;", new="    let modifier = TreeModifier::new(be, repo.index(), config_file, false)?;"),
]

HC13 = "crates/core/src/commands/repair/hotcold.rs"
MUTATIONS += [
    # dry run of the hot/cold repair copies the files missing in the hot part anyway
    dict(id="C15-hotcold-dry-run-copies", prop="C15", file=HC13, old="    if !missing_hot.is_empty() {\n        if dry_run {", new="    if !missing_hot.is_empty() {\n        if dry_run && missing_hot.len() > 100 {"),
]

MUTATIONS += [
    # rewrite --dry-run --forget still forgets the original snapshots
    dict(id="C15-rewrite-dry-run-forgets", prop="C15", file="crates/core/src/commands/rewrite.rs", old="    if !snapshots.is_empty() && !opts.dry_run {", new="    if !snapshots.is_empty() && (!opts.dry_run || opts.forget) {"),
]

CA13 = "crates/core/src/backend/cache.rs"
MUTATIONS += [
    # the cache entry is written directly under its real name (a failed write leaves a truncated entry)
    dict(id="C19-cache-write-without-tmp", prop="C19", file=CA13, old="        match write_local_file(&filename_tmp, content.clone().reader()) {", new="        match write_local_file(&filename, content.clone().reader()) {"),
    # the temporary file is not cleaned up... and renamed anyway on error
    dict(id="C19-cache-write-renames-after-error", prop="C19", file=CA13, old="                _ = fs::remove_file(&filename_tmp);\n                return Err(err);", new="                _ = fs::rename(&filename_tmp, &filename);\n                return Err(err);"),
    # Cache::remove removes the entry of the same id under another file type
    dict(id="C19-cache-remove-wrong-type", prop="C19", file=CA13, old="        trace!(\"cache writing tpe: {tpe:?}, id: {id}\");\n        let filename = self.path(tpe, id);\n        fs::remove_file(&filename)", new="        trace!(\"cache writing tpe: {tpe:?}, id: {id}\");\n        let filename = self.path(FileType::Pack, id);\n        fs::remove_file(&filename)"),
]
HARMLESS += [
    # file name computed before the directory is created
    dict(id="H-C19-cache-write-name-first", prop="C19", file=CA13, old="        let filename = self.path(tpe, id);\n        let filename_tmp = dir.join(id.to_hex().to_string() + \"-tmp-\");", new="        let filename_tmp = dir.join(id.to_hex().to_string() + \"-tmp-\");\n        let filename = self.path(tpe, id);"),
]

RS13 = "crates/core/src/commands/restore.rs"
MUTATIONS += [
    # restore --dry-run creates the missing directories
    dict(id="C14-dry-run-creates-dirs", prop="C14", file=RS13, old="                    debug!(\"to restore: {}\", path.display());\n                    if !dry_run {\n                        dest.create_dir(path)", new="                    debug!(\"to restore: {}\", path.display());\n                    {\n                        dest.create_dir(path)"),
    # a file that exists in the destination is never planned (its content is not compared with the snapshot)
    dict(id="C14-existing-file-not-planned", prop="C14", file=RS13, old="                // collect blobs needed for restoring\n                match (", new="                // collect blobs needed for restoring\n                if exists {\n                    return Ok(());\n                }\n                match ("),
    # the first file of a hard-link group is skipped as well
    dict(id="C14-first-hardlink-not-planned", prop="C14", file=RS13, old="                            _ = entry.insert(path.clone());\n                        }", new="                            _ = entry.insert(path.clone());\n                            return Ok(());\n                        }"),
]
HARMLESS += [
    dict(id="H-C14-process-node-exists-first", prop="C14", file=RS13, old="                if exists {\n                    stats.dirs.modify += 1;\n                    trace!(\"existing dir {}\", path.display());\n                } else {", new="                if exists {\n                    trace!(\"existing dir {}\", path.display());\n                    stats.dirs.modify += 1;\n                } else {"),
]

MUTATIONS += [
    # an unreadable cache entry makes the cached read_full fail although the backend has the file
    dict(id="C19-cache-error-fails-read-full", prop="C19", file=CA13, old="            match self.cache.read_full(tpe, id) {\n                Ok(Some(data)) => return Ok(data),\n                Ok(None) => {}\n                Err(err) => warn!(\n                    \"Error in cache backend reading {tpe:?},{id}: {}\",\n                    err.display_log()\n                ),\n            }", new="            match self.cache.read_full(tpe, id) {\n                Ok(Some(data)) => return Ok(data),\n                Ok(None) => {}\n                Err(err) => return Err(err),\n            }"),
]

KC13 = "crates/core/src/commands/key.rs"
MUTATIONS += [
    # a password added to an open repository wraps a NEW key instead of the repository's master key
    dict(id="C04-add-key-wraps-fresh-key", prop="C04", file=KC13, old="    let key = repo.dbe().key();\n    add_key_to_repo(repo, opts, pass, *key)", new="    let _key = repo.dbe().key();\n    add_key_to_repo(repo, opts, pass, Key::new())"),
    # the key file is stored under the id of the master key bytes' hash... of something else than its content
    dict(id="C04-key-file-id-not-its-hash", prop="C04", file=KC13, old="    let id = KeyId::from(hash(&data));\n\n    repo.be", new="    let id = KeyId::default();\n\n    repo.be"),
]

MUTATIONS += [
    # the late filter of the packer thread drops processing errors (a failed compression/encryption is silently skipped)
    dict(id="C07-late-filter-drops-errors", prop="C07", file=PKR13, old="                            .map_or_else(|_| true, |(_, id, _, _)| !indexer.read().unwrap().has(blob_type, id))", new="                            .map_or_else(|_| false, |(_, id, _, _)| !indexer.read().unwrap().has(blob_type, id))"),
    # the open-pack filter is inverted: only blobs that are already in the open pack get through
    dict(id="C07-open-pack-filter-inverted", prop="C07", file=PKR13, old="                    .filter(|(_, id)| !raw_packer.read().unwrap().has(id))", new="                    .filter(|(_, id)| raw_packer.read().unwrap().has(id))"),
]

WU13 = "crates/core/src/repository/warm_up.rs"
MUTATIONS += [
    # without a warm-up command nothing is requested even though the backend needs warm-up
    dict(id="C16-warm-up-only-with-command", prop="C16", file=WU13, old="        } else if repo.be.needs_warm_up() {\n            warm_up_repo(repo, tpe, ids)?;\n        }", new="        } else if repo.be.needs_warm_up() && ids.len() > 1 {\n            warm_up_repo(repo, tpe, ids)?;\n        }"),
    # warm_up_wait waits without having requested
    dict(id="C16-warm-up-wait-skips-request", prop="C16", file=WU13, old="    if ids.len() > 0 {\n        warm_up(repo, tpe, ids.clone())?;\n", new="    if ids.len() > 0 {\n        if repo.opts.warm_up_wait_command.is_none() {\n            warm_up(repo, tpe, ids.clone())?;\n        }\n"),
    # the warm-up loop requests only while the previous request succeeded
    dict(id="C16-warm-up-loop-stops-at-error", prop="C16", file=WU13, old="                if let Err(err) = backend.warm_up(tpe, &id) {\n                    // FIXME: Use error handling\n                    error!(\"warm-up failed for id {id:?}. {}\", err.display_log());\n                }\n                progress_bar_ref.inc(1);\n            });\n        }", new="                if let Err(err) = backend.warm_up(tpe, &id) {\n                    // FIXME: Use error handling\n                    error!(\"warm-up failed for id {id:?}. {}\", err.display_log());\n                }\n                progress_bar_ref.inc(1);\n            });\n            break;\n        }"),
]
HARMLESS += [
    dict(id="H-C16-warm-up-progress-first", prop="C16", file=WU13, old="                if let Err(err) = backend.warm_up(tpe, &id) {\n                    // FIXME: Use error handling\n                    error!(\"warm-up failed for id {id:?}. {}\", err.display_log());\n                }\n                progress_bar_ref.inc(1);", new="                progress_bar_ref.inc(1);\n                if let Err(err) = backend.warm_up(tpe, &id) {\n                    // FIXME: Use error handling\n                    error!(\"warm-up failed for id {id:?}. {}\", err.display_log());\n                }"),
]

MUTATIONS += [
    # a recorded pack size is ignored: the size is always derived from the blob list (wrong for packs with padding/foreign layout)... and vice versa: derived size forgets the 4-byte length field
    dict(id="C08-indexpack-size-uses-header-size", prop="C08", file="crates/core/src/repofile/indexfile.rs", old="            .unwrap_or_else(|| PackHeaderRef::from_index_pack(self).pack_size())", new="            .unwrap_or_else(|| PackHeaderRef::from_index_pack(self).size())"),
]

HARMLESS += [
    # decrypt_data with split_at instead of two range indexings, the length guard kept
    dict(id="H-C04-decrypt-split-at", prop="C04", file="crates/core/src/crypto/aespoly1305.rs", old="        let nonce = Nonce::from_slice(&data[0..16]);\n        Aes256CtrPoly1305Aes::new(&self.0)\n            .decrypt(nonce, &data[16..])", new="        let (nonce, ciphertext) = data.split_at(16);\n        let nonce = Nonce::from_slice(nonce);\n        Aes256CtrPoly1305Aes::new(&self.0)\n            .decrypt(nonce, ciphertext)"),
]

TA13 = "crates/core/src/archiver/tree_archiver.rs"
MUTATIONS += [
    # the snapshot's root is taken from the parent snapshot whenever there is one
    dict(id="C01-root-tree-from-parent", prop="C01", file=TA13, old="        let id = self.backup_tree(&PathBuf::new(), &parent)?;\n        let stats = self.tree_packer.finalize()?;", new="        let id = self.backup_tree(&PathBuf::new(), &parent)?;\n        let id = parent_tree.unwrap_or(id);\n        let stats = self.tree_packer.finalize()?;"),
]

MUTATIONS += [
    # Actor::finalize reports success when the writer thread reported an error ("already logged")
    dict(id="C03-actor-finalize-swallows-status", prop="C03", file=PKR13, old="        self.finish.recv().unwrap()\n", new="        _ = self.finish.recv().unwrap();\n        Ok(())\n"),
    # BlobCopier::finalize ignores its packer's status
    dict(id="C03-copier-finalize-default-stats", prop="C03", file=PKR13, old="    pub fn finalize(self) -> RusticResult<PackerStats> {\n        self.packer.finalize()\n    }", new="    pub fn finalize(self) -> RusticResult<PackerStats> {\n        match self.packer.finalize() {\n            Ok(stats) => Ok(stats),\n            Err(_) => Ok(PackerStats::default()),\n        }\n    }"),
]

LB13 = "crates/backend/src/local.rs"
MUTATIONS += [
    # the directory backend writes directly under the final name (an interrupted or failed write leaves a listed partial file)
    dict(id="C20-local-write-without-tmp", prop="C20", file=LB13, old="        match write_local_file(\n            &filename_tmp,", new="        match write_local_file(\n            &filename,"),
    # a failed write publishes the partial temporary file anyway
    dict(id="C20-local-write-renames-after-error", prop="C20", file=LB13, old="                _ = fs::remove_file(&filename_tmp);\n                return Err(err);", new="                _ = fs::rename(&filename_tmp, &filename);\n                return Err(err);"),
    # ranged reads ignore the offset
    dict(id="C20-local-read-partial-no-seek", prop="C20", file=LB13, old="        _ = file.seek(SeekFrom::Start(offset.into())).map_err(|err| {", new="        _ = file.seek(SeekFrom::Start(0)).map_err(|err| {"),
    # remove reports success although the file could not be removed
    dict(id="C20-local-remove-ignores-error", prop="C20", file=LB13, old="        fs::remove_file(&filename).map_err(|err|\n            RusticError::with_source(\n                ErrorKind::Backend,\n                \"Failed to remove the file `{path}`. Was the file already removed or is it in use? Please check the file and remove it manually.\",\n                err\n            )\n            .attach_context(\"path\", filename.to_string_lossy())\n        )?;", new="        _ = fs::remove_file(&filename);"),
    # full reads of index files look into the pack directory
    dict(id="C20-local-read-full-wrong-type", prop="C20", file=LB13, old="        Ok(fs::read(self.path(tpe, id))", new="        Ok(fs::read(self.path(FileType::Pack, id))"),
]
HARMLESS += [
    dict(id="H-C20-local-write-name-order", prop="C20", file=LB13, old="        let filename = self.path(tpe, id);\n\n        let parent = self.base_path(tpe, id);", new="        let parent = self.base_path(tpe, id);\n\n        let filename = self.path(tpe, id);"),
]

HARMLESS += [
    # add_file: early `continue` for a matched blob, the position still advanced
    dict(id="H-C14-addfile-continue", prop="C14", file=RS13, old="            if matches {\n                self.matched_size += length;\n            } else {\n                self.restore_size += length;\n                has_unmatched = true;\n            }\n\n            file_pos += length;", new="            if matches {\n                self.matched_size += length;\n                file_pos += length;\n                continue;\n            }\n            self.restore_size += length;\n            has_unmatched = true;\n            file_pos += length;"),
]

MUTATIONS += [
    # the listing with sizes also reports directories / other non-regular entries whose name looks like an id
    dict(id="C20-local-list-size-zero-on-error", prop="C20", file=LB13, old="            let length = length(entry.metadata(), &name, tpe)?;\n\n            Some((id, length))", new="            let length = length(entry.metadata(), &name, tpe).unwrap_or_default();\n\n            Some((id, length))"),
]

MUTATIONS += [
    # the listing with sizes reports directories and other non-regular entries whose name is an id
    dict(id="C20-local-list-reports-non-files", prop="C20", file=LB13, old="            if !entry.file_type().is_file() {\n                return None;\n            }\n            let name = entry.file_name().to_string_lossy();\n            let id = Id::parse_some(&name, tpe)?;\n            let length", new="            let name = entry.file_name().to_string_lossy();\n            let id = Id::parse_some(&name, tpe)?;\n            let length"),
]

MUTATIONS += [
    # the plain listing reports directories whose name is an id
    dict(id="C20-local-list-ids-reports-non-files", prop="C20", file=LB13, old="                if !entry.file_type().is_file() {\n                    return None;\n                }\n                let name = entry.file_name().to_string_lossy();\n                Id::parse_some(&name, tpe)", new="                let name = entry.file_name().to_string_lossy();\n                Id::parse_some(&name, tpe)"),
]

MUTATIONS += [
    # the defect fixed in ad06c3b, put back: end of the byte range computed in u32
    dict(id="C20-opendal-range-end-in-u32", prop="C20", file="crates/backend/src/opendal.rs", old="        let range = u64::from(offset)..u64::from(offset) + u64::from(length);", new="        let range = u64::from(offset)..u64::from(offset + length);"),
    # object-store ranged read starts at 0
    dict(id="C20-opendal-range-from-zero", prop="C20", file="crates/backend/src/opendal.rs", old="        let range = u64::from(offset)..u64::from(offset) + u64::from(length);", new="        let range = 0..u64::from(offset) + u64::from(length);"),
]

MUTATIONS += [
    # entering a directory forgets to push the current parent trees (leaving it later restores the wrong level)
    dict(id="C11-set-dir-no-push", prop="C11", file=PAR13, old="        let old_tree = std::mem::replace(&mut self.trees, new_tree);\n        self.stack.push(old_tree);", new="        let _old_tree = std::mem::replace(&mut self.trees, new_tree);"),
]

MUTATIONS += [
    # the object-store listing with sizes reports directory placeholders (non-file entries) whose name is an id
    dict(id="C20-opendal-list-reports-non-files", prop="C20", file="crates/backend/src/opendal.rs", old="                if !metadata.is_file() {\n                    return None;\n                }\n                let name = entry.name();", new="                let name = entry.name();"),
]

CK13 = "crates/core/src/commands/check.rs"
MUTATIONS += [
    # the tree walk of check ends silently at the first tree that cannot be loaded
    dict(id="C05-tree-walk-stops-at-unreadable-tree", prop="C05", file=CK13, old="    while let Some(item) = tree_streamer.next().transpose()? {\n        let (path, tree) = item;", new="    while let Some(Ok((path, tree))) = tree_streamer.next() {"),
]
PR13 = "crates/core/src/commands/prune.rs"
MUTATIONS += [
    # marked packs are deleted one keep-delete period too early (comparison against now + keep_delete)
    dict(id="C02-keep-delete-added-instead-of-subtracted", prop="C02", file=PR13, old="                                    if self.time.saturating_sub(keep_delete).timestamp()", new="                                    if self.time.saturating_add(keep_delete).timestamp()"),
]

MUTATIONS += [
    # copy does not walk the snapshots' trees at all when looking for the blobs to copy (only the root trees are copied)
    dict(id="C12-copy-walks-no-tree", prop="C12", file="crates/core/src/commands/copy.rs", old="    let mut tree_streamer = TreeStreamerOnce::new(be, index, snap_trees, p)?;", new="    let mut tree_streamer = TreeStreamerOnce::new(be, index, Vec::new(), p)?;"),
]

HARMLESS += [
    # behaviour-preserving (found as an 'equivalent mutant' when the proof of restore_write_blob was made trigger-independent: it had
    # only been "caught" by a brittle instantiation): re-allocating the file to the same length before every blob keeps its content
    dict(id="H-C14-write-no-alloc-reset", prop="C14", file=RSF, old="                                    dest.set_length(path, filesize).unwrap();\n                                    sizes_guard[file_idx] = 0;\n", new="                                    dest.set_length(path, filesize).unwrap();\n"),
]

MUTATIONS += [
    # the cache's temporary file is opened without truncation: a longer left-over temporary file leaves its tail in the entry
    dict(id="C19-cache-tmp-not-truncated", prop="C19", file=CA13, old="                .create(true)\n                .truncate(true)\n                .write(true)\n                .open(filename)\n                .map_err(|err| {\n                    RusticError::with_source(\n                        ErrorKind::InputOutput,\n                        \"Failed to open the file `{path}`.\",", new="                .create(true)\n                .write(true)\n                .open(filename)\n                .map_err(|err| {\n                    RusticError::with_source(\n                        ErrorKind::InputOutput,\n                        \"Failed to open the file `{path}`.\","),
]
HARMLESS += [
    # the directory backend's temporary file opened without O_TRUNC: harmless THERE, because set_len(length) cuts it to the content's length before the copy
    dict(id="H-C20-local-tmp-not-truncated", prop="C20", file=LB13, old="                .create(true)\n                .truncate(true)\n                .write(true)", new="                .create(true)\n                .write(true)"),
]

HARMLESS += [
    # IndexPack::blob_type written with first().map_or (same meaning)
    dict(id="H-C17-blob-type-map-or", prop="C17", file="crates/core/src/repofile/indexfile.rs", old="        if self.blobs.is_empty() {\n            BlobType::Data\n        } else {\n            self.blobs[0].tpe\n        }", new="        self.blobs.first().map_or(BlobType::Data, |blob| blob.tpe)"),
]
MUTATIONS += [
    # check_pack accepts a compressed blob that decompresses to FEWER bytes than recorded
    dict(id="C05-checkpack-short-decompression-accepted", prop="C05", file=CK13, old="            if blob_data.len() != length.get() as usize {", new="            if blob_data.len() > length.get() as usize {"),
]
