"""Property-breaking one-line edits used by the mutation self-test (tools/mutate.py).
Each must compile; each must flip the named check to VIOLATION."""
R = "crates/core/src/chunker/rabin.rs"
FX = "crates/core/src/chunker/fixed_size.rs"
FG = "crates/core/src/commands/forget.rs"
CO = "crates/core/src/commands/config.rs"
PK = "crates/core/src/blob/packer.rs"
PR = "crates/core/src/commands/prune.rs"
MUTATIONS = [
    dict(id="c06_drop_max_break", prop="C06", file=R, old="            if vec.len() >= self.max_size {\n                break;\n            }\n", new=""),
    dict(id="c06_max_gt", prop="C06", file=R, old="if vec.len() >= self.max_size {", new="if vec.len() > self.max_size {"),
    dict(id="c06_mask_neq", prop="C06", file=R, old="if (self.rabin.hash & self.split_mask) == 0 {", new="if (self.rabin.hash & self.split_mask) != 0 {"),
    dict(id="c06_lose_byte", prop="C06", file=R, old="            vec.push(byte);\n            self.pos += 1;", new="            vec.push(byte);\n            self.pos += 2;"),
    dict(id="c06_buffer_take_all", prop="C06", file=R, old="let open_buf_len = (self.buf.len() - self.pos).min(min_size);", new="let open_buf_len = self.buf.len() - self.pos;"),
    dict(id="c06_skip_slide", prop="C06", file=R, old="            self.rabin.slide(byte);\n", new="            if byte != 0 { self.rabin.slide(byte); }\n"),
    dict(id="c06_fixed_truncate", prop="C06", file=FX, old="            vec.truncate(size);", new="            vec.truncate(size / 2);"),
    dict(id="c06_poly_low_bit", prop="C06", file=R, old="poly |= (1 << 53) | 1;", new="poly |= 1 << 53;"),
    dict(id="c06_params_min_gt", prop="C06", file=R, old="if chunk_min_size > chunk_size {", new="if chunk_min_size > chunk_max_size {"),
    dict(id="c09_day_is_month", prop="C09", file=FG, old="equal_year(sn1, sn2) && sn1.time.day_of_year() == sn2.time.day_of_year()", new="equal_year(sn1, sn2) && sn1.time.month() == sn2.time.month()"),
    dict(id="c09_quarter_div", prop="C09", file=FG, old="(sn1.time.month() - 1) / 3 == (sn2.time.month() - 1) / 3", new="sn1.time.month() / 3 == sn2.time.month() / 3"),
    dict(id="c09_hour_no_day", prop="C09", file=FG, old="equal_day(sn1, sn2) && sn1.time.hour() == sn2.time.hour()", new="equal_month(sn1, sn2) && sn1.time.hour() == sn2.time.hour()"),
    dict(id="c18_version_range", prop="C18", file=CO, old="let range = 1..=2;", new="let range = 1..=3;"),
    dict(id="c18_downgrade", prop="C18", file=CO, old="} else if version < config.version {", new="} else if version > config.version {"),
    dict(id="c18_compress_v1", prop="C18", file=CO, old="if config.version == 1 && compression != 0 {", new="if config.version == 1 && compression < 0 {"),
    dict(id="c18_wrong_field", prop="C18", file=CO, old="            config.datapack_growfactor = Some(factor);", new="            config.treepack_growfactor = Some(factor);"),
    dict(id="c18_percent", prop="C18", file=CO, old="if percent < 100 && percent > 0 {", new="if percent < 100 && percent > 1 {"),
    dict(id="c18_isqrt_wrap", prop="C18", file=PK, old=".saturating_mul(self.grow_factor)", new=".wrapping_mul(self.grow_factor)"),
    dict(id="c18_limit_100", prop="C18", file=PR, old="(false, LimitOption::Percentage(p)) if *p >= 100 => u64::MAX,", new="(false, LimitOption::Percentage(p)) if *p > 100 => u64::MAX,"),
    dict(id="c15_prune_guard", prop="C15", file=PR, old="    if repo.config().append_only == Some(true) {\n        return Err(RusticError::new(\n            ErrorKind::AppendOnly,\n            \"Pruning", new="    if repo.config().append_only == Some(false) {\n        return Err(RusticError::new(\n            ErrorKind::AppendOnly,\n            \"Pruning"),
    dict(id="c15_rewrite_guard", prop="C15", file="crates/core/src/commands/rewrite.rs", old="    let config_file = repo.config();\n    if opts.forget && config_file.append_only == Some(true) {\n        return Err(RusticError::new(\n            ErrorKind::AppendOnly,\n            \"Removing snapshots is not allowed in append-only repositories. Please disable append-only mode first, if you know what you are doing. Aborting.\",\n        ));\n    }\n    let mut rewriter", new="    let config_file = repo.config();\n    if opts.forget && opts.dry_run && config_file.append_only == Some(true) {\n        return Err(RusticError::new(\n            ErrorKind::AppendOnly,\n            \"Removing snapshots is not allowed in append-only repositories. Please disable append-only mode first, if you know what you are doing. Aborting.\",\n        ));\n    }\n    let mut rewriter"),
    dict(id="c15_modifier_finalize", prop="C15", file="crates/core/src/blob/tree/modify.rs", old="        if !self.dry_run {\n            _ = self.packer.finalize()?;", new="        {\n            _ = self.packer.finalize()?;"),
    dict(id="c15_modifier_save", prop="C15", file="crates/core/src/blob/tree/modify.rs", old="if !self.index.has_tree(&new_id) && !self.dry_run {", new="if !self.index.has_tree(&new_id) || !self.dry_run {"),
]
