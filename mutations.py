"""Property-breaking one-line edits used by the mutation self-test (tools/mutate.py).
Each must compile; each must flip the named check to VIOLATION."""
R = "crates/core/src/chunker/rabin.rs"
FX = "crates/core/src/chunker/fixed_size.rs"
FG = "crates/core/src/commands/forget.rs"
CO = "crates/core/src/commands/config.rs"
PK = "crates/core/src/blob/packer.rs"
PR = "crates/core/src/commands/prune.rs"
MUTATIONS = [
    dict(id="c06_drop_max_break", prop="C06", file=R, old="            if vec.len() >= self.max_size {\n                break;\n            }\n", new=""),
    dict(id="c06_max_gt", prop="C06", file=R, old="if vec.len() >= self.max_size {", new="if vec.len() > self.max_size {"),
    dict(id="c06_mask_neq", prop="C06", file=R, old="if (self.rabin.hash & self.split_mask) == 0 {", new="if (self.rabin.hash & self.split_mask) != 0 {"),
    dict(id="c06_lose_byte", prop="C06", file=R, old="            vec.push(byte);\n            self.pos += 1;", new="            vec.push(byte);\n            self.pos += 2;"),
    dict(id="c06_buffer_take_all", prop="C06", file=R, old="let open_buf_len = (self.buf.len() - self.pos).min(min_size);", new="let open_buf_len = self.buf.len() - self.pos;"),
    dict(id="c06_skip_slide", prop="C06", file=R, old="            self.rabin.slide(byte);\n", new="            if byte != 0 { self.rabin.slide(byte); }\n"),
    dict(id="c06_fixed_truncate", prop="C06", file=FX, old="            vec.truncate(size);", new="            vec.truncate(size / 2);"),
    dict(id="c06_poly_low_bit", prop="C06", file=R, old="poly |= (1 << 53) | 1;", new="poly |= 1 << 53;"),
    dict(id="c06_params_min_gt", prop="C06", file=R, old="if chunk_min_size > chunk_size {", new="if chunk_min_size > chunk_max_size {"),
    dict(id="c09_day_is_month", prop="C09", file=FG, old="equal_year(sn1, sn2) && sn1.time.day_of_year() == sn2.time.day_of_year()", new="equal_year(sn1, sn2) && sn1.time.month() == sn2.time.month()"),
    dict(id="c09_quarter_div", prop="C09", file=FG, old="(sn1.time.month() - 1) / 3 == (sn2.time.month() - 1) / 3", new="sn1.time.month() / 3 == sn2.time.month() / 3"),
    dict(id="c09_hour_no_day", prop="C09", file=FG, old="equal_day(sn1, sn2) && sn1.time.hour() == sn2.time.hour()", new="equal_month(sn1, sn2) && sn1.time.hour() == sn2.time.hour()"),
    dict(id="c18_version_range", prop="C18", file=CO, old="let range = 1..=2;", new="let range = 1..=3;"),
    dict(id="c18_downgrade", prop="C18", file=CO, old="} else if version < config.version {", new="} else if version > config.version {"),
    dict(id="c18_compress_v1", prop="C18", file=CO, old="if config.version == 1 && compression != 0 {", new="if config.version == 1 && compression < 0 {"),
    dict(id="c18_wrong_field", prop="C18", file=CO, old="            config.datapack_growfactor = Some(factor);", new="            config.treepack_growfactor = Some(factor);"),
    dict(id="c18_percent", prop="C18", file=CO, old="if percent < 100 && percent > 0 {", new="if percent < 100 && percent > 1 {"),
    dict(id="c18_isqrt_wrap", prop="C18", file=PK, old=".saturating_mul(self.grow_factor)", new=".wrapping_mul(self.grow_factor)"),
    dict(id="c18_limit_100", prop="C18", file=PR, old="(false, LimitOption::Percentage(p)) if *p >= 100 => u64::MAX,", new="(false, LimitOption::Percentage(p)) if *p > 100 => u64::MAX,"),
    dict(id="c15_prune_guard", prop="C15", file=PR, old="    if repo.config().append_only == Some(true) {\n        return Err(RusticError::new(\n            ErrorKind::AppendOnly,\n            \"Pruning", new="    if repo.config().append_only == Some(false) {\n        return Err(RusticError::new(\n            ErrorKind::AppendOnly,\n            \"Pruning"),
    dict(id="c15_rewrite_guard", prop="C15", file="crates/core/src/commands/rewrite.rs", old="    let config_file = repo.config();\n    if opts.forget && config_file.append_only == Some(true) {\n        return Err(RusticError::new(\n            ErrorKind::AppendOnly,\n            \"Removing snapshots is not allowed in append-only repositories. Please disable append-only mode first, if you know what you are doing. Aborting.\",\n        ));\n    }\n    let mut rewriter", new="    let config_file = repo.config();\n    if opts.forget && opts.dry_run && config_file.append_only == Some(true) {\n        return Err(RusticError::new(\n            ErrorKind::AppendOnly,\n            \"Removing snapshots is not allowed in append-only repositories. Please disable append-only mode first, if you know what you are doing. Aborting.\",\n        ));\n    }\n    let mut rewriter"),
    dict(id="c15_modifier_finalize", prop="C15", file="crates/core/src/blob/tree/modify.rs", old="        if !self.dry_run {\n            _ = self.packer.finalize()?;", new="        {\n            _ = self.packer.finalize()?;"),
    dict(id="c15_modifier_save", prop="C15", file="crates/core/src/blob/tree/modify.rs", old="if !self.index.has_tree(&new_id) && !self.dry_run {", new="if !self.index.has_tree(&new_id) || !self.dry_run {"),
    dict(id="c14_no_guard", prop="C14", file="crates/core/src/blob/tree.rs", old="if !is_plain_name(&name) {", new="if false {"),
    dict(id="c07_untyped_insert", prop="C07", file="crates/core/src/index/indexer.rs", old="_ = indexed.insert((blob.tpe, blob.id));", new="_ = indexed.insert((BlobType::Data, blob.id));"),
    dict(id="c07_has_any_type", prop="C07", file="crates/core/src/index/indexer.rs", old=".is_some_and(|indexed| indexed.contains(&(tpe, *id)))", new=".is_some_and(|indexed| indexed.contains(&(tpe, *id)) || indexed.contains(&(BlobType::Data, *id)))"),
    dict(id="c08_offset_off_by_one", prop="C08", file=PK, old="        let offset = self.size;\n", new="        let offset = self.size.saturating_sub(1);\n"),
    dict(id="c08_no_count", prop="C08", file=PK, old="            .add(*id, self.blob_type, offset, len, uncompressed_length);\n        self.count += 1;", new="            .add(*id, self.blob_type, offset, len, uncompressed_length);"),
    dict(id="c08_wrong_type", prop="C08", file=PK, old="            .add(*id, self.blob_type, offset, len, uncompressed_length);", new="            .add(*id, BlobType::Data, offset, len, uncompressed_length);"),
    dict(id="c08_dup_not_noop", prop="C08", file=PK, old="        if self.has(id) {\n            return Ok(());\n        }\n        self.stats.blobs += 1;", new="        self.stats.blobs += 1;"),
    dict(id="c08_take_before_header", prop="C08", file=PK, old="        self.basic.write_header(data)?;\n\n        // write file to backend\n        let (file, index) = self.basic.take_data();", new="        // write file to backend\n        let (file, index) = self.basic.take_data();\n        self.basic.write_header(data)?;"),
    dict(id="c08_entry_len", prop="C08", file="crates/core/src/repofile/packfile.rs", old="const ENTRY_LEN: u32 = 37;", new="const ENTRY_LEN: u32 = 36;"),
    dict(id="c08_from_file_check", prop="C08", file="crates/core/src/repofile/packfile.rs", old="if header.pack_size() != pack_size {", new="if header.pack_size() > pack_size {"),
    dict(id="c08_into_blob_type", prop="C08", file="crates/core/src/repofile/packfile.rs", old="                id: id.into(),
                tpe: BlobType::Tree,", new="                id: id.into(),
                tpe: BlobType::Data,"),
    dict(id="c17_wrong_pack", prop="C17", file="crates/core/src/index/binarysorted.rs", old="self.0[blob_type].packs[be.pack_idx as usize],", new="self.0[blob_type].packs[0],"),
    dict(id="c17_has_ids_inverted", prop="C17", file="crates/core/src/index/binarysorted.rs", old="EntriesVariants::Ids(ids) => ids.binary_search(id).is_ok(),", new="EntriesVariants::Ids(ids) => ids.binary_search(id).is_err(),"),
    dict(id="c17_extend_idx", prop="C17", file="crates/core/src/index/binarysorted.rs", old="                    pack_idx: idx,", new="                    pack_idx: idx + 1,"),
    dict(id="c17_total_size", prop="C17", file="crates/core/src/index/binarysorted.rs", old="self.0[blob_type].total_size += u64::from(size);", new="self.0[BlobType::Data].total_size += u64::from(size);"),
    dict(id="c17_no_sort", prop="C17", file="crates/core/src/index/binarysorted.rs", old="EntriesVariants::Ids(ids) => ids.par_sort_unstable(),", new="EntriesVariants::Ids(_ids) => {}"),
    dict(id="c17_new_mode", prop="C17", file="crates/core/src/index/binarysorted.rs", old="IndexType::DataIds => EntriesVariants::Ids(Vec::new()),", new="IndexType::DataIds => EntriesVariants::None,"),
    dict(id="c02_append_len", prop="C02", file="crates/core/src/blob.rs", old="self.length = other.offset + other.length - self.offset; // read till the end of other", new="self.length = self.length + other.length; // read till the end of other"),
    dict(id="c02_coalesce_overlap", prop="C02", file="crates/core/src/blob.rs", old="&& other.offset >= self.offset + self.length", new="&& other.offset >= self.offset"),
]
