#!/bin/bash
# Run once after a fresh restore (offline): warms the Kani build cache for /repo's dependency graph
# (git-ignored /verif/.cache/kani) and Verus' first-run cache.  Idempotent.
set -u
cd "$(dirname "$0")"
mkdir -p .cache build evidence replays
export CARGO_NET_OFFLINE=true
( cd /repo && CARGO_TARGET_DIR=/verif/.cache/kani timeout 3000 cargo kani -p rustic_core -Z function-contracts -Z stubbing \
    --default-unwind 2 --output-format terse --harness backend::hotcold::verif_kani::c16_list_from_cold > /verif/.cache/setup-kani.log 2>&1 ) || true
tail -3 /verif/.cache/setup-kani.log 2>/dev/null
printf 'use vstd::prelude::*;\nverus!{ proof fn t() ensures 1 + 1 == 2int {} }\nfn main(){}\n' > build/warm.rs
( cd build && verus warm.rs > /dev/null 2>&1 ) || true
echo "setup done"
