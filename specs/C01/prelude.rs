// ===== C01 prelude: ranged reads of a file that is a list of data blobs =====
#[derive(Clone, Copy, PartialEq, Eq, Structural)]
pub struct DataId(pub u64);
pub struct Bytes { pub data: Ghost<Seq<u8>> }
impl Bytes {
    #[verifier::external_body]
    pub fn len(&self) -> (r: usize) ensures r == self.data@.len(), { unimplemented!() }
}
pub struct BytesMut { pub data: Ghost<Seq<u8>> }
impl BytesMut {
    #[verifier::external_body]
    pub fn with_capacity(n: usize) -> (r: BytesMut) ensures r.data@.len() == 0, { unimplemented!() }
    // result.extend_from_slice(&data[a..b]): slicing panics unless a <= b <= len
    #[verifier::external_body]
    pub fn vextend_from_range(&mut self, src: &Bytes, a: usize, b: usize)
        requires a <= b <= src.data@.len(),
        ensures final(self).data@ == old(self).data@ + src.data@.subrange(a as int, b as int),
    { unimplemented!() }
    #[verifier::external_body]
    pub fn vfreeze(self) -> (r: Bytes) ensures r.data@ == self.data@, { unimplemented!() }
}

// the repository as a source of decrypted, decompressed data blobs (index lookup, pack read, decrypt,
// decompress, LRU cache: all outside this unit); BLOB is uninterpreted
pub uninterp spec fn BLOB(id: DataId) -> Seq<u8>;
pub struct VRepo { pub _opaque: u64 }
impl VRepo {
    #[verifier::external_body]
    pub fn vget_data_blob(&self, id: &DataId) -> (r: RusticResult<Bytes>)
        ensures r matches Ok(b) ==> b.data@ == BLOB(*id),
    { unimplemented!() }
}

// slice::partition_point(|o| o <= &x) on a sorted slice (ASSUMED std contract; the predicate must be
// partitioned, which holds for a nondecreasing sequence -> `requires sorted`)
pub open spec fn nondecreasing(s: Seq<usize>) -> bool { forall|i: int, j: int| 0 <= i <= j < s.len() ==> s[i] <= s[j] }
#[verifier::external_body]
pub fn vpartition_point_le(v: &Vec<usize>, x: usize) -> (r: usize)
    requires nondecreasing(v@),
    ensures r <= v@.len(), forall|i: int| 0 <= i < r ==> v@[i] <= x, forall|i: int| r <= i < v@.len() ==> v@[i] > x,
{ unimplemented!() }

#[verifier::external_body]
pub fn vpartition_point_lt(v: &Vec<usize>, x: usize) -> (r: usize)
    requires nondecreasing(v@),
    ensures r <= v@.len(), forall|i: int| 0 <= i < r ==> v@[i] < x, forall|i: int| r <= i < v@.len() ==> v@[i] >= x,
{ unimplemented!() }

// ---- the file as the concatenation of its blobs ----
pub open spec fn file_upto(content: Seq<DataId>, k: int) -> Seq<u8>
    decreases k
{
    if k <= 0 { Seq::empty() } else { file_upto(content, k - 1) + BLOB(content[k - 1]) }
}
pub open spec fn file_of(content: Seq<DataId>) -> Seq<u8> { file_upto(content, content.len() as int) }

pub proof fn lemma_file_upto_mono(content: Seq<DataId>, i: int, j: int)
    requires 0 <= i <= j <= content.len(),
    ensures file_upto(content, i).len() <= file_upto(content, j).len(),
            file_upto(content, j).subrange(0, file_upto(content, i).len() as int) == file_upto(content, i),
    decreases j
{
    if i < j {
        lemma_file_upto_mono(content, i, j - 1);
        let a = file_upto(content, j - 1);
        assert(file_upto(content, j).subrange(0, file_upto(content, i).len() as int) =~= a.subrange(0, file_upto(content, i).len() as int));
    } else {
        assert(file_upto(content, j).subrange(0, file_upto(content, i).len() as int) =~= file_upto(content, i));
    }
}

pub proof fn lemma_blob_slice(content: Seq<DataId>, i: int)
    requires 0 <= i < content.len(),
    ensures
        file_upto(content, i + 1).len() == file_upto(content, i).len() + BLOB(content[i]).len(),
        file_upto(content, i + 1).len() <= file_of(content).len(),
        file_of(content).subrange(file_upto(content, i).len() as int, file_upto(content, i + 1).len() as int) == BLOB(content[i]),
{
    lemma_file_upto_mono(content, i + 1, content.len() as int);
    let f = file_of(content);
    let a = file_upto(content, i);
    let b = file_upto(content, i + 1);
    assert(b == a + BLOB(content[i]));
    assert(f.subrange(0, b.len() as int) == b);
    assert(f.subrange(a.len() as int, b.len() as int) =~= BLOB(content[i])) by {
        assert forall|k: int| 0 <= k < BLOB(content[i]).len() implies f.subrange(a.len() as int, b.len() as int)[k] == BLOB(content[i])[k] by {
            assert(f.subrange(0, b.len() as int)[a.len() + k] == b[a.len() + k]);
        }
    }
}

pub open spec fn min_int(a: int, b: int) -> int { if a <= b { a } else { b } }

// ---- dump (single-threaded path): the writer receives the file's blobs in content order ----
pub struct VWriter { pub out: Ghost<Seq<u8>> }
// write_blob(w, &data) = w.write_all(data) (+ error mapping): on Ok exactly these bytes were appended (ASSUMED std contract)
#[verifier::external_body]
pub fn vwrite_blob(w: &mut VWriter, data: &Bytes) -> (r: RusticResult<()>)
    ensures r is Ok ==> final(w).out@ == old(w).out@ + data.data@,
{ unimplemented!() }
