"""C01 — backup followed by restore reproduces the source exactly (function-level kernels)."""
from tools.extract import Unit, Rw
from tools.krun import Harness

PROPERTY = "C01"
PRELUDE = ["../common/base.rs", "prelude.rs", "vfs_specs.rs", "tree_archiver.rs"]
V = "crates/core/src/vfs.rs"

UNITS = [
    Unit(name="OpenFile", file=V, kind="type", anchor="pub struct OpenFile {"),
    Unit(name="ContentStartpoints", file=V, kind="const", anchor="struct ContentStartpoints(Vec<usize>);"),
    Unit(name="compute_start", file=V, anchor="fn compute_start(&self, mut offset: usize) -> (usize, usize)", ret_name="r",
         wrap_open="impl ContentStartpoints {", wrap_close="}",
         functions=["vfs::ContentStartpoints::compute_start"],
         rewrites=[Rw("self.0.partition_point(|o| o <= &offset)", "vpartition_point_le(&self.0, offset)", why="slice::partition_point with a <= closure (assumed std contract, requires sorted)"),
                   Rw("self.0.partition_point(|o| o < &offset)", "vpartition_point_lt(&self.0, offset)", why="slice::partition_point with a < closure (assumed std contract, requires sorted)")],
         contract="""
    requires
        self.shape(),
    ensures
        /*@compute_start_empty*/ self.0@.len() == 0 ==> r == (0usize, 0usize),
        /*@compute_start_locates_blob*/ self.0@.len() > 0 ==> {
            &&& r.0 + 1 <= self.0@.len()
            &&& (offset < usize::MAX ==> r.0 + 1 < self.0@.len())
            &&& self.0@[r.0 as int] + r.1 == offset
            &&& (r.0 + 1 < self.0@.len() ==> offset < self.0@[r.0 + 1])
        },
""",
         ),
    Unit(name="read_at", file=V, anchor="pub fn read_at<S: IndexedFull>(", ret_name="r",
         wrap_open="impl OpenFile {", wrap_close="}",
         functions=["vfs::OpenFile::read_at"],
         rewrites=[
             Rw("pub fn read_at<S: IndexedFull>(", "pub fn read_at(", sig=True, why="Repository<S> -> opaque repository stub"),
             Rw("repo: &Repository<S>", "repo: &VRepo", sig=True, why="Repository<S> -> opaque repository stub"),
             Rw("repo.get_blob_cached(&BlobId::from(self.content[i]), BlobType::Data)?", "repo.vget_data_blob(&self.content[i])?", why="blob fetch (index, pack read, decrypt, decompress, cache): uninterpreted BLOB(id)"),
             Rw("result.extend_from_slice(&data[offset..offset + to_copy]);", "result.vextend_from_range(&data, offset, offset + to_copy);", why="BytesMut::extend_from_slice of a Bytes range: bounds become a precondition"),
             Rw("Ok(result.into())", "Ok(result.vfreeze())", why="BytesMut -> Bytes"),
         ],
         contract="""
    requires
        self.wf(),
    ensures
        /*@read_at_returns_file_range*/ r matches Ok(b) ==> ({
            let file = file_of(self.content@);
            let lo = min_int(offset as int, file.len() as int);
            let hi = min_int(offset + length, file.len() as int);
            b.data@ == file.subrange(lo, if hi >= lo { hi } else { lo })
        }),
""",
         hints=[
             ("before", "let (mut i,", "        let ghost off0 = offset as int;\n        let ghost len0 = length as int;\n        let ghost file = file_of(self.content@);\n        let ghost n = self.content@.len() as int;\n        proof { lemma_startpoints_sorted(self.startpoints, self.content@); if n > 0 { lemma_file_upto_mono(self.content@, 0, n); } }"),
             ("before", "let mut result = BytesMut::with_capacity(length);", "        proof { if n > 0 && (i as int) < n { lemma_file_upto_mono(self.content@, i as int, n); if i + 1 < n { lemma_file_upto_mono(self.content@, i + 1, n); } } }"),
             ("after", "let data = repo.vget_data_blob(", """            proof {
                lemma_blob_slice(self.content@, i as int);
                lemma_file_upto_mono(self.content@, i as int, n);
            }
            let ghost res0 = result.data@;"""),
             ("after", "result.vextend_from_range(", """            proof {
                let p = file_upto(self.content@, i as int).len() as int;
                assert(data.data@.subrange(offset as int, offset + to_copy) =~= file.subrange(p + offset, p + offset + to_copy));
                let lo0 = min_int(off0, file.len() as int);
                assert(lo0 + (len0 - length) == p + offset);
                assert(p + offset + to_copy <= file_upto(self.content@, i + 1).len());
                assert(p + offset + to_copy <= file.len());
                assert(res0 == file.subrange(lo0, p + offset));
                assert(off0 >= 0);
                assert(0 <= lo0);
                assert(len0 - length >= 0);
                assert(lo0 <= p + offset);
                let a = p + offset;
                let b2 = p + offset + to_copy;
                let lhs = res0 + file.subrange(a, b2);
                let rhs = file.subrange(lo0, b2);
                assert(lhs.len() == rhs.len());
                assert forall|k: int| 0 <= k < lhs.len() implies lhs[k] == rhs[k] by {
                    if k < res0.len() {
                        assert(lhs[k] == res0[k]);
                        assert(res0[k] == file.subrange(lo0, a)[k]);
                    } else {
                        assert(lhs[k] == file.subrange(a, b2)[k - res0.len()]);
                    }
                }
                assert(lhs =~= rhs);
                assert(result.data@ =~= res0 + file.subrange(p + offset, p + offset + to_copy));
                assert(result.data@ =~= file.subrange(lo0, lo0 + (len0 - length) + to_copy));
            }"""),
         ],
         loops={1: """
            invariant
                self.wf(),
                n == self.content@.len(), file == file_of(self.content@),
                i <= n, length <= len0, off0 >= 0, len0 >= 0,
                result.data@ =~= file.subrange(min_int(off0, file.len() as int), min_int(off0, file.len() as int) + (len0 - length)),
                min_int(off0, file.len() as int) + (len0 - length) <= file.len(),
                (len0 - length) > 0 ==> off0 + (len0 - length) <= file.len() && offset == 0,
                length > 0 && i < n ==> file_upto(self.content@, i as int).len() + offset == off0 + (len0 - length),
                length > 0 && i == n ==> off0 + (len0 - length) >= file.len(),
                (len0 - length) == 0 && i + 1 < n ==> off0 < file_upto(self.content@, i + 1).len(),
            ensures
                result.data@ == file.subrange(min_int(off0, file.len() as int), if min_int(off0 + len0, file.len() as int) >= min_int(off0, file.len() as int) { min_int(off0 + len0, file.len() as int) } else { min_int(off0, file.len() as int) }),
            decreases n - i
"""},
         ),
]
# ---- TreeArchiver: the snapshot's trees are assembled from exactly the items fed; a directory's subtree id is the
#      hash of its serialized children; a tree blob is handed to the packer under its own hash unless it is already there
TA = "crates/core/src/archiver/tree_archiver.rs"
TR = "crates/core/src/blob/tree.rs"
R_ERR = Rw("", "verr()", count=None, kind="err", why="RusticError construction (kind/message/context dropped)")
R_MAPERR = Rw("", "", count=None, kind="maperr", why=".map_err(<error building closure>) -> .vmap_err()")
R_LOG = Rw("", "", count=None, kind="log", why="logging removed")
R_ATTRS = Rw("", "", count=None, kind="attrs", optional=True, why="derive helper attributes removed")
WTA = dict(wrap_open="impl TreeArchiver {", wrap_close="}")
UNITS += [
    Unit(name="ParentResult", file="crates/core/src/archiver/parent.rs", kind="type", anchor="pub(crate) enum ParentResult<T> {", rewrites=[R_ATTRS]),
    Unit(name="TreeType", file="crates/core/src/archiver/tree.rs", kind="type", anchor="pub(crate) enum TreeType<T, U> {",
         rewrites=[R_ATTRS, Rw("PathBuf", "PathR", count=None, why="PathBuf -> opaque path stub")]),
    Unit(name="tree_new", file=TR, anchor="pub(crate) const fn new() -> Self", within="impl Tree {", ret_name="r",
         wrap_open="impl Tree {", wrap_close="}", functions=["blob::tree::Tree::new"],
         contract="\n    ensures r.nodes@ == Seq::<Node>::empty(),\n"),
    Unit(name="tree_add", file=TR, anchor="pub(crate) fn add(&mut self, node: Node)", within="impl Tree {",
         wrap_open="impl Tree {", wrap_close="}", functions=["blob::tree::Tree::add"],
         contract="\n    ensures final(self).nodes@ == old(self).nodes@.push(node),\n"),
    Unit(name="ta_add_file", file=TA, anchor="fn add_file(&mut self, path: &Path, node: Node, parent: &ParentResult<()>, size: u64)", **WTA,
         functions=["archiver::tree_archiver::TreeArchiver::add_file"],
         rewrites=[R_LOG, Rw("path: &Path,", "path: &PathR,", sig=True, why="Path -> opaque path stub")],
         contract="""
    requires counters_have_room(old(self).summary, size as int),
    ensures
        /*@file_node_appended_to_current_tree*/ final(self).tree.nodes@ == old(self).tree.nodes@.push(node),
        /*@add_file_frame*/ final(self).stack == old(self).stack && final(self).tree_packer == old(self).tree_packer && final(self).index == old(self).index,
"""),
    Unit(name="ta_backup_tree", file=TA, anchor="fn backup_tree(&mut self, path: &Path, parent: &ParentResult<TreeId>) -> RusticResult<TreeId>", ret_name="r", **WTA,
         functions=["archiver::tree_archiver::TreeArchiver::backup_tree"],
         rewrites=[R_LOG, R_MAPERR, R_ERR,
                   Rw("path: &Path,", "path: &PathR,", sig=True, why="Path -> opaque path stub"),
                   Rw("let dirsize_bytes = ByteSize(dirsize).display().iec().to_string();", "let dirsize_bytes = ();", why="human-readable size, used only in the removed log lines"),
                   Rw("self.tree_packer.add(chunk.into(), id.into())?;", "self.tree_packer.vadd(chunk, id)?;", why="Packer::add (channel to the packer thread) -> effect log; Vec<u8> -> Bytes and TreeId -> BlobId conversions dropped"),
         ],
         contract="""
    requires counters_have_room(old(self).summary, TREE_SER(old(self).tree.nodes@).len() as int),
    ensures
        /*@tree_id_is_hash_of_serialized_tree*/ r matches Ok(id) ==> id == tree_id_of(old(self).tree.nodes@),
        // the tree blob is in the repository afterwards: it is the parent's very tree, or the index has it, or it was handed to the packer
        /*@tree_blob_available*/ r matches Ok(id) ==> (*parent matches ParentResult::Matched(p) && p == id) || old(self).index.trees().contains(id)
            || final(self).tree_packer.added@ == old(self).tree_packer.added@.push((TREE_SER(old(self).tree.nodes@), id)),
        // identical content is stored once: the tree is handed to the packer only if the index does not have it yet
        /*@known_tree_is_not_stored_again*/ old(self).index.trees().contains(tree_id_of(old(self).tree.nodes@)) ==> final(self).tree_packer.added@ == old(self).tree_packer.added@,
        /*@packer_gets_at_most_this_tree*/ final(self).tree_packer.added@ == old(self).tree_packer.added@
            || final(self).tree_packer.added@ == old(self).tree_packer.added@.push((TREE_SER(old(self).tree.nodes@), tree_id_of(old(self).tree.nodes@))),
        /*@backup_tree_frame*/ final(self).tree == old(self).tree && final(self).stack == old(self).stack && final(self).index == old(self).index,
"""),
    Unit(name="ta_add", file=TA, anchor="pub(crate) fn add(&mut self, item: TreeItem) -> RusticResult<()>", ret_name="r", **WTA,
         functions=["archiver::tree_archiver::TreeArchiver::add"],
         rewrites=[R_LOG,
                   Rw(r"\.ok_or_else\(\|\| \{.*?\}\)\?", ".vok_or_verr()?", regex=True, why="Option::ok_or_else(|| <error>) -> stub"),
                   R_ERR,
                   Rw("std::mem::replace(&mut self.tree, Tree::new())", "vmem_replace_tree(&mut self.tree, Tree::new())", why="std::mem::replace"),
         ],
         contract="""
    requires
        counters_have_room(old(self).summary, TREE_SER(old(self).tree.nodes@).len() as int),
        item matches TreeType::Other(x) ==> counters_have_room(old(self).summary, x.2.1 as int),
    ensures
        /*@new_tree_pushes_current*/ item matches TreeType::NewTree(x) ==> r is Ok && final(self).tree.nodes@ == Seq::<Node>::empty()
            && final(self).stack@ == old(self).stack@.push((x.0, x.1, x.2, old(self).tree)),
        /*@end_tree_links_subtree_by_hash*/ (item is EndTree && r is Ok) ==> old(self).stack@.len() > 0 && ({
            let top = old(self).stack@.last();
            &&& final(self).stack@ == old(self).stack@.drop_last()
            &&& final(self).tree.nodes@ == top.3.nodes@.push(Node { subtree: Some(tree_id_of(old(self).tree.nodes@)), ..top.1 })
        }),
        /*@end_tree_on_empty_stack_is_error*/ (item is EndTree && old(self).stack@.len() == 0) ==> r is Err,
        /*@other_appends_node*/ item matches TreeType::Other(x) ==> r is Ok && final(self).tree.nodes@ == old(self).tree.nodes@.push(x.1) && final(self).stack == old(self).stack,
"""),
]

KANI = []
# restore reads several blobs of one pack with ONE ranged read (PackInfo::coalesce over BlobLocations): the units live in
# C02's spec (BlobLocations is shared with prune/copy) and are verified as part of this property's check as well
DMP = "crates/core/src/commands/dump.rs"
UNITS += [
    Unit(name="dump_sequential", file=DMP, anchor="fn dump_sequential<S: IndexedFull>(", ret_name="r",
         functions=["commands::dump::dump_sequential"],
         rewrites=[
             Rw("fn dump_sequential<S: IndexedFull>(", "fn dump_sequential(", sig=True, why="repository state generic -> blob source stub"),
             Rw("repo: &Repository<S>,", "repo: &VRepo,", sig=True, why="repository -> blob source stub"),
             Rw("w: &mut impl Write,", "w: &mut VWriter,", sig=True, why="io::Write -> ghost output stream"),
             Rw("for id in content {", "for id in it: content.iter() {", why="Verus for-loop syntax"),
             Rw("repo.get_blob_cached(&BlobId::from(**id), BlobType::Data)?", "repo.vget_data_blob(id)?", why="get_blob_cached (index lookup, pack read, decrypt, cache) -> stub: the blob's plaintext"),
             Rw("write_blob(w, &data)", "vwrite_blob(w, &data)", count=None, why="write_all + error mapping -> ghost output stream"),
         ],
         contract="""
    ensures
        /*@dump_writes_the_blobs_in_content_order*/ r is Ok ==> final(w).out@ == old(w).out@ + file_of(content@),
""",
         loops={1: "\n        invariant w.out@ =~= old(w).out@ + file_upto(content@, it.index@),\n"},
         hints=[("loop_start", "1", "        proof { assert(content@[it.index@] == *id); assert(file_upto(content@, it.index@ + 1) == file_upto(content@, it.index@) + BLOB(content@[it.index@])); }")],
         ),
]

UNITS += [
    # TreeArchiver::finalize: the snapshot's root is the hash of the serialised top-level tree, that tree is stored (or known),
    # and the tree packer has been finalized when Ok is returned
    Unit(name="ta_finalize", file=TA, anchor="pub(crate) fn finalize(\n        mut self,", ret_name="r", **WTA,
         functions=["archiver::tree_archiver::TreeArchiver::finalize"],
         rewrites=[Rw("        mut self,", "        self,", sig=True, why="`mut self` (unsupported by Verus) -> `self` + rebinding `let mut this = self;`"),
                   Rw("self.", "this.", count=None, why="rebinding of `mut self`"),
                   Rw(r"parent_tree\.map_or\(ParentResult::NotFound, ParentResult::Matched\)", "(match parent_tree { Some(vp) => ParentResult::Matched(vp), None => ParentResult::NotFound })", regex=True,
                      why="Option::map_or(default, constructor) -> match (definition)"),
                   Rw("&PathBuf::new()", "&PathR::vnew()", why="empty path -> opaque path stub"),
                   Rw("this.tree_packer.finalize()?", "this.tree_packer.vfinalize()?", why="Packer::finalize -> stub: Ok = every tree pack written and indexed (C03)"),
                   Rw("BlobType::Tree", "BlobTypeT::Tree", why="blob type -> stub enum"),
         ],
         hints=[("before", "let parent = ", "        let mut this = self;")],
         contract="""
    requires counters_have_room(self.summary, TREE_SER(self.tree.nodes@).len() as int),
    ensures
        /*@snapshot_root_is_hash_of_the_top_level_tree*/ r matches Ok(x) ==> x.0 == tree_id_of(self.tree.nodes@),
        /*@root_tree_is_stored_and_the_packer_flushed*/ r matches Ok(x) ==> (parent_tree == Some(x.0) || self.index.trees().contains(x.0)
            || TREE_PACKER_FINALIZED(self.tree_packer.added@.push((TREE_SER(self.tree.nodes@), x.0)))),
        // whatever was handed to the tree packer during the run is flushed when Ok is returned
        /*@tree_packer_is_finalized_before_success*/ r is Ok ==> TREE_PACKER_FINALIZED(self.tree_packer.added@) || TREE_PACKER_FINALIZED(self.tree_packer.added@.push((TREE_SER(self.tree.nodes@), tree_id_of(self.tree.nodes@)))),
"""),
]

SATELLITES = [("C02", ["blob_constants", "BlobLocation", "BlobLocations", "from_blob_location", "can_coalesce", "append", "coalesce", "PackToDo", "RepackReason", "PackInfo", "PrunePack", "CopyPackBlobs", "RestorePackInfo", "restore_packinfo_coalesce", "FileLocation", "restore_read_of_blob", "restore_needed_pack"]),
              # "restore to disk" is one of the ways of reading a snapshot back: the restore units of C14's spec (node stream, plan,
              # merge walk with the destination, write task) are verified as part of this property's check as well
              ("C14", ["NodeStreamer", "streamer_next", "BlobLocation", "data_length", "FileLocation", "add_file_blobs", "process_existing", "process_node", "merge_walk", "restore_write_blob", "sparse_decision", "SparseRestore", "matching_file_decision"]),
              # the rest of the backup -> restore pipeline: chunking (C06), packing and pack headers (C08), in-run dedup / index writing (C07), index lookups (C17)
              ("C06", "*"),
              # the rest of the backup -> restore pipeline: chunking (C06), packing and pack headers (C08), in-run dedup / index writing (C07), index lookups (C17)
              ("C08", "*"),
              # the rest of the backup -> restore pipeline: chunking (C06), packing and pack headers (C08), in-run dedup / index writing (C07), index lookups (C17)
              ("C07", ["ParentResult", "TreeType", "backup_chunk", "packer_filter_early", "archiver_indexer", "indexer_constants", "Indexer", "indexer_new", "indexer_new_unindexed", "indexer_reset", "add_with", "indexer_has", "IndexFile", "indexfile_add", "indexer_save", "indexer_finalize", "indexer_add", "indexer_add_remove", "packer_add_raw", "ta_backup_tree"]),
              # the rest of the backup -> restore pipeline: chunking (C06), packing and pack headers (C08), in-run dedup / index writing (C07), index lookups (C17)
              ("C17", "*")]

META = {"not_covered": [
    "the iterator chain of FileArchiver::backup_reader (its per-chunk closure is a unit of C07: backup_chunk), Archiver::archive (threads/channels; its tail is a unit of C03)",
    "Tree::serialize (serde_json) and the node metadata / name escaping (strings, serde): uninterpreted",
    "the parallel path of dump (pariter: ordered parallel map, files with two or more blobs), metadata application; the composition of the kernels into backup -> restore",
    "summary counters assumed not to wrap (u64 sums of one run)",
]}
