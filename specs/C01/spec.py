"""C01 — backup followed by restore reproduces the source exactly (function-level kernels)."""
from tools.extract import Unit, Rw
from tools.krun import Harness

PROPERTY = "C01"
PRELUDE = ["../common/base.rs", "prelude.rs", "vfs_specs.rs"]
V = "crates/core/src/vfs.rs"

UNITS = [
    Unit(name="OpenFile", file=V, kind="type", anchor="pub struct OpenFile {"),
    Unit(name="ContentStartpoints", file=V, kind="const", anchor="struct ContentStartpoints(Vec<usize>);"),
    Unit(name="compute_start", file=V, anchor="fn compute_start(&self, mut offset: usize) -> (usize, usize)", ret_name="r",
         wrap_open="impl ContentStartpoints {", wrap_close="}",
         functions=["vfs::ContentStartpoints::compute_start"],
         rewrites=[Rw("self.0.partition_point(|o| o <= &offset)", "vpartition_point_le(&self.0, offset)", why="slice::partition_point with a <= closure (assumed std contract, requires sorted)"),
                   Rw("self.0.partition_point(|o| o < &offset)", "vpartition_point_lt(&self.0, offset)", why="slice::partition_point with a < closure (assumed std contract, requires sorted)")],
         contract="""
    requires
        self.shape(),
    ensures
        /*@compute_start_empty*/ self.0@.len() == 0 ==> r == (0usize, 0usize),
        /*@compute_start_locates_blob*/ self.0@.len() > 0 ==> {
            &&& r.0 + 1 <= self.0@.len()
            &&& (offset < usize::MAX ==> r.0 + 1 < self.0@.len())
            &&& self.0@[r.0 as int] + r.1 == offset
            &&& (r.0 + 1 < self.0@.len() ==> offset < self.0@[r.0 + 1])
        },
""",
         ),
    Unit(name="read_at", file=V, anchor="pub fn read_at<S: IndexedFull>(", ret_name="r",
         wrap_open="impl OpenFile {", wrap_close="}",
         functions=["vfs::OpenFile::read_at"],
         rewrites=[
             Rw("pub fn read_at<S: IndexedFull>(", "pub fn read_at(", sig=True, why="Repository<S> -> opaque repository stub"),
             Rw("repo: &Repository<S>", "repo: &VRepo", sig=True, why="Repository<S> -> opaque repository stub"),
             Rw("repo.get_blob_cached(&BlobId::from(self.content[i]), BlobType::Data)?", "repo.vget_data_blob(&self.content[i])?", why="blob fetch (index, pack read, decrypt, decompress, cache): uninterpreted BLOB(id)"),
             Rw("result.extend_from_slice(&data[offset..offset + to_copy]);", "result.vextend_from_range(&data, offset, offset + to_copy);", why="BytesMut::extend_from_slice of a Bytes range: bounds become a precondition"),
             Rw("Ok(result.into())", "Ok(result.vfreeze())", why="BytesMut -> Bytes"),
         ],
         contract="""
    requires
        self.wf(),
    ensures
        /*@read_at_returns_file_range*/ r matches Ok(b) ==> ({
            let file = file_of(self.content@);
            let lo = min_int(offset as int, file.len() as int);
            let hi = min_int(offset + length, file.len() as int);
            b.data@ == file.subrange(lo, if hi >= lo { hi } else { lo })
        }),
""",
         hints=[
             ("before", "let (mut i, mut offset) =", "        let ghost off0 = offset as int;\n        let ghost len0 = length as int;\n        let ghost file = file_of(self.content@);\n        let ghost n = self.content@.len() as int;\n        proof { lemma_startpoints_sorted(self.startpoints, self.content@); if n > 0 { lemma_file_upto_mono(self.content@, 0, n); } }"),
             ("before", "let mut result = BytesMut::with_capacity(length);", "        proof { if n > 0 && (i as int) < n { lemma_file_upto_mono(self.content@, i as int, n); if i + 1 < n { lemma_file_upto_mono(self.content@, i + 1, n); } } }"),
             ("after", "let data = repo.vget_data_blob(", """            proof {
                lemma_blob_slice(self.content@, i as int);
                lemma_file_upto_mono(self.content@, i as int, n);
            }
            let ghost res0 = result.data@;"""),
             ("after", "result.vextend_from_range(", """            proof {
                let p = file_upto(self.content@, i as int).len() as int;
                assert(data.data@.subrange(offset as int, offset + to_copy) =~= file.subrange(p + offset, p + offset + to_copy));
                let lo0 = min_int(off0, file.len() as int);
                assert(lo0 + (len0 - length) == p + offset);
                assert(p + offset + to_copy <= file_upto(self.content@, i + 1).len());
                assert(p + offset + to_copy <= file.len());
                assert(res0 == file.subrange(lo0, p + offset));
                assert(off0 >= 0);
                assert(0 <= lo0);
                assert(len0 - length >= 0);
                assert(lo0 <= p + offset);
                let a = p + offset;
                let b2 = p + offset + to_copy;
                let lhs = res0 + file.subrange(a, b2);
                let rhs = file.subrange(lo0, b2);
                assert(lhs.len() == rhs.len());
                assert forall|k: int| 0 <= k < lhs.len() implies lhs[k] == rhs[k] by {
                    if k < res0.len() {
                        assert(lhs[k] == res0[k]);
                        assert(res0[k] == file.subrange(lo0, a)[k]);
                    } else {
                        assert(lhs[k] == file.subrange(a, b2)[k - res0.len()]);
                    }
                }
                assert(lhs =~= rhs);
                assert(result.data@ =~= res0 + file.subrange(p + offset, p + offset + to_copy));
                assert(result.data@ =~= file.subrange(lo0, lo0 + (len0 - length) + to_copy));
            }"""),
         ],
         loops={1: """
            invariant
                self.wf(),
                n == self.content@.len(), file == file_of(self.content@),
                i <= n, length <= len0, off0 >= 0, len0 >= 0,
                result.data@ =~= file.subrange(min_int(off0, file.len() as int), min_int(off0, file.len() as int) + (len0 - length)),
                min_int(off0, file.len() as int) + (len0 - length) <= file.len(),
                (len0 - length) > 0 ==> off0 + (len0 - length) <= file.len() && offset == 0,
                length > 0 && i < n ==> file_upto(self.content@, i as int).len() + offset == off0 + (len0 - length),
                length > 0 && i == n ==> off0 + (len0 - length) >= file.len(),
                (len0 - length) == 0 && i + 1 < n ==> off0 < file_upto(self.content@, i + 1).len(),
            ensures
                result.data@ == file.subrange(min_int(off0, file.len() as int), if min_int(off0 + len0, file.len() as int) >= min_int(off0, file.len() as int) { min_int(off0 + len0, file.len() as int) } else { min_int(off0, file.len() as int) }),
            decreases n - i
"""},
         ),
]
KANI = []
META = {"not_covered": []}
