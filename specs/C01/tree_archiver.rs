// ===== C01: TreeArchiver -- how the snapshot's trees are assembled from the item stream =====
#[derive(Clone, Copy, PartialEq, Eq, Structural)]
pub struct TreeId(pub u64);
pub struct NameR { pub _opaque: u64 }
pub struct PathR { pub _opaque: u64 }
impl PathR {
    #[verifier::external_body]
    pub fn join(&self, n: NameR) -> PathR { unimplemented!() }
    #[verifier::external_body]
    pub fn new() -> PathR { unimplemented!() }
}
// a node as far as the tree archiver touches it: everything but `subtree` is carried along unchanged (`rest`)
pub struct Node { pub rest: u64, pub subtree: Option<TreeId> }
impl Node {
    #[verifier::external_body]
    pub fn name(&self) -> NameR { unimplemented!() }
}
pub struct Tree { pub nodes: Vec<Node> }
// serde_json::to_vec(tree) ++ "\n" and SHA-256: uninterpreted
pub uninterp spec fn TREE_SER(nodes: Seq<Node>) -> Seq<u8>;
pub uninterp spec fn SHA(d: Seq<u8>) -> u64;
pub open spec fn tree_id_of(nodes: Seq<Node>) -> TreeId { TreeId(SHA(TREE_SER(nodes))) }
pub struct TreeErr { pub _opaque: u64 }
impl Tree {
    // Tree::serialize: (json ++ "\n", hash of that chunk); ASSUMED (serde); the id IS computed from the returned chunk
    #[verifier::external_body]
    pub fn serialize(&self) -> (r: Result<(Vec<u8>, TreeId), TreeErr>)
        ensures r matches Ok(x) ==> x.0@ == TREE_SER(self.nodes@) && x.1 == tree_id_of(self.nodes@),
    { unimplemented!() }
}
// the global index as far as has_tree goes
pub struct VTreeIndex { pub _opaque: u64 }
impl VTreeIndex {
    pub uninterp spec fn trees(&self) -> Set<TreeId>;
    #[verifier::external_body]
    pub fn has_tree(&self, id: &TreeId) -> (r: bool) ensures r == self.trees().contains(*id), { unimplemented!() }
}
// the tree packer as the log of (bytes, id) pairs handed to it.  EFFECT AS PRECONDITION: a blob may only be handed
// over under the hash of its own bytes.
pub struct VTreePacker { pub added: Ghost<Seq<(Seq<u8>, TreeId)>> }
impl VTreePacker {
    #[verifier::external_body]
    pub fn vadd(&mut self, chunk: Vec<u8>, id: TreeId) -> (r: RusticResult<()>)
        requires id.0 == SHA(chunk@),
        ensures r is Ok ==> final(self).added@ == old(self).added@.push((chunk@, id)),
                r is Err ==> final(self).added@ == old(self).added@,
    { unimplemented!() }
}
pub struct SnapshotSummary {
    pub files_new: u64, pub files_changed: u64, pub files_unmodified: u64,
    pub total_files_processed: u64, pub total_bytes_processed: u64,
    pub dirs_new: u64, pub dirs_changed: u64, pub dirs_unmodified: u64,
    pub total_dirs_processed: u64, pub total_dirsize_processed: u64,
}
pub struct TreeArchiver {
    pub tree: Tree,
    pub stack: Vec<(PathR, Node, ParentResult<TreeId>, Tree)>,
    pub index: VTreeIndex,
    pub tree_packer: VTreePacker,
    pub summary: SnapshotSummary,
}
pub type TreeItem = TreeType<(ParentResult<()>, u64), ParentResult<TreeId>>;
pub trait VOkOrErr<T> {
    fn vok_or_verr(self) -> (r: Result<T, Box<RusticError>>);
}
impl<T> VOkOrErr<T> for Option<T> {
    // Option::ok_or_else(|| <error>)
    #[verifier::external_body]
    fn vok_or_verr(self) -> (r: Result<T, Box<RusticError>>)
        ensures self matches Some(v) ==> r == Ok::<T, Box<RusticError>>(v), self is None ==> r is Err,
    { unimplemented!() }
}
// std::mem::replace
#[verifier::external_body]
pub fn vmem_replace_tree(dest: &mut Tree, src: Tree) -> (r: Tree)
    ensures r == *old(dest), *final(dest) == src,
{ unimplemented!() }
// the summary counters are u64 sums of file counts / sizes of one backup run: ASSUMED not to wrap
pub open spec fn counters_have_room(s: SnapshotSummary, bytes: int) -> bool {
    s.files_new < u64::MAX && s.files_changed < u64::MAX && s.files_unmodified < u64::MAX && s.total_files_processed < u64::MAX
    && s.dirs_new < u64::MAX && s.dirs_changed < u64::MAX && s.dirs_unmodified < u64::MAX && s.total_dirs_processed < u64::MAX
    && s.total_bytes_processed + bytes <= u64::MAX && s.total_dirsize_processed + bytes <= u64::MAX
}

// ---- TreeArchiver::finalize: the root tree of the snapshot ----
pub struct PackerStatsT { pub _opaque: u64 }
impl PackerStatsT {
    // PackerStats::apply: adds the packer's counters to the summary (statistics only)
    #[verifier::external_body]
    pub fn apply(self, summary: &mut SnapshotSummary, tpe: BlobTypeT) { unimplemented!() }
}
pub enum BlobTypeT { Tree, Data }
// "Packer::finalize of the tree packer returned Ok" (its meaning -- every pack written and indexed -- is C03's)
pub uninterp spec fn TREE_PACKER_FINALIZED(added: Seq<(Seq<u8>, TreeId)>) -> bool;
impl VTreePacker {
    #[verifier::external_body]
    pub fn vfinalize(self) -> (r: RusticResult<PackerStatsT>)
        ensures r is Ok ==> TREE_PACKER_FINALIZED(self.added@),
    { unimplemented!() }
}
impl PathR {
    #[verifier::external_body]
    pub fn vnew() -> PathR { unimplemented!() }
}
