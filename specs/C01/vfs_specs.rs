impl ContentStartpoints {
    // what from_sizes builds for `content`: prefix sums of the blob lengths, then the sentinel usize::MAX
    spec fn wf_for(&self, content: Seq<DataId>) -> bool {
        if content.len() == 0 { self.0@.len() == 0 } else {
            &&& self.0@.len() == content.len() + 1
            &&& forall|k: int| 0 <= k < content.len() ==> (#[trigger] self.0@[k]) as int == file_upto(content, k).len()
            &&& self.0@[content.len() as int] == usize::MAX
            &&& file_of(content).len() < usize::MAX
        }
    }
}
impl ContentStartpoints {
    // code-level shape: empty, or nondecreasing, starting at 0 and ending with the sentinel
    spec fn shape(&self) -> bool {
        self.0@.len() == 0 || (self.0@.len() >= 2 && nondecreasing(self.0@) && self.0@[0] == 0 && self.0@[self.0@.len() - 1] == usize::MAX)
    }
}
impl OpenFile {
    spec fn wf(&self) -> bool { self.startpoints.wf_for(self.content@) }
}
pub proof fn lemma_startpoints_sorted(sp: ContentStartpoints, content: Seq<DataId>)
    requires sp.wf_for(content),
    ensures nondecreasing(sp.0@),
{
    if content.len() > 0 {
        assert forall|i: int, j: int| 0 <= i <= j < sp.0@.len() implies sp.0@[i] <= sp.0@[j] by {
            if j < content.len() {
                lemma_file_upto_mono(content, i, j);
            } else if i < content.len() {
                lemma_file_upto_mono(content, i, content.len() as int);
            }
        }
    }
}
