impl<T> BlobLocations<T> {
    // the read range [offset, offset+length) contains every member blob, and stays inside a u32-sized pack
    spec fn covers(&self) -> bool {
        &&& self.offset + self.length <= u32::MAX
        &&& forall|i: int| 0 <= i < self.blobs.v@.len() ==>
                self.offset <= (#[trigger] self.blobs.v@[i]).0.offset
                && self.blobs.v@[i].0.offset + self.blobs.v@[i].0.length <= self.offset + self.length
    }
}
