// ===== C02 prelude =====
pub type NonZeroU32 = u32;   // carried around only
// smallvec::SmallVec as a sequence (ASSUMED contract of append / smallvec!)
pub struct SmallVec<T> { pub v: Vec<T> }
impl<T> SmallVec<T> {
    pub fn append(&mut self, other: &mut Self)
        ensures final(self).v@ == old(self).v@ + old(other).v@, final(other).v@.len() == 0,
    { self.v.append(&mut other.v); }
}
pub fn vsmallvec1<T>(x: T) -> (r: SmallVec<T>) ensures r.v@ == seq![x], { let mut v = Vec::new(); v.push(x); SmallVec { v } }
