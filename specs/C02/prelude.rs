// ===== C02 prelude =====
pub type NonZeroU32 = u32;   // carried around only
pub fn vnonzero_new(x: u32) -> (r: Option<u32>) ensures r == (if x != 0 { Some(x) } else { None::<u32> }), { if x != 0 { Some(x) } else { None } }
// smallvec::SmallVec as a sequence (ASSUMED contract of append / smallvec!)
pub struct SmallVec<T> { pub v: Vec<T> }
impl<T> SmallVec<T> {
    pub fn append(&mut self, other: &mut Self)
        ensures final(self).v@ == old(self).v@ + old(other).v@, final(other).v@.len() == 0,
    { self.v.append(&mut other.v); }
}
pub fn vsmallvec1<T>(x: T) -> (r: SmallVec<T>) ensures r.v@ == seq![x], { let mut v = Vec::new(); v.push(x); SmallVec { v } }

// ---- decide_packs: neighbours of the per-pack decision ----
#[derive(Clone, Copy, PartialEq, Eq, Structural)]
pub enum BlobType { Tree, Data }
#[derive(Clone, Copy)]
pub struct PackId { pub _opaque: u64 }
#[derive(Clone, Copy)]
pub struct Timestamp { pub t: i64 }
// a blob is identified by its TYPE together with its id (the property's blob identity)
pub struct IndexBlob { pub tpe: BlobType, pub id: BlobId, pub location: BlobLocation, pub _opaque: u64 }
// EnumSet<PackStatus>: informational flags only (debug statistics); opaque
#[derive(Clone, Copy)]
pub struct StatusSet { pub _opaque: u64 }

pub struct PruneStats { pub _opaque: u64 }
// THE keep-delete rule of the statement: a pack marked at time t may be removed once keep_delete has passed since then:
// t + keep_delete <= now.  Time is modelled as mathematical seconds (jiff's Zoned / SignedDuration / Timestamp: their
// arithmetic is assumed exact -- the saturation of saturating_sub/add at the ends of jiff's range is not reached)
pub open spec fn delete_due(now: ZonedT, keep_delete: DurationT, t: Timestamp) -> bool { t.t + keep_delete.d <= now.t }
#[derive(Clone, Copy)]
pub struct ZonedT { pub t: int }
#[derive(Clone, Copy)]
pub struct DurationT { pub d: int }
pub struct TsT { pub t: int }
impl ZonedT {
    #[verifier::external_body]
    pub fn saturating_sub(&self, d: DurationT) -> (r: ZonedT) ensures r.t == self.t - d.d, { unimplemented!() }
    #[verifier::external_body]
    pub fn saturating_add(&self, d: DurationT) -> (r: ZonedT) ensures r.t == self.t + d.d, { unimplemented!() }
    #[verifier::external_body]
    pub fn timestamp(&self) -> (r: TsT) ensures r.t == self.t, { unimplemented!() }
}
// `a >= b` on jiff Timestamps
#[verifier::external_body]
pub fn vts_ge(a: TsT, b: Timestamp) -> (r: bool) ensures r == (a.t >= b.t), { unimplemented!() }

pub struct VPlan {
    pub repack_candidates: Vec<(PackInfo, StatusSet, RepackReason, usize, usize)>,
    pub stats: PruneStats,
    pub time: ZonedT,
}

// ---- check_existing_packs: which packs may "settle" a used blob ----
// `used_ids` after decide_packs = blobs that still have to be carried over by repacking.  Removing an id from it
// declares "this blob is safely held by a pack that stays" -- allowed ONLY for packs that remain as live
// (unmarked or recovered) packs; a pack that is merely kept until its keep-delete time runs out is no safe holder.
#[derive(Clone, Copy)]
pub struct BlobId { pub _opaque: u64 }
pub struct UsedIds { pub _opaque: u64 }
pub open spec fn safe_holder(t: PackToDo) -> bool { t == PackToDo::Keep || t == PackToDo::Recover }
#[verifier::external_body]
pub fn vused_ids_remove(u: &mut UsedIds, key: &(BlobType, BlobId), Ghost(holder): Ghost<PackToDo>) -> (r: Option<u8>)
    requires safe_holder(holder),
{ unimplemented!() }
#[verifier::external_body]
pub fn vcheck_size(existing_size: Option<u32>, pack_size: u32) -> (r: RusticResult<()>)
    ensures r is Ok ==> existing_size == Some(pack_size),
{ unimplemented!() }
pub struct VBlobRef { pub tpe: BlobType, pub id: BlobId }
pub struct VPackRef { pub to_do: PackToDo, pub size: u32, pub blobs: Vec<VBlobRef> }
pub struct VPlan2 { pub used_ids: UsedIds }

pub fn vunreachable() requires false, {}

// ---- PrunePlan::check: every used blob was found in some index file (count != 0) ----
pub struct VCountMap { pub m: Ghost<Map<(BlobType, u64), u8>> }
impl VCountMap {
    pub closed spec fn view(&self) -> Map<(BlobType, u64), u8> { self.m@ }
    // iteration over &BTreeMap<(BlobType, BlobId), u8>: its entries
    #[verifier::external_body]
    pub fn ventries(&self) -> (r: Vec<((BlobType, BlobId), u8)>)
        ensures
            forall|k: (BlobType, u64)| self@.dom().contains(k) ==> exists|i: int| 0 <= i < r@.len() && ((#[trigger] r@[i]).0.0, r@[i].0.1._opaque) == k,
            forall|i: int| 0 <= i < r@.len() ==> self@.dom().contains(((#[trigger] r@[i]).0.0, r@[i].0.1._opaque)) && self@[(r@[i].0.0, r@[i].0.1._opaque)] == r@[i].1,
    { unimplemented!() }
}
pub struct VPlan3 { pub used_ids: VCountMap }

// ---- prune_repository: execution of the per-pack decision ----
pub struct IndexPack { pub id: PackId, pub time: Option<Timestamp>, pub size: Option<u32>, pub blobs: Vec<IndexBlob> }
impl Clone for PrunePack {
    #[verifier::external_body]
    fn clone(&self) -> (r: Self) ensures r == *self, { unimplemented!() }
}
pub struct VPruneOpts { pub instant_delete: bool }
// which decisions allow which effect -- THE safety rule of prune's execution phase
pub open spec fn stays_live(t: PackToDo) -> bool { t == PackToDo::Keep || t == PackToDo::Recover }
pub open spec fn may_be_marked(t: PackToDo) -> bool { t == PackToDo::Repack || t == PackToDo::MarkDelete || t == PackToDo::KeepMarked || t == PackToDo::KeepMarkedAndCorrect }
pub open spec fn may_be_removed(t: PackToDo) -> bool { may_be_marked(t) || t == PackToDo::Delete }
// the new index under construction (Indexer::add = live section, add_remove = packs_to_delete section)
pub struct VIndexerLog { pub _opaque: u64 }
impl VIndexerLog {
    #[verifier::external_body]
    pub fn vadd(&mut self, pack: IndexPack, Ghost(decision): Ghost<PackToDo>) -> (r: RusticResult<()>)
        requires stays_live(decision),
    { unimplemented!() }
    #[verifier::external_body]
    pub fn vadd_remove(&mut self, pack: IndexPack, Ghost(decision): Ghost<PackToDo>, Ghost(old_time): Ghost<Option<Timestamp>>, Ghost(now): Ghost<Timestamp>) -> (r: RusticResult<()>)
        requires may_be_marked(decision),
            // the keep-delete clock starts when a pack is MARKED: a pack marked in this run carries this run's time ...
            (decision == PackToDo::Repack || decision == PackToDo::MarkDelete) ==> pack.time == Some(now),
            // ... and a pack that stays marked keeps the time it was marked at (healed to now only if it had none)
            (decision == PackToDo::KeepMarked || decision == PackToDo::KeepMarkedAndCorrect) ==> pack.time == (if old_time is Some { old_time } else { Some(now) }),
    { unimplemented!() }
}
// the closure `delete_pack` (pushes the id onto the list of packs removed at the end of prune)
pub struct VRemoved { pub _opaque: u64 }
impl VRemoved {
    #[verifier::external_body]
    pub fn vdelete_pack(&mut self, pack: &PrunePack)
        requires may_be_removed(pack.to_do),
    { unimplemented!() }
}
pub open spec fn bid(b: IndexBlob) -> (BlobType, u64) { (b.tpe, b.id._opaque) }
pub struct VUsedSet { pub s: Ghost<Set<(BlobType, u64)>> }
// pack.blobs.retain(|blob| used_ids.remove(&(blob.tpe, blob.id)).is_some()): keeps the first occurrence of every blob that is still
// needed and strikes it from used_ids (ASSUMED contract of Vec::retain with THIS closure literal)
#[verifier::external_body]
pub fn vretain_still_used(blobs: &mut Vec<IndexBlob>, used: &mut VUsedSet)
    ensures
        forall|b: IndexBlob| old(blobs)@.contains(b) && old(used).s@.contains(bid(b)) ==> exists|j: int| 0 <= j < final(blobs)@.len() && bid(#[trigger] final(blobs)@[j]) == bid(b),
        forall|j: int| 0 <= j < final(blobs)@.len() ==> old(blobs)@.contains(#[trigger] final(blobs)@[j]) && old(used).s@.contains(bid(final(blobs)@[j])),
        forall|k: (BlobType, u64)| final(used).s@.contains(k) <==> old(used).s@.contains(k) && !(exists|j: int| 0 <= j < old(blobs)@.len() && bid(#[trigger] old(blobs)@[j]) == k),
{ unimplemented!() }
#[verifier::external_body]
pub fn vsort_blobs_c02(blobs: &mut Vec<IndexBlob>)
    ensures final(blobs)@.to_multiset() == old(blobs)@.to_multiset(), final(blobs)@.len() == old(blobs)@.len(),
{ unimplemented!() }

// PackId equality (ids are opaque here)
pub uninterp spec fn same_pack(a: PackId, b: PackId) -> bool;
#[verifier::external_body]
pub fn vpackid_eq(a: &PackId, b: &PackId) -> (r: bool) ensures r == same_pack(*a, *b), { unimplemented!() }
#[verifier::external_body]
pub proof fn axiom_same_pack_refl(a: PackId) ensures same_pack(a, a), {}

// ---- BlobCopier::{copy_fast, copy}: how a (coalesced) range of blobs is carried over into new packs ----
pub struct BytesC { pub data: Ghost<Seq<u8>> }
impl BytesC {
    #[verifier::external_body]
    pub fn len(&self) -> (r: usize) ensures r == self.data@.len(), { unimplemented!() }
}
// Bytes::copy_from_slice(&data[start..end]): the slice PANICS unless start <= end <= len
#[verifier::external_body]
pub fn vcopy_range(data: &BytesC, start: usize, end: usize) -> (r: BytesC)
    requires start <= end <= data.data@.len(),
    ensures r.data@ == data.data@.subrange(start as int, end as int),
{ unimplemented!() }
#[derive(Clone, Copy, PartialEq, Eq, Structural)]
pub enum FileTypeC { Config, Index, Key, Snapshot, Pack }
// the bytes of a stored pack file / the plaintext of a ciphertext: uninterpreted
pub uninterp spec fn PACK_BYTES(id: PackId) -> Seq<u8>;
pub uninterp spec fn PLAIN(cipher: Seq<u8>) -> Seq<u8>;
pub struct VSrcBackend { pub _opaque: u64 }
impl VSrcBackend {
    // ASSUMED backend contract (cf. C20): a ranged read returns exactly the requested range
    #[verifier::external_body]
    pub fn read_partial(&self, tpe: FileTypeC, id: &PackId, cacheable: bool, offset: u32, length: u32) -> (r: RusticResult<BytesC>)
        ensures r matches Ok(b) ==> offset + length <= PACK_BYTES(*id).len() && b.data@ == PACK_BYTES(*id).subrange(offset as int, offset + length),
    { unimplemented!() }
    // read_encrypted_from_partial(&read_data[start..end], uncompressed_length): decrypt (+ decompress)
    #[verifier::external_body]
    pub fn vread_encrypted_from_range(&self, data: &BytesC, start: usize, end: usize, ul: Option<NonZeroU32>) -> (r: RusticResult<BytesC>)
        requires start <= end <= data.data@.len(),
        ensures r matches Ok(b) ==> b.data@ == PLAIN(data.data@.subrange(start as int, end as int)),
    { unimplemented!() }
}
impl BlobType {
    #[verifier::external_body]
    pub fn is_cacheable(&self) -> bool { unimplemented!() }
}
pub struct ProgressC { pub _opaque: u64 }
impl ProgressC {
    #[verifier::external_body]
    pub fn inc(&self, n: u64) { unimplemented!() }
}
// the destination packer.  EFFECT AS PRECONDITION: what is handed over under `id` is exactly the stored bytes (resp. the
// plaintext of the stored bytes) of the blob that the list pairs with `id`, with that blob's lengths
pub struct VDstPacker { pub _opaque: u64 }
impl VDstPacker {
    #[verifier::external_body]
    pub fn add_raw(&self, Ghost(pack): Ghost<PackId>, Ghost(loc): Ghost<BlobLocation>,
                   data: BytesC, id: &BlobId, data_len: u64, uncompressed_length: Option<NonZeroU32>) -> (r: RusticResult<()>)
        requires loc.offset + loc.length <= PACK_BYTES(pack).len(),
            data.data@ == PACK_BYTES(pack).subrange(loc.offset as int, loc.offset + loc.length),
            data_len == loc.length, uncompressed_length == loc.uncompressed_length,
    { unimplemented!() }
    #[verifier::external_body]
    pub fn add(&self, Ghost(pack): Ghost<PackId>, Ghost(loc): Ghost<BlobLocation>, data: BytesC, id: BlobId) -> (r: RusticResult<()>)
        requires loc.offset + loc.length <= PACK_BYTES(pack).len(),
            data.data@ == PLAIN(PACK_BYTES(pack).subrange(loc.offset as int, loc.offset + loc.length)),
    { unimplemented!() }
}
pub struct BlobCopier { pub be_src: VSrcBackend, pub packer: VDstPacker, pub blob_type: BlobType }
