"""C02 — forget and prune never lose data still referenced by a snapshot."""
from tools.extract import Unit, Rw
from tools.krun import Harness

PROPERTY = "C02"
PRELUDE = ["../common/base.rs", "prelude.rs", "blob_specs.rs", "used.rs"]
BL = "crates/core/src/blob.rs"
W = dict(wrap_open="impl<T> BlobLocations<T> {", wrap_close="}")

UNITS = [
    Unit(name="blob_constants", file=BL, kind="type", anchor="pub(super) mod constants {",
         rewrites=[Rw("pub(super)", "pub", count=None, why="visibility only"), Rw("pub(crate)", "pub", count=None, why="visibility only")]),
    Unit(name="BlobLocation", file=BL, kind="type", anchor="pub struct BlobLocation {", attrs="#[derive(Clone, Copy)]"),
    Unit(name="BlobLocations", file=BL, kind="type", anchor="pub struct BlobLocations<T> {",
         rewrites=[Rw("SmallVec<[(BlobLocation, T); 1]>", "SmallVec<(BlobLocation, T)>", why="smallvec inline-array type parameter -> element type (storage strategy irrelevant)")]),
    Unit(name="from_blob_location", file=BL, anchor="pub fn from_blob_location(location: BlobLocation, target: T) -> Self", ret_name="r", **W,
         functions=["blob::BlobLocations::from_blob_location"],
         rewrites=[Rw("smallvec![(location, target)]", "vsmallvec1((location, target))", why="smallvec! macro with one element")],
         contract="""
    requires
        location.offset + location.length <= u32::MAX,
    ensures
        /*@single_blob_range*/ r.offset == location.offset && r.length == location.length && r.blobs.v@ == seq![(location, target)] && r.covers(),
"""),
    Unit(name="can_coalesce", file=BL, anchor="pub fn can_coalesce(&self, other: &Self) -> bool", ret_name="r", **W,
         functions=["blob::BlobLocations::can_coalesce"],
         contract="""
    requires
        self.covers(), other.covers(),
        // packs are at most u32::MAX - MAX_HOLESIZE bytes long (holds for every pack this library writes: MAX_SIZE = 4076 MiB)
        self.offset + self.length + constants::MAX_HOLESIZE <= u32::MAX,
    ensures
        /*@can_coalesce_def*/ r == (other.offset >= self.offset + self.length
                                   && other.offset <= self.offset + self.length + constants::MAX_HOLESIZE
                                   && other.offset + other.length - self.offset <= constants::LIMIT_PACK_READ),
"""),
    Unit(name="append", file=BL, anchor="pub fn append(mut self, mut other: Self) -> Self", ret_name="r", **W,
         functions=["blob::BlobLocations::append"],
         rewrites=[Rw("mut self, mut other: Self", "self, other: Self", sig=True, why="`mut self` parameter (unsupported by Verus) -> rebinding `let mut this = self` + alpha-renaming self -> this in the body"),
                   Rw(r"\bself\b", "this", regex=True, count=None, why="alpha-renaming, see above")],
         hints=[("before", "this.length =", "        let mut this = self;\n        let mut other = other;")],
         contract="""
    requires
        self.covers(), other.covers(),
        other.offset >= self.offset + self.length,     // established by can_coalesce
    ensures
        /*@append_covers_all_members*/ r.covers(),
        /*@append_range*/ r.offset == self.offset && r.offset + r.length == other.offset + other.length,
        /*@append_keeps_members_in_order*/ r.blobs.v@ == self.blobs.v@ + other.blobs.v@,
"""),
    Unit(name="coalesce", file=BL, anchor="pub fn coalesce(self, other: Self) -> Result<Self, (Self, Self)>", ret_name="r", **W,
         functions=["blob::BlobLocations::coalesce"],
         contract="""
    requires
        self.covers(), other.covers(),
        self.offset + self.length + constants::MAX_HOLESIZE <= u32::MAX,
    ensures
        /*@coalesce_ok_covers*/ r matches Ok(c) ==> c.covers() && c.blobs.v@ == self.blobs.v@ + other.blobs.v@ && c.offset == self.offset
                                 && c.length <= constants::LIMIT_PACK_READ,
        /*@coalesce_err_returns_both*/ r matches Err(p) ==> p.0 == self && p.1 == other,
"""),
]

PR = "crates/core/src/commands/prune.rs"
R_ATTRS = Rw("", "", count=None, kind="attrs", why="derive/serde helper attributes removed")
UNITS += [
    Unit(name="PackToDo", file=PR, kind="type", anchor="pub enum PackToDo {", attrs="#[derive(Clone, Copy, PartialEq, Eq, Structural)]", rewrites=[R_ATTRS]),
    Unit(name="RepackReason", file=PR, kind="type", anchor="enum RepackReason {"),
    Unit(name="PackInfo", file=PR, kind="type", anchor="struct PackInfo {", attrs="#[derive(Clone, Copy)]"),
    Unit(name="PrunePack", file=PR, kind="type", anchor="struct PrunePack {"),
    Unit(name="set_todo", file=PR, anchor="fn set_todo(", within="impl PrunePack {",
         wrap_open="impl PrunePack {", wrap_close="}",
         functions=["commands::prune::PrunePack::set_todo"],
         rewrites=[
             Rw(r"(?m)^\s*stats\.[a-z_.\[\]]+ \+= [^;]*;\n", "\n", regex=True, count=None, why="statistics counters removed (not part of the property)"),
             Rw(r"(?m)^\s*stats\.debug\.add\([^;]*\);\n", "\n", regex=True, why="debug statistics removed"),
             Rw('panic!("not possible")', "vunreachable()", why="panic! -> stub requiring unreachability"),
             Rw("status: EnumSet<PackStatus>,", "status: StatusSet,", sig=True, why="EnumSet<PackStatus> -> opaque status set"),
         ],
         contract="""
    requires
        todo != PackToDo::Undecided,
    ensures
        /*@set_todo_records_decision*/ final(self).to_do == todo,
        /*@set_todo_frame*/ final(self).delete_mark == old(self).delete_mark && final(self).time == old(self).time && final(self).blob_type == old(self).blob_type,
"""),
    Unit(name="decide_one_pack", file=PR, kind="block", within="fn decide_packs(",
         anchor="match (pack.delete_mark, pi.used_blobs, pi.unused_blobs) {", block_end="@matching_brace",
         block_sig="fn decide_one_pack(this: &mut VPlan, pack: &mut PrunePack, pi: PackInfo, status: StatusSet, too_young: bool, keep_uncacheable: bool, to_compress: bool, repack_all: bool, size_mismatch: bool, index_num: usize, pack_num: usize, keep_delete: DurationT)",
         block_tail="",
         functions=["commands::prune::PrunePlan::decide_packs (per-pack decision: the `match (delete_mark, used_blobs, unused_blobs)` statement)"],
         rewrites=[
             Rw("", "", count=None, kind="log", why="logging removed"),
             Rw(r"(?m)^\s*self\.stats\.packs\.\w+ \+= 1;\n", "\n", regex=True, count=None, why="statistics counters removed (not part of the property)"),
             Rw(r"(?m)^\s*(_ = )?status\s*\.insert(_all)?\([^;]*\);\n", "\n", regex=True, count=None, why="informational status flags removed"),
             Rw(r"status\s*\n\s*\.insert_all\([^;]*\);", "", regex=True, count=None, why="informational status flags removed"),
             Rw(r"(?P<l>self\.time\.\w+\(keep_delete\)\.timestamp\(\))\s*>=\s*local_date_time", r"vts_ge(\g<l>, local_date_time)", regex=True, why="`>=` on jiff Timestamps -> stub over mathematical seconds (the arithmetic in front of it stays as written)"),
             Rw("self.time.", "this.time.", count=None, why="statement-block unit: self -> parameter"),
             Rw("&mut self.stats", "&mut this.stats", count=None, why="statement-block unit: self -> parameter"),
             Rw("self.repack_candidates", "this.repack_candidates", count=None, why="statement-block unit: self -> parameter"),
         ],
         contract="""
    requires
        old(pack).to_do == PackToDo::Undecided,
    ensures
        final(pack).delete_mark == old(pack).delete_mark,
        // --- safety: a pack holding a blob some snapshot still needs is never scheduled for removal ---
        /*@used_pack_never_removed*/ pi.used_blobs >= 1 ==> final(pack).to_do != PackToDo::MarkDelete && final(pack).to_do != PackToDo::Delete
              && final(pack).to_do != PackToDo::KeepMarked && final(pack).to_do != PackToDo::KeepMarkedAndCorrect,
        /*@marked_and_needed_is_recovered*/ old(pack).delete_mark && pi.used_blobs >= 1 ==> final(pack).to_do == PackToDo::Recover,
        /*@used_unmarked_kept_or_candidate*/ !old(pack).delete_mark && pi.used_blobs >= 1 ==>
              (final(pack).to_do == PackToDo::Keep && final(this).repack_candidates@ == old(this).repack_candidates@)
              || (final(pack).to_do == PackToDo::Undecided && final(this).repack_candidates@.len() == old(this).repack_candidates@.len() + 1
                  && final(this).repack_candidates@.last().3 == index_num && final(this).repack_candidates@.last().4 == pack_num),
        // --- two-phase deletion ---
        /*@unused_unmarked_only_marked*/ !old(pack).delete_mark && pi.used_blobs == 0 ==> final(pack).to_do == (if too_young { PackToDo::Keep } else { PackToDo::MarkDelete }),
        /*@delete_only_after_keep_delete*/ final(pack).to_do == PackToDo::Delete ==> old(pack).delete_mark && pi.used_blobs == 0
              && (old(pack).time matches Some(t) && delete_due(old(this).time, keep_delete, t)),
        /*@marked_unused_not_due_is_kept*/ old(pack).delete_mark && pi.used_blobs == 0 ==> (match old(pack).time {
              None => final(pack).to_do == PackToDo::KeepMarkedAndCorrect,
              Some(t) => final(pack).to_do == (if delete_due(old(this).time, keep_delete, t) { PackToDo::Delete } else { PackToDo::KeepMarked }),
        }),
        /*@young_pack_kept*/ too_young && !old(pack).delete_mark ==> final(pack).to_do == PackToDo::Keep,
"""),
]

UNITS += [
    Unit(name="settle_used_blobs", file=PR, kind="block", within="fn check_existing_packs(&mut self)",
         anchor="match pack.to_do {", block_end="@matching_brace",
         block_sig="fn settle_used_blobs(this: &mut VPlan2, pack: &VPackRef, existing_size: Option<u32>) -> (r: RusticResult<()>)",
         block_tail="    Ok(())",
         functions=["commands::prune::PrunePlan::check_existing_packs (per-pack `match pack.to_do` statement)"],
         rewrites=[
             Rw("", "verr()", count=None, kind="err", why="RusticError construction dropped"),
             Rw("check_size()?;", "vcheck_size(existing_size, pack.size)?;", count=None, why="local closure check_size (size comparison with the listing) -> stub"),
             Rw("for blob in &pack.blobs {", "for blob in it: pack.blobs.iter() {", why="Verus for-loop syntax"),
             Rw("_ = self.used_ids.remove(&(blob.tpe, blob.id));", "let _ = vused_ids_remove(&mut this.used_ids, &(blob.tpe, blob.id), Ghost(pack.to_do));", why="BTreeMap::remove on used_ids -> effectful stub whose PRECONDITION is 'the pack is a safe holder'"),
         ],
         loops={1: "\n                        invariant safe_holder(pack.to_do),\n"},
         contract="""
    ensures
        /*@undecided_pack_is_an_error*/ pack.to_do == PackToDo::Undecided ==> r is Err,
        /*@kept_and_repacked_packs_must_exist_with_index_size*/ r is Ok && (pack.to_do == PackToDo::Keep || pack.to_do == PackToDo::Recover || pack.to_do == PackToDo::Repack)
              ==> existing_size == Some(pack.size),
"""),
]

UNITS += [
    Unit(name="plan_check", file=PR, anchor="fn check(&self) -> RusticResult<()>", within="impl PrunePlan {", ret_name="r",
         wrap_open="impl VPlan3 {", wrap_close="}",
         functions=["commands::prune::PrunePlan::check"],
         rewrites=[
             Rw("", "verr()", count=None, kind="err", why="RusticError construction dropped"),
             Rw("for ((_, id), count) in &self.used_ids {", "let ents = self.used_ids.ventries(); for e in it: ents.iter() { let (id, count) = (&e.0.1, &e.1);", why="map iteration -> entries vector; Verus for-loop syntax"),
         ],
         contract="""
    ensures
        // prune goes on only if every blob a snapshot uses was found in some index file
        /*@ok_only_if_every_used_blob_is_indexed*/ r is Ok ==> forall|k: (BlobType, u64)| self.used_ids@.dom().contains(k) ==> #[trigger] self.used_ids@[k] != 0,
        /*@missing_blob_is_an_error*/ r is Err ==> exists|k: (BlobType, u64)| self.used_ids@.dom().contains(k) && #[trigger] self.used_ids@[k] == 0,
""",
         loops={1: """
            invariant
                forall|i: int| 0 <= i < it.index@ ==> (#[trigger] ents@[i]).1 != 0,
                forall|i: int| 0 <= i < ents@.len() ==> self.used_ids@.dom().contains(((#[trigger] ents@[i]).0.0, ents@[i].0.1._opaque)) && self.used_ids@[(ents@[i].0.0, ents@[i].0.1._opaque)] == ents@[i].1,
                forall|k: (BlobType, u64)| self.used_ids@.dom().contains(k) ==> exists|i: int| 0 <= i < ents@.len() && ((#[trigger] ents@[i]).0.0, ents@[i].0.1._opaque) == k,
"""},
         hints=[("loop_start", "1", "            proof { assert(ents@[it.index@] == *e); assert(self.used_ids@.dom().contains((e.0.0, e.0.1._opaque)) && self.used_ids@[(e.0.0, e.0.1._opaque)] == e.1); }")],
         ),
]

WPP = dict(wrap_open="impl PrunePack {", wrap_close="}")
UNITS += [
    Unit(name="into_index_pack", file=PR, anchor="fn into_index_pack(self, time: Timestamp) -> IndexPack", within="impl PrunePack {", ret_name="r", **WPP,
         functions=["commands::prune::PrunePack::into_index_pack"],
         contract="\n    ensures /*@into_index_pack_keeps_id_blobs_time*/ r.id == self.id && r.blobs == self.blobs && r.time == (if self.time is Some { self.time } else { Some(time) }),\n"),
    Unit(name="into_index_pack_with_time", file=PR, anchor="fn into_index_pack_with_time(self, time: Timestamp) -> IndexPack", within="impl PrunePack {", ret_name="r", **WPP,
         functions=["commands::prune::PrunePack::into_index_pack_with_time"],
         contract="\n    ensures /*@into_index_pack_with_time*/ r.id == self.id && r.blobs == self.blobs && r.time == Some(time),\n"),
    # execution phase: what prune_repository does with ONE pack for each decision
    Unit(name="execute_pack_decision", file=PR, kind="block", within="pub(crate) fn prune_repository<S: Open>(",
         anchor="match pack.to_do {", block_end="@matching_brace",
         block_sig="fn execute_pack_decision(mut pack: PrunePack, opts: &VPruneOpts, indexer: &mut VIndexerLog, removed: &mut VRemoved, used_ids: &mut VUsedSet, repack_packs: &mut Vec<PrunePack>, prune_time: Timestamp) -> (r: RusticResult<()>)",
         block_tail="    Ok(())",
         functions=["commands::prune::prune_repository (per-pack `match pack.to_do` statement of the index rebuilding loop)"],
         rewrites=[
             Rw("", "verr()", count=None, kind="err", why="RusticError construction dropped"),
             Rw("delete_pack(&pack)", "removed.vdelete_pack(&pack)", count=None, why="local closure delete_pack -> effectful stub whose PRECONDITION is 'this decision allows removal'"),
             Rw("indexer.add(pack)?", "indexer.vadd(pack, Ghost(decision))?", count=None, why="Indexer::add (live section) -> effectful stub: PRECONDITION 'the decision keeps the pack live'"),
             Rw("indexer.add_remove(pack)?", "indexer.vadd_remove(pack, Ghost(decision), Ghost(mark_time0), Ghost(prune_time))?", count=None, why="Indexer::add_remove (marked section) -> effectful stub: PRECONDITION 'the decision allows marking'"),
             Rw("pack.blobs\n                        .retain(|blob| used_ids.remove(&(blob.tpe, blob.id)).is_some());", "vretain_still_used(&mut pack.blobs, used_ids);", why="Vec::retain with the closure literal |blob| used_ids.remove(&(blob.tpe, blob.id)).is_some() -> stub (assumed contract; the key is the TYPED blob identity)"),
             Rw("pack.blobs.sort_unstable();", "vsort_blobs_c02(&mut pack.blobs);", why="sort_unstable: permutation"),
         ],
         contract="""
    ensures
        /*@undecided_pack_aborts_prune*/ pack.to_do == PackToDo::Undecided ==> r is Err,
        // a pack that is repacked is queued with every blob of it that is still needed (no needed blob is dropped) ...
        /*@repack_queues_every_still_needed_blob*/ r is Ok && pack.to_do == PackToDo::Repack ==> final(repack_packs)@.len() == old(repack_packs)@.len() + 1
            && final(repack_packs)@.last().id == pack.id
            && forall|b: IndexBlob| pack.blobs@.contains(b) && old(used_ids).s@.contains(bid(b)) ==>
                   exists|j: int| 0 <= j < final(repack_packs)@.last().blobs@.len() && bid(#[trigger] final(repack_packs)@.last().blobs@[j]) == bid(b),
        // ... and nothing else touches the queue or the set of blobs still to be carried over
        /*@other_decisions_leave_queue_and_used_ids*/ pack.to_do != PackToDo::Repack ==> final(repack_packs)@ == old(repack_packs)@ && final(used_ids).s@ == old(used_ids).s@,
        // (implicit obligations, preconditions of the effectful stubs: only Keep/Recover packs enter the live section of the new
        //  index; only Repack/MarkDelete/KeepMarked* packs are marked; only those and Delete packs are ever removed; a pack marked
        //  in this run is recorded with this run's time, a pack that stays marked keeps its mark time)
""",
         hints=[("before", "match pack.to_do {", "    let ghost decision = pack.to_do; let ghost mark_time0 = pack.time;"),
                ("after", "vsort_blobs_c02(&mut pack.blobs);", """                    proof {
                        let kept = retained;
                        assert forall|b: IndexBlob| old_blobs.contains(b) && old(used_ids).s@.contains(bid(b)) implies
                            exists|j: int| 0 <= j < pack.blobs@.len() && bid(#[trigger] pack.blobs@[j]) == bid(b) by {
                            let j0 = choose|j0: int| 0 <= j0 < kept.len() && bid(#[trigger] kept[j0]) == bid(b);
                            kept.to_multiset_ensures();
                            pack.blobs@.to_multiset_ensures();
                            assert(kept.contains(kept[j0]));
                            assert(pack.blobs@.to_multiset().count(kept[j0]) > 0);
                            assert(pack.blobs@.contains(kept[j0]));
                            let j1 = choose|j1: int| 0 <= j1 < pack.blobs@.len() && pack.blobs@[j1] == kept[j0];
                            assert(bid(pack.blobs@[j1]) == bid(b));
                        }
                    }"""),
                ("after", "vretain_still_used(&mut pack.blobs, used_ids);", "                    let ghost retained = pack.blobs@;"),
                ("before", "vretain_still_used(&mut pack.blobs, used_ids);", "                    let ghost old_blobs = pack.blobs@;"),
         ],
         ),
]

# ---- restore's read plan uses the same coalescing: PackInfo::coalesce (commands/restore.rs)
RS = "crates/core/src/commands/restore.rs"
UNITS += [
    Unit(name="RestorePackInfo", file=RS, kind="type", anchor="struct PackInfo {",
         rewrites=[Rw("struct PackInfo {", "struct RPackInfo {", why="renamed: a second PackInfo (prune) lives in the same verification file"),
                   Rw("BlobLocations<SmallVec<[(usize, u64); 1]>>", "BlobLocations<SmallVec<(usize, u64)>>", why="smallvec inline-array type parameter -> element type")]),
    Unit(name="restore_packinfo_coalesce", file=RS, anchor="fn coalesce(self, other: Self) -> Result<Self, (Self, Self)>", within="impl PackInfo {", ret_name="r",
         wrap_open="impl RPackInfo {", wrap_close="}",
         functions=["commands::restore::PackInfo::coalesce"],
         rewrites=[Rw("self.pack_id == other.pack_id", "vpackid_eq(&self.pack_id, &other.pack_id)", why="PartialEq on PackId (opaque id)")],
         contract="""
    requires
        self.locations.covers(), other.locations.covers(),
        self.locations.offset + self.locations.length + constants::MAX_HOLESIZE <= u32::MAX,
    ensures
        // two reads are merged only within one pack, never when the first is served from an existing file, and the merged
        // range covers every member blob of both
        /*@restore_coalesce_same_pack_only*/ r matches Ok(c) ==> same_pack(self.pack_id, other.pack_id) && self.from_file is None && c.from_file is None
            && c.pack_id == self.pack_id && c.locations.covers()
            && c.locations.blobs.v@ == self.locations.blobs.v@ + other.locations.blobs.v@ && c.locations.offset == self.locations.offset,
        /*@restore_coalesce_err_returns_both*/ r matches Err(p) ==> p.0 == self && p.1 == other,
"""),
]

# ---- BlobCopier (repack in prune, copy): each member blob of a coalesced range is carried over with exactly its bytes
PKF = "crates/core/src/blob/packer.rs"
WBC = dict(wrap_open="impl BlobCopier {", wrap_close="}")
R_MAPERR = Rw("", "", count=None, kind="maperr", why=".map_err(<error building closure>) -> .vmap_err()")
R_TRYFROM = Rw(r"usize::try_from\((?P<e>[^()]*(?:\([^()]*\))?[^()]*)\)\s*\.expect\(\"convert from u32 to usize should not fail!\"\)", r"((\g<e>) as usize)", regex=True, count=None,
               why="usize::try_from(u32 expr).expect(..) -> cast (lossless: usize is 64 bit)")
COPY_COMMON = [
    Rw("pack_blobs: CopyPackBlobs, p: &Progress", "pack_blobs: CopyPackBlobs, p: &ProgressC", sig=True, why="Progress -> stub"),
    Rw("FileType::Pack", "FileTypeC::Pack", why="FileType -> stub enum"),
    Rw("for (blob, blob_id) in pack_blobs.locations.blobs {", "let vpack = pack_blobs.pack_id; for e in it: pack_blobs.locations.blobs.v.iter() { let (blob, blob_id) = (e.0, e.1);", why="SmallVec by-value iteration -> by reference; Verus for-loop syntax"),
    R_TRYFROM, R_MAPERR,
    Rw("p.inc(blob.length.into());", "p.inc(blob.length as u64);", why="u32 -> u64"),
    Rw("NonZeroU32::new(", "vnonzero_new(", count=None, optional=True, why="NonZeroU32::new (NonZeroU32 modelled as u32): Some(x) iff x != 0"),
]
UNITS += [
    Unit(name="CopyPackBlobs", file=PKF, kind="type", anchor="pub struct CopyPackBlobs {", rewrites=[R_ATTRS]),
    Unit(name="copy_pack_blobs_coalesce", file=PKF, anchor="pub fn coalesce(self, other: Self) -> Result<Self, (Self, Self)>", within="impl CopyPackBlobs {", ret_name="r",
         wrap_open="impl CopyPackBlobs {", wrap_close="}",
         functions=["blob::packer::CopyPackBlobs::coalesce"],
         rewrites=[Rw("self.pack_id == other.pack_id", "vpackid_eq(&self.pack_id, &other.pack_id)", why="PartialEq on PackId (opaque id)")],
         contract="""
    requires
        self.locations.covers(), other.locations.covers(),
        self.locations.offset + self.locations.length + constants::MAX_HOLESIZE <= u32::MAX,
    ensures
        /*@copy_coalesce_same_pack_only*/ r matches Ok(c) ==> same_pack(self.pack_id, other.pack_id) && c.pack_id == self.pack_id && c.locations.covers()
            && c.locations.blobs.v@ == self.locations.blobs.v@ + other.locations.blobs.v@ && c.locations.offset == self.locations.offset,
        /*@copy_coalesce_err_returns_both*/ r matches Err(p) ==> p.0 == self && p.1 == other,
"""),
    Unit(name="copy_fast", file=PKF, anchor="pub fn copy_fast(&self, pack_blobs: CopyPackBlobs, p: &Progress) -> RusticResult<()>", within="impl<BE: DecryptFullBackend> BlobCopier<BE> {", ret_name="r", **WBC,
         functions=["blob::packer::BlobCopier::copy_fast"],
         rewrites=COPY_COMMON + [
             Rw("Bytes::copy_from_slice(&data[start..end])", "vcopy_range(&data, start, end)", why="Bytes::copy_from_slice of a sub-slice: bounds become a precondition"),
             Rw(".add_raw(", ".add_raw(Ghost(vpack), Ghost(blob),", why="ghost arguments of the packer stub: which stored blob this is"),
         ],
         contract="""
    requires pack_blobs.locations.covers(),
    // (implicit obligation, precondition of the packer stub: every member blob is handed over with exactly its stored
    //  bytes, under the id the list pairs it with, with its lengths; no slice is out of range)
""",
         loops={1: "\n            invariant pack_blobs.locations.covers(), offset == pack_blobs.locations.offset, vpack == pack_blobs.pack_id,\n                offset + pack_blobs.locations.length <= PACK_BYTES(vpack).len(), data.data@ == PACK_BYTES(vpack).subrange(offset as int, offset + pack_blobs.locations.length),\n"},
         hints=[("loop_start", "1", "            proof { assert(pack_blobs.locations.blobs.v@[it.index@] == *e); }"),
                ("before", "self.packer\n                .add_raw(", "            proof { assert(data.data@.subrange(start as int, end as int) =~= PACK_BYTES(vpack).subrange(blob.offset as int, blob.offset + blob.length)); }")],
         ),
    Unit(name="copy_slow", file=PKF, anchor="pub fn copy(&self, pack_blobs: CopyPackBlobs, p: &Progress) -> RusticResult<()>", within="impl<BE: DecryptFullBackend> BlobCopier<BE> {", ret_name="r", **WBC,
         functions=["blob::packer::BlobCopier::copy"],
         rewrites=COPY_COMMON + [
             Rw(".read_encrypted_from_partial(&read_data[start..end], blob.uncompressed_length)?", ".vread_encrypted_from_range(&read_data, start, end, blob.uncompressed_length)?", why="decrypt (+decompress) of a sub-slice: bounds become a precondition; plaintext uninterpreted"),
             Rw("self.packer.add(", "self.packer.add(Ghost(vpack), Ghost(blob), ", why="ghost arguments of the packer stub: which stored blob this is"),
         ],
         contract="""
    requires pack_blobs.locations.covers(),
    // (implicit obligation: every member blob is handed over as the plaintext of exactly its stored bytes, under its id)
""",
         loops={1: "\n            invariant pack_blobs.locations.covers(), offset == pack_blobs.locations.offset, vpack == pack_blobs.pack_id,\n                offset + pack_blobs.locations.length <= PACK_BYTES(vpack).len(), read_data.data@ == PACK_BYTES(vpack).subrange(offset as int, offset + pack_blobs.locations.length),\n"},
         hints=[("loop_start", "1", "            proof { assert(pack_blobs.locations.blobs.v@[it.index@] == *e); }"),
                ("before", "let data = self\n                .be_src", "            proof { assert(read_data.data@.subrange(start as int, end as int) =~= PACK_BYTES(vpack).subrange(blob.offset as int, blob.offset + blob.length)); }")],
         ),
]

KANI = []
# ---- which index files prune rewrites: a pack whose decision changes the index forces its index file to be processed
UNITS += [
    Unit(name="pack_forces_index_rewrite", file=PR, kind="block", within="fn filter_index_files(&mut self, instant_delete: bool)",
         anchor="@closure:.any(|p|", 
         block_sig="fn pack_forces_index_rewrite(p: &PrunePack, instant_delete: bool) -> (r: bool)",
         block_tail="",
         functions=["commands::prune::PrunePlan::filter_index_files (per-pack predicate of `must_modify`)"],
         contract="""
    ensures
        // a decision that is carried out by rewriting the pack's index entry (repack, mark, bring back, remove, correct the
        // mark time) must make prune process the index file that lists the pack: otherwise the decision is silently dropped
        /*@index_changing_decision_forces_rewrite*/ (p.to_do == PackToDo::Repack || p.to_do == PackToDo::MarkDelete || p.to_do == PackToDo::Recover
            || p.to_do == PackToDo::Delete || p.to_do == PackToDo::KeepMarkedAndCorrect) ==> r,
"""),
]

# ---- find_used_blobs: the per-tree node loop records every blob a snapshot needs under its TYPED identity
UNITS += [
    Unit(name="find_used_nodes", file=PR, kind="block", within="fn find_used_blobs<S>(",
         anchor="for node in tree.nodes {", block_end="@for_end",
         block_sig="fn find_used_nodes(tree: &TreeU, ids: &mut VIdMap)",
         block_tail="",
         functions=["commands::prune::find_used_blobs (per-tree node loop: which blobs are recorded as needed)"],
         rewrites=[
             Rw("for node in tree.nodes {", "for node in it: tree.nodes.iter() {", why="by-value iteration -> by reference; Verus for-loop syntax"),
             Rw(r"ids\.extend\(\s*node\.content\s*\.iter\(\)\s*\.flatten\(\)\s*\.map\(\|id\| \(\((BlobType::\w+), BlobId::from\(\*\*id\)\), 0\)\),\s*\);", r"vextend_used(ids, &node.content, \1);" + "\n" * 5, regex=True,
                why="Extend with an iterator adapter chain -> stub: every content id inserted under the type named in the closure literal"),
             Rw("BlobId::from(*node.subtree.unwrap())", "vblobid_of_tree(node.subtree.unwrap())", why="TreeId -> BlobId (same bytes)"),
         ],
         contract="""
    requires
        // a directory node has a subtree (otherwise `unwrap` panics: prune aborts, nothing is removed)
        forall|i: int| 0 <= i < tree.nodes@.len() ==> ((#[trigger] tree.nodes@[i]).node_type is Dir ==> tree.nodes@[i].subtree is Some),
    ensures
        /*@nothing_forgotten*/ forall|k: (BlobType, u64)| old(ids).m@.dom().contains(k) ==> final(ids).m@.dom().contains(k),
        // every chunk of every file is needed AS DATA BLOB, every sub-directory AS TREE BLOB
        /*@file_chunks_needed_as_data*/ forall|i: int, j: int| 0 <= i < tree.nodes@.len() && tree.nodes@[i].node_type is File && 0 <= j < content_ids_of(tree.nodes@[i].content).len()
            ==> final(ids).m@.dom().contains((BlobType::Data, (#[trigger] content_ids_of(tree.nodes@[i].content)[j]).v)),
        /*@subtrees_needed_as_tree*/ forall|i: int| 0 <= i < tree.nodes@.len() && (#[trigger] tree.nodes@[i]).node_type is Dir
            ==> final(ids).m@.dom().contains((BlobType::Tree, tree.nodes@[i].subtree->0.v)),
""",
         loops={1: """
        invariant
            forall|i: int| 0 <= i < tree.nodes@.len() ==> ((#[trigger] tree.nodes@[i]).node_type is Dir ==> tree.nodes@[i].subtree is Some),
            forall|k: (BlobType, u64)| old(ids).m@.dom().contains(k) ==> ids.m@.dom().contains(k),
            forall|i: int, j: int| 0 <= i < it.index@ && tree.nodes@[i].node_type is File && 0 <= j < content_ids_of(tree.nodes@[i].content).len()
                ==> ids.m@.dom().contains((BlobType::Data, (#[trigger] content_ids_of(tree.nodes@[i].content)[j]).v)),
            forall|i: int| 0 <= i < it.index@ && (#[trigger] tree.nodes@[i]).node_type is Dir
                ==> ids.m@.dom().contains((BlobType::Tree, tree.nodes@[i].subtree->0.v)),
"""},
         hints=[("loop_start", "1", "        proof { assert(tree.nodes@[it.index@] == *node); }")],
         ),
]

# ---- PackInfo::from_pack: is this pack needed?  (the accounting the per-pack decision rests on)
R_GETMUT = [
    Rw(r"match used_ids\.get_mut\(&\(([^;{}]*?)\)\) \{", r"let vk = (\1); match used_ids.vget(&vk) {", regex=True, count=None, why="BTreeMap::get_mut + match on Option<&mut u8> -> read the entry (vget) ... (the key expression is kept verbatim)"),
    Rw("Some(count) => {", "Some(mut count) => {", count=None, why="... the entry value by value ..."),
    Rw("*count -= 1;", "count -= 1; used_ids.vset(&vk, count);", count=None, why="... and write it back (vset) where the code assigns through the &mut"),
    Rw(r"if \*count (==|!=|<=|>=|<|>) ", r"if count \1 ", regex=True, count=None, why="read through the &mut -> the value just written"),
    Rw(r"\*count = 0;", "used_ids.vset(&vk, 0);", regex=True, count=None, why="assignment through the &mut -> write back"),
]
SCAN_PRE = """
        pi.used_blobs as int + pi.unused_blobs as int + 1 <= u16::MAX, pi.used_size as int + pi.unused_size as int + blob.location.length as int <= u32::MAX,"""
UNITS += [
    Unit(name="from_pack_scan_step", file=PR, kind="block", within="fn from_pack(pack: &PrunePack, used_ids: &mut BTreeMap<(BlobType, BlobId), u8>) -> Self",
         anchor="@closure:pack.blobs.iter().position(|blob|",
         block_sig="fn from_pack_scan_step(blob: &IndexBlob, used_ids: &mut VCountMap, pi: &mut PackInfo) -> (r: bool)",
         block_tail="",
         functions=["commands::prune::PackInfo::from_pack (closure of the first scan: one blob against the outstanding-copy counts)"],
         rewrites=R_GETMUT,
         contract="""
    requires""" + SCAN_PRE + """
    ensures
        final(used_ids)@.dom() == old(used_ids)@.dom(),
        forall|k: (BlobType, u64)| k != bkey(*blob) && old(used_ids)@.dom().contains(k) ==> final(used_ids)@[k] == old(used_ids)@[k],
        final(pi).blob_type == old(pi).blob_type,
        // not needed (no entry or no copy outstanding): counted unused, nothing changes
        outstanding(old(used_ids)@, bkey(*blob)) == 0 ==> !r && final(used_ids)@ == old(used_ids)@
            && final(pi).unused_blobs == old(pi).unused_blobs + 1 && final(pi).unused_size == old(pi).unused_size + blob.location.length
            && final(pi).used_blobs == old(pi).used_blobs && final(pi).used_size == old(pi).used_size,
        // needed: one outstanding copy is accounted for; the scan stops exactly when it was the last one
        outstanding(old(used_ids)@, bkey(*blob)) >= 1 ==> outstanding(final(used_ids)@, bkey(*blob)) == outstanding(old(used_ids)@, bkey(*blob)) - 1
            && r == (outstanding(final(used_ids)@, bkey(*blob)) == 0),
        r ==> final(pi).used_blobs == old(pi).used_blobs + 1 && final(pi).used_size == old(pi).used_size + blob.location.length
            && final(pi).unused_blobs == old(pi).unused_blobs && final(pi).unused_size == old(pi).unused_size,
        !r ==> final(pi).unused_blobs == old(pi).unused_blobs + 1 && final(pi).unused_size == old(pi).unused_size + blob.location.length
            && final(pi).used_blobs == old(pi).used_blobs && final(pi).used_size == old(pi).used_size,
"""),
    Unit(name="from_pack", file=PR, anchor="fn from_pack(pack: &PrunePack, used_ids: &mut BTreeMap<(BlobType, BlobId), u8>) -> Self", within="impl PackInfo {", ret_name="pi_r",
         wrap_open="impl PackInfo {", wrap_close="}",
         functions=["commands::prune::PackInfo::from_pack"],
         rewrites=[
             Rw("used_ids: &mut BTreeMap<(BlobType, BlobId), u8>", "used_ids: &mut VCountMap", sig=True, why="BTreeMap -> ghost map stub"),
             Rw(r"let first_needed = pack\.blobs\.iter\(\)\.position\(\|blob\| \{.*?\n        \}\);",
                "let mut first_needed: Option<usize> = None; let mut vi: usize = 0; while vi < pack.blobs.len() { if from_pack_scan_step(&pack.blobs[vi], used_ids, &mut pi) { first_needed = Some(vi); break; } vi += 1; }",
                regex=True, why="OUTLINE + definition of Iterator::position: the closure is the block unit from_pack_scan_step (same source lines), called in index order until it returns true"),
             Rw("for blob in &pack.blobs[..first_needed] {", "for vj in it2: 0..first_needed { let blob = &pack.blobs[vj];", why="loop over a sub-slice -> index loop over the same range"),
             Rw("for blob in &pack.blobs[first_needed + 1..] {", "for vj in it3: (first_needed + 1)..pack.blobs.len() { let blob = &pack.blobs[vj];", why="loop over a sub-slice -> index loop over the same range"),
         ] + R_GETMUT,
         contract="""
    requires
        // ASSUMED about the index entries of one pack (u16 / u32 counters of PackInfo): fewer than 65 536 blobs, total length < 4 GiB
        pack.blobs@.len() < u16::MAX, lens(pack.blobs@, 0, pack.blobs@.len() as int) <= u32::MAX,
    ensures
        /*@every_blob_counted_once*/ pi_r.used_blobs + pi_r.unused_blobs == pack.blobs@.len(),
        final(used_ids)@.dom() == old(used_ids)@.dom(),
        /*@blobs_of_other_packs_untouched*/ forall|k: (BlobType, u64)| old(used_ids)@.dom().contains(k) && !(exists|i: int| 0 <= i < pack.blobs@.len() && bkey(#[trigger] pack.blobs@[i]) == k)
            ==> final(used_ids)@[k] == old(used_ids)@[k],
        // SAFETY: a pack is counted as unused only if every needed blob in it still has a copy outstanding in a pack seen later
        /*@unused_pack_holds_no_last_copy*/ pi_r.used_blobs == 0 ==> forall|i: int| 0 <= i < pack.blobs@.len() && outstanding(old(used_ids)@, bkey(#[trigger] pack.blobs@[i])) >= 1
            ==> outstanding(final(used_ids)@, bkey(pack.blobs@[i])) >= 1,
        // the whole effect on the counts as ONE relation: the keeper theorem (theorem_every_needed_blob_has_a_keeper) is stated over it
        /*@effect_on_counts_is_fp_post*/ fp_post(old(used_ids)@, pack.blobs@, final(used_ids)@, pi_r.used_blobs >= 1),
        // a used pack settles every needed blob it holds: no later pack is made the keeper of the same blob
        /*@used_pack_settles_its_blobs*/ pi_r.used_blobs >= 1 ==> forall|i: int| 0 <= i < pack.blobs@.len() ==> outstanding(final(used_ids)@, bkey(#[trigger] pack.blobs@[i])) == 0,
""",
         loops={1: """
            invariant_except_break
                first_needed is None,
                pi.used_blobs == 0, pi.used_size == 0, pi.unused_blobs == vi, pi.unused_size == lens(pack.blobs@, 0, vi as int),
                forall|k: (BlobType, u64)| outstanding(old(used_ids)@, k) >= 1 ==> outstanding(used_ids@, k) >= 1,
                forall|k: (BlobType, u64)| #![trigger outstanding(used_ids@, k)] outstanding(old(used_ids)@, k) >= 1 ==> outstanding(used_ids@, k) == outstanding(old(used_ids)@, k) - occ(pack.blobs@, k, vi as int),
            invariant
                forall|k: (BlobType, u64)| #![trigger old(used_ids)@.dom().contains(k)] old(used_ids)@.dom().contains(k) ==> used_ids@[k] <= old(used_ids)@[k],
                vi <= pack.blobs@.len(), pack.blobs@.len() < u16::MAX, lens(pack.blobs@, 0, pack.blobs@.len() as int) <= u32::MAX,
                used_ids@.dom() == old(used_ids)@.dom(),
                forall|k: (BlobType, u64)| old(used_ids)@.dom().contains(k) && !(exists|i: int| 0 <= i < pack.blobs@.len() && bkey(#[trigger] pack.blobs@[i]) == k) ==> used_ids@[k] == old(used_ids)@[k],
                forall|k: (BlobType, u64)| outstanding(old(used_ids)@, k) == 0 ==> outstanding(used_ids@, k) == 0,
            ensures
                forall|k: (BlobType, u64)| #![trigger old(used_ids)@.dom().contains(k)] old(used_ids)@.dom().contains(k) ==> used_ids@[k] <= old(used_ids)@[k],
                first_needed is None ==> forall|k: (BlobType, u64)| #![trigger outstanding(used_ids@, k)] outstanding(old(used_ids)@, k) >= 1 ==> outstanding(used_ids@, k) == outstanding(old(used_ids)@, k) - occ(pack.blobs@, k, pack.blobs@.len() as int),
                pack.blobs@.len() < u16::MAX, lens(pack.blobs@, 0, pack.blobs@.len() as int) <= u32::MAX,
                used_ids@.dom() == old(used_ids)@.dom(),
                forall|k: (BlobType, u64)| old(used_ids)@.dom().contains(k) && !(exists|i: int| 0 <= i < pack.blobs@.len() && bkey(#[trigger] pack.blobs@[i]) == k) ==> used_ids@[k] == old(used_ids)@[k],
                first_needed is None ==> vi == pack.blobs@.len() && pi.used_blobs == 0 && pi.used_size == 0 && pi.unused_blobs == vi && pi.unused_size == lens(pack.blobs@, 0, vi as int)
                    && forall|k: (BlobType, u64)| outstanding(old(used_ids)@, k) >= 1 ==> outstanding(used_ids@, k) >= 1,
                first_needed matches Some(f) ==> f == vi && vi < pack.blobs@.len() && pi.used_blobs == 1 && pi.used_size == pack.blobs@[f as int].location.length && pi.unused_blobs == f
                    && pi.unused_size == lens(pack.blobs@, 0, f as int) && outstanding(used_ids@, bkey(pack.blobs@[f as int])) == 0,
            decreases pack.blobs@.len() - vi,
""", 2: """
                invariant
                    forall|k: (BlobType, u64)| #![trigger old(used_ids)@.dom().contains(k)] old(used_ids)@.dom().contains(k) ==> used_ids@[k] <= old(used_ids)@[k],
                    first_needed < pack.blobs@.len() < u16::MAX, lens(pack.blobs@, 0, pack.blobs@.len() as int) <= u32::MAX,
                    used_ids@.dom() == old(used_ids)@.dom(),
                    forall|k: (BlobType, u64)| old(used_ids)@.dom().contains(k) && !(exists|i: int| 0 <= i < pack.blobs@.len() && bkey(#[trigger] pack.blobs@[i]) == k) ==> used_ids@[k] == old(used_ids)@[k],
                    pi.used_blobs + pi.unused_blobs == first_needed + 1, pi.used_blobs >= 1, pi.unused_blobs >= first_needed - vj,
                    pi.used_size + pi.unused_size == lens(pack.blobs@, 0, first_needed as int + 1), pi.unused_size >= lens(pack.blobs@, vj as int, first_needed as int),
                    outstanding(used_ids@, bkey(pack.blobs@[first_needed as int])) == 0,
                    forall|i: int| 0 <= i < vj ==> outstanding(used_ids@, bkey(#[trigger] pack.blobs@[i])) == 0,
""", 3: """
                invariant
                    forall|k: (BlobType, u64)| #![trigger old(used_ids)@.dom().contains(k)] old(used_ids)@.dom().contains(k) ==> used_ids@[k] <= old(used_ids)@[k],
                    first_needed < pack.blobs@.len() < u16::MAX, lens(pack.blobs@, 0, pack.blobs@.len() as int) <= u32::MAX,
                    used_ids@.dom() == old(used_ids)@.dom(),
                    forall|k: (BlobType, u64)| old(used_ids)@.dom().contains(k) && !(exists|i: int| 0 <= i < pack.blobs@.len() && bkey(#[trigger] pack.blobs@[i]) == k) ==> used_ids@[k] == old(used_ids)@[k],
                    pi.used_blobs + pi.unused_blobs == vj, pi.used_blobs >= 1,
                    pi.used_size + pi.unused_size == lens(pack.blobs@, 0, vj as int),
                    forall|i: int| 0 <= i < vj ==> outstanding(used_ids@, bkey(#[trigger] pack.blobs@[i])) == 0,
"""},
         hints=[("loop_start", "1", "            proof { lemma_lens_push(pack.blobs@, 0, vi as int); lemma_lens_mono(pack.blobs@, 0, vi as int + 1, pack.blobs@.len() as int); }"),
                ("loop_start", "2", "                proof { lemma_lens_mono(pack.blobs@, vj as int + 1, first_needed as int, first_needed as int); lemma_lens_mono(pack.blobs@, 0, first_needed as int + 1, pack.blobs@.len() as int); }"),
                ("loop_start", "3", "                proof { lemma_lens_push(pack.blobs@, 0, vj as int); lemma_lens_mono(pack.blobs@, 0, vj as int + 1, pack.blobs@.len() as int); }"),
                ("before", "for vj in it2: 0..first_needed", "            proof { lemma_lens_push(pack.blobs@, 0, first_needed as int); lemma_lens_mono(pack.blobs@, 0, first_needed as int, first_needed as int); }"),
         ],
         ),
]

UNITS += [
    # count_used_blobs: body of its loop (the loop header is an iterator adapter chain over all index entries)
    Unit(name="count_used_blob", file=PR, kind="block", within="fn count_used_blobs(&mut self)",
         anchor="if let Some(count) = self.used_ids.get_mut(", block_end="@matching_brace",
         block_sig="fn count_used_blob(this: &mut VPlan3, blob: &IndexBlob)",
         block_tail="",
         functions=["commands::prune::PrunePlan::count_used_blobs (loop body: one index entry)"],
         rewrites=[
             Rw(r"if let Some\(count\) = self\.used_ids\.get_mut\(&\(([^;{}]*?)\)\) \{", r"let vk = (\1); if let Some(count) = this.used_ids.vget(&vk) {", regex=True, why="BTreeMap::get_mut -> read the entry (key expression kept verbatim) ..."),
             Rw(r"\*count = count\.saturating_add\((\d+)\);", r"this.used_ids.vset(&vk, vsat_add(count, \1));", regex=True, why="... and write back; u8::saturating_add -> stub with its definition"),
         ],
         contract="""
    ensures
        final(this).used_ids@.dom() == old(this).used_ids@.dom(),
        // one more copy of THIS typed blob is known (counted up to 255); a blob nobody needs stays out
        /*@copy_counted_for_its_typed_key*/ old(this).used_ids@.dom().contains(bkey(*blob)) ==>
            final(this).used_ids@[bkey(*blob)] == (if old(this).used_ids@[bkey(*blob)] == 255 { 255u8 } else { (old(this).used_ids@[bkey(*blob)] + 1) as u8 }),
        /*@other_blobs_unchanged*/ forall|k: (BlobType, u64)| k != bkey(*blob) && old(this).used_ids@.dom().contains(k) ==> final(this).used_ids@[k] == old(this).used_ids@[k],
"""),
]

# ---- PrunePlan::new: an index entry of a pack that was already seen is dropped and its index file marked as modified
NEWP = "fn new(\n        used_ids: BTreeMap<(BlobType, BlobId), u8>,"
UNITS += [
    Unit(name="plan_new_dedup_unmarked", file=PR, kind="block", within=NEWP,
         anchor="@closure:#1:.filter(|p|",
         block_sig="fn plan_new_dedup_unmarked(p: &IndexPack, processed_packs: &mut VPackIdSet, modified: &mut bool) -> (r: bool)",
         block_tail="",
         functions=["commands::prune::PrunePlan::new (filter closure over the unmarked packs of an index file)"],
         rewrites=[Rw("modified |= !no_duplicate;", "*modified = *modified || !no_duplicate;", why="|= on a captured bool -> assignment through the reference (block parameter)")],
         contract="""
    ensures
        /*@first_entry_of_a_pack_is_kept*/ r == !old(processed_packs).s@.contains(p.id),
        final(processed_packs).s@ == old(processed_packs).s@.insert(p.id),
        /*@duplicate_marks_the_index_file_modified*/ *final(modified) == (*old(modified) || !r),
"""),
    Unit(name="plan_new_dedup_marked", file=PR, kind="block", within=NEWP,
         anchor="@closure:#2:.filter(|p|",
         block_sig="fn plan_new_dedup_marked(p: &IndexPack, processed_packs_delete: &mut VPackIdSet, modified: &mut bool) -> (r: bool)",
         block_tail="",
         functions=["commands::prune::PrunePlan::new (filter closure over the marked packs of an index file)"],
         rewrites=[Rw("modified |= !no_duplicate;", "*modified = *modified || !no_duplicate;", why="|= on a captured bool -> assignment through the reference (block parameter)")],
         contract="""
    ensures
        /*@first_marked_entry_of_a_pack_is_kept*/ r == !old(processed_packs_delete).s@.contains(p.id),
        final(processed_packs_delete).s@ == old(processed_packs_delete).s@.insert(p.id),
        *final(modified) == (*old(modified) || !r),
"""),
    # second pass: a marked entry of a pack that is also listed as live pack is dropped (the live entry wins)
    Unit(name="plan_new_marked_but_live", file=PR, kind="block", within=NEWP,
         anchor="@closure:index.packs.retain(|p|",
         block_sig="fn plan_new_marked_but_live(p: &PrunePack, processed_packs: &VPackIdSet, modified: &mut bool) -> (r: bool)",
         block_tail="",
         functions=["commands::prune::PrunePlan::new (retain closure: marked entries of packs that are also listed as live)"],
         rewrites=[Rw("modified |= duplicate;", "*modified = *modified || duplicate;", why="|= on a captured bool -> assignment through the reference (block parameter)")],
         contract="""
    ensures
        /*@live_entries_always_stay*/ !p.delete_mark ==> r && *final(modified) == *old(modified),
        /*@marked_entry_of_a_live_pack_is_dropped*/ p.delete_mark ==> r == !processed_packs.s@.contains(p.id) && *final(modified) == (*old(modified) || !r),
"""),
]

# ---- restore: from one plan entry to one read; and which packs the plan reports as needed (warm-up, C16)
UNITS += [
    Unit(name="FileLocation", file=RS, kind="type", anchor="struct FileLocation {", attrs="#[derive(Clone, Copy)]"),
    Unit(name="restore_read_of_blob", file=RS, kind="block", within="fn restore_contents<S: Open>(",
         anchor="@closure:.map(|((pack_id, bl), fls)|",
         block_sig="fn restore_read_of_blob(pack_id: PackId, bl: BlobLocation, fls: SmallVec<FileLocation>) -> (r: RPackInfo)",
         block_tail="",
         functions=["commands::restore::restore_contents (closure turning one (pack, blob) entry of the plan into one read)"],
         rewrites=[
             Rw(r"fls\s*\.iter\(\)\s*\.find\(\|fl\| fl\.matches\)\s*\.map\(\|fl\| \(fl\.file_idx, fl\.file_start, (?P<len>[a-z_.]+(?:\(\))?)\)\)", r"vfirst_matching(&fls, \g<len>)" + "\n" * 3, regex=True, why="Iterator::find/map with these closure literals -> stub: a matching location, if ANY location matches"),
             Rw(r"fls\s*\.iter\(\)\s*\.filter\(\|fl\| !fl\.matches\)\s*\.map\(\|fl\| \(fl\.file_idx, fl\.file_start\)\)\s*\.collect\(\)", "vnon_matching_dests(&fls)" + "\n" * 4, regex=True, why="Iterator::filter/map/collect with these closure literals -> stub: all locations that do not match"),
             Rw("PackInfo {", "RPackInfo {", why="renamed: a second PackInfo (prune) lives in the same verification file"),
         ],
         contract="""
    requires bl.offset + bl.length <= u32::MAX,
    ensures
        // the blob is read from the pack exactly when NO destination already holds it (these are the packs to_packs reports for warm-up)
        /*@pack_is_read_iff_no_location_matches*/ r.from_file is None <==> !any_matches(fls.v@),
        // what is copied from an existing file is the blob's PLAINTEXT (its data length), not its packed length
        /*@copy_from_existing_file_has_the_plaintext_length*/ r.from_file matches Some(x) ==> x.2 == DLEN(bl),
        /*@read_is_this_blob_of_this_pack*/ r.pack_id == pack_id && r.locations.offset == bl.offset && r.locations.length == bl.length && r.locations.blobs.v@.len() == 1
            && r.locations.blobs.v@[0].0 == bl,
        // every location that does not hold the blob yet gets it
        /*@all_mismatching_locations_are_written*/ r.locations.blobs.v@[0].1.v@ == non_matching(fls.v@),
"""),
    Unit(name="restore_needed_pack", file=RS, kind="block", within="pub fn to_packs(&self) -> Vec<PackId>",
         anchor="@closure:.filter(|(_, fls)|",
         block_sig="fn restore_needed_pack(fls: &SmallVec<FileLocation>) -> (r: bool)",
         block_tail="",
         functions=["commands::restore::RestorePlan::to_packs (filter closure: is the pack of this plan entry read?)"],
         rewrites=[Rw("fls.iter().all(|fl| !fl.matches)", "vnone_matches(fls)", why="Iterator::all with this closure literal -> stub")],
         contract="""
    ensures /*@pack_is_reported_iff_no_location_matches*/ r == !any_matches(fls.v@),
"""),
]

# prune writes its rebuilt index through the Indexer (live and marked sections): the Indexer units live in C07's spec and are
# verified as part of this property's check as well (a marked-only index file must still be written: the marked packs stay listed)
SATELLITES = [("C07", ["indexer_constants", "Indexer", "indexer_new", "indexer_new_unindexed", "indexer_reset", "add_with", "indexer_has", "IndexFile", "indexfile_add", "indexer_save", "indexer_finalize", "indexer_add", "indexer_add_remove", "ParentResult", "TreeType"]),
              # the order in which prune writes the new index and removes old index files and packs (units of C03's spec)
              ("C03", ["ModifierChange", "prune_removal_tail", "prune_early_index_removal", "prune_repack_finalize"])]

META = {"not_covered": []}
