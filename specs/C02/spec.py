"""C02 — forget and prune never lose data still referenced by a snapshot."""
from tools.extract import Unit, Rw
from tools.krun import Harness

PROPERTY = "C02"
PRELUDE = ["../common/base.rs", "prelude.rs", "blob_specs.rs"]
BL = "crates/core/src/blob.rs"
W = dict(wrap_open="impl<T> BlobLocations<T> {", wrap_close="}")

UNITS = [
    Unit(name="blob_constants", file=BL, kind="type", anchor="pub(super) mod constants {",
         rewrites=[Rw("pub(super)", "pub", count=None, why="visibility only"), Rw("pub(crate)", "pub", count=None, why="visibility only")]),
    Unit(name="BlobLocation", file=BL, kind="type", anchor="pub struct BlobLocation {", attrs="#[derive(Clone, Copy)]"),
    Unit(name="BlobLocations", file=BL, kind="type", anchor="pub struct BlobLocations<T> {",
         rewrites=[Rw("SmallVec<[(BlobLocation, T); 1]>", "SmallVec<(BlobLocation, T)>", why="smallvec inline-array type parameter -> element type (storage strategy irrelevant)")]),
    Unit(name="from_blob_location", file=BL, anchor="pub fn from_blob_location(location: BlobLocation, target: T) -> Self", ret_name="r", **W,
         functions=["blob::BlobLocations::from_blob_location"],
         rewrites=[Rw("smallvec![(location, target)]", "vsmallvec1((location, target))", why="smallvec! macro with one element")],
         contract="""
    requires
        location.offset + location.length <= u32::MAX,
    ensures
        /*@single_blob_range*/ r.offset == location.offset && r.length == location.length && r.blobs.v@ == seq![(location, target)] && r.covers(),
"""),
    Unit(name="can_coalesce", file=BL, anchor="pub fn can_coalesce(&self, other: &Self) -> bool", ret_name="r", **W,
         functions=["blob::BlobLocations::can_coalesce"],
         contract="""
    requires
        self.covers(), other.covers(),
        // packs are at most u32::MAX - MAX_HOLESIZE bytes long (holds for every pack this library writes: MAX_SIZE = 4076 MiB)
        self.offset + self.length + constants::MAX_HOLESIZE <= u32::MAX,
    ensures
        /*@can_coalesce_def*/ r == (other.offset >= self.offset + self.length
                                   && other.offset <= self.offset + self.length + constants::MAX_HOLESIZE
                                   && other.offset + other.length - self.offset <= constants::LIMIT_PACK_READ),
"""),
    Unit(name="append", file=BL, anchor="pub fn append(mut self, mut other: Self) -> Self", ret_name="r", **W,
         functions=["blob::BlobLocations::append"],
         rewrites=[Rw("mut self, mut other: Self", "self, other: Self", sig=True, why="`mut self` parameter (unsupported by Verus) -> rebinding `let mut this = self` + alpha-renaming self -> this in the body"),
                   Rw(r"\bself\b", "this", regex=True, count=None, why="alpha-renaming, see above")],
         hints=[("before", "this.length =", "        let mut this = self;\n        let mut other = other;")],
         contract="""
    requires
        self.covers(), other.covers(),
        other.offset >= self.offset + self.length,     // established by can_coalesce
    ensures
        /*@append_covers_all_members*/ r.covers(),
        /*@append_range*/ r.offset == self.offset && r.offset + r.length == other.offset + other.length,
        /*@append_keeps_members_in_order*/ r.blobs.v@ == self.blobs.v@ + other.blobs.v@,
"""),
    Unit(name="coalesce", file=BL, anchor="pub fn coalesce(self, other: Self) -> Result<Self, (Self, Self)>", ret_name="r", **W,
         functions=["blob::BlobLocations::coalesce"],
         contract="""
    requires
        self.covers(), other.covers(),
        self.offset + self.length + constants::MAX_HOLESIZE <= u32::MAX,
    ensures
        /*@coalesce_ok_covers*/ r matches Ok(c) ==> c.covers() && c.blobs.v@ == self.blobs.v@ + other.blobs.v@ && c.offset == self.offset
                                 && c.length <= constants::LIMIT_PACK_READ,
        /*@coalesce_err_returns_both*/ r matches Err(p) ==> p.0 == self && p.1 == other,
"""),
]

KANI = []
META = {"not_covered": []}
