// ===== C02: find_used_blobs -- which blobs the snapshots need, as TYPED blob identities =====
#[derive(Clone, Copy)]
pub struct TreeIdU { pub v: u64 }
#[derive(Clone, Copy)]
pub struct DataIdU { pub v: u64 }
pub enum NodeType { File, Dir, Symlink, Dev, Chardev, Fifo, Socket }
pub struct NodeU { pub node_type: NodeType, pub content: Option<Vec<DataIdU>>, pub subtree: Option<TreeIdU> }
pub struct TreeU { pub nodes: Vec<NodeU> }
// BlobId::from(**id) / BlobId::from(*tree_id): same 32 bytes, type tag dropped
pub fn vblobid_of_tree(t: TreeIdU) -> (r: BlobId) ensures r._opaque == t.v, { BlobId { _opaque: t.v } }
// BTreeMap<(BlobType, BlobId), u8>
pub struct VIdMap { pub m: Ghost<Map<(BlobType, u64), u8>> }
impl VIdMap {
    #[verifier::external_body]
    pub fn insert(&mut self, k: (BlobType, BlobId), v: u8) -> (r: Option<u8>)
        ensures final(self).m@ == old(self).m@.insert((k.0, k.1._opaque), v),
    { unimplemented!() }
}
pub open spec fn content_ids(n: NodeU) -> Seq<DataIdU> { match n.content { Some(v) => v@, None => Seq::empty() } }
// ids.extend(node.content.iter().flatten().map(|id| ((<tpe>, BlobId::from(**id)), 0))): every content id is inserted
// under the given type with value 0 (Extend for BTreeMap = insert of every pair)
#[verifier::external_body]
pub fn vextend_used(ids: &mut VIdMap, content: &Option<Vec<DataIdU>>, tpe: BlobType)
    ensures
        forall|k: (BlobType, u64)| final(ids).m@.dom().contains(k) <==> old(ids).m@.dom().contains(k)
            || (k.0 == tpe && exists|i: int| 0 <= i < content_ids_of(*content).len() && (#[trigger] content_ids_of(*content)[i]).v == k.1),
{ unimplemented!() }
pub open spec fn content_ids_of(c: Option<Vec<DataIdU>>) -> Seq<DataIdU> { match c { Some(v) => v@, None => Seq::empty() } }
