// ===== C02: find_used_blobs -- which blobs the snapshots need, as TYPED blob identities =====
#[derive(Clone, Copy)]
pub struct TreeIdU { pub v: u64 }
#[derive(Clone, Copy)]
pub struct DataIdU { pub v: u64 }
pub enum NodeType { File, Dir, Symlink, Dev, Chardev, Fifo, Socket }
pub struct NodeU { pub node_type: NodeType, pub content: Option<Vec<DataIdU>>, pub subtree: Option<TreeIdU> }
pub struct TreeU { pub nodes: Vec<NodeU> }
// BlobId::from(**id) / BlobId::from(*tree_id): same 32 bytes, type tag dropped
pub fn vblobid_of_tree(t: TreeIdU) -> (r: BlobId) ensures r._opaque == t.v, { BlobId { _opaque: t.v } }
// BTreeMap<(BlobType, BlobId), u8>
pub struct VIdMap { pub m: Ghost<Map<(BlobType, u64), u8>> }
impl VIdMap {
    #[verifier::external_body]
    pub fn insert(&mut self, k: (BlobType, BlobId), v: u8) -> (r: Option<u8>)
        ensures final(self).m@ == old(self).m@.insert((k.0, k.1._opaque), v),
    { unimplemented!() }
}
pub open spec fn content_ids(n: NodeU) -> Seq<DataIdU> { match n.content { Some(v) => v@, None => Seq::empty() } }
// ids.extend(node.content.iter().flatten().map(|id| ((<tpe>, BlobId::from(**id)), 0))): every content id is inserted
// under the given type with value 0 (Extend for BTreeMap = insert of every pair)
#[verifier::external_body]
pub fn vextend_used(ids: &mut VIdMap, content: &Option<Vec<DataIdU>>, tpe: BlobType)
    ensures
        forall|k: (BlobType, u64)| final(ids).m@.dom().contains(k) <==> old(ids).m@.dom().contains(k)
            || (k.0 == tpe && exists|i: int| 0 <= i < content_ids_of(*content).len() && (#[trigger] content_ids_of(*content)[i]).v == k.1),
{ unimplemented!() }
pub open spec fn content_ids_of(c: Option<Vec<DataIdU>>) -> Seq<DataIdU> { match c { Some(v) => v@, None => Seq::empty() } }

// ---- PackInfo::from_pack: outstanding-copy counts of the needed blobs (typed keys) ----
impl VCountMap {
    // `used_ids.get_mut(&k)` is translated to read (vget) / write back (vset): the entry API of BTreeMap (ASSUMED)
    #[verifier::external_body]
    pub fn vget(&self, k: &(BlobType, BlobId)) -> (r: Option<u8>)
        ensures r == (if self@.dom().contains((k.0, k.1._opaque)) { Some(self@[(k.0, k.1._opaque)]) } else { None::<u8> }),
    { unimplemented!() }
    #[verifier::external_body]
    pub fn vset(&mut self, k: &(BlobType, BlobId), v: u8)
        requires old(self)@.dom().contains((k.0, k.1._opaque)),
        ensures final(self)@ == old(self)@.insert((k.0, k.1._opaque), v),
    { unimplemented!() }
}
// sum of the blob lengths of blobs[lo..hi)
pub open spec fn lens(b: Seq<IndexBlob>, lo: int, hi: int) -> int
    decreases hi - lo
{
    if lo >= hi { 0 } else { b[lo].location.length as int + lens(b, lo + 1, hi) }
}
pub proof fn lemma_lens_push(b: Seq<IndexBlob>, lo: int, hi: int)
    requires 0 <= lo <= hi < b.len(),
    ensures lens(b, lo, hi + 1) == lens(b, lo, hi) + b[hi].location.length,
    decreases hi - lo
{
    if lo < hi { lemma_lens_push(b, lo + 1, hi); } else { assert(lens(b, lo + 1, hi + 1) == 0); }
}
pub proof fn lemma_lens_mono(b: Seq<IndexBlob>, lo: int, mid: int, hi: int)
    requires 0 <= lo <= mid <= hi <= b.len(),
    ensures lens(b, lo, hi) == lens(b, lo, mid) + lens(b, mid, hi), lens(b, lo, mid) >= 0, lens(b, mid, hi) >= 0,
    decreases hi - lo
{
    if lo < mid { lemma_lens_mono(b, lo + 1, mid, hi); }
    else if mid < hi { lemma_lens_mono(b, lo + 1, mid + 1, hi); }
}
pub open spec fn bkey(b: IndexBlob) -> (BlobType, u64) { (b.tpe, b.id._opaque) }
// outstanding copies of key k (0 when the blob is not needed at all)
pub open spec fn outstanding(m: Map<(BlobType, u64), u8>, k: (BlobType, u64)) -> int { if m.dom().contains(k) { m[k] as int } else { 0 } }
// u8::saturating_add
pub fn vsat_add(c: u8, n: u8) -> (r: u8) ensures r == (if c as int + n as int > 255 { 255u8 } else { (c + n) as u8 }), { if c > 255 - n { 255 } else { c + n } }

// ---- PrunePlan::new: duplicate packs in the index files ----
pub struct VPackIdSet { pub s: Ghost<Set<PackId>> }
impl VPackIdSet {
    #[verifier::external_body]
    pub fn insert(&mut self, id: PackId) -> (r: bool) ensures r == !old(self).s@.contains(id), final(self).s@ == old(self).s@.insert(id), { unimplemented!() }
    #[verifier::external_body]
    pub fn contains(&self, id: &PackId) -> (r: bool) ensures r == self.s@.contains(*id), { unimplemented!() }
}

// ---- restore_contents: one (pack, blob) entry of the restore plan becomes one read ----
pub uninterp spec fn DLEN(bl: BlobLocation) -> u32;   // BlobLocation::data_length (unit of C14)
pub open spec fn any_matches(fls: Seq<FileLocation>) -> bool { exists|i: int| 0 <= i < fls.len() && (#[trigger] fls[i]).matches }
impl BlobLocation {
    // BlobLocation::data_length (unit of C14): the plaintext length of the blob
    #[verifier::external_body]
    pub fn data_length(&self) -> (r: u32) ensures r == DLEN(*self), { unimplemented!() }
}
// fls.iter().find(|fl| fl.matches).map(|fl| (fl.file_idx, fl.file_start, <len>)): the first location whose destination
// bytes already are this blob -- it can serve as read source instead of the pack; <len> is the third component as written
#[verifier::external_body]
pub fn vfirst_matching(fls: &SmallVec<FileLocation>, len: u32) -> (r: Option<(usize, u64, u32)>)
    ensures
        r is Some <==> any_matches(fls.v@),
        r matches Some(x) ==> x.2 == len && exists|i: int| 0 <= i < fls.v@.len() && (#[trigger] fls.v@[i]).matches && fls.v@[i].file_idx == x.0 && fls.v@[i].file_start == x.1,
{ unimplemented!() }
pub open spec fn non_matching(fls: Seq<FileLocation>) -> Seq<(usize, u64)>
    decreases fls.len()
{
    if fls.len() == 0 { Seq::empty() }
    else if fls.last().matches { non_matching(fls.drop_last()) }
    else { non_matching(fls.drop_last()).push((fls.last().file_idx, fls.last().file_start)) }
}
// fls.iter().filter(|fl| !fl.matches).map(|fl| (fl.file_idx, fl.file_start)).collect(): every location that still needs the blob
#[verifier::external_body]
pub fn vnon_matching_dests(fls: &SmallVec<FileLocation>) -> (r: SmallVec<(usize, u64)>)
    ensures r.v@ == non_matching(fls.v@),
{ unimplemented!() }
// fls.iter().all(|fl| !fl.matches)
#[verifier::external_body]
pub fn vnone_matches(fls: &SmallVec<FileLocation>) -> (r: bool) ensures r == !any_matches(fls.v@), { unimplemented!() }

// ---- accounting over ALL packs: exactly what from_pack does to the outstanding-copy counts, and why every needed blob
//      ends up with a keeper ----
// number of entries with key k among the first n blobs of a pack
pub open spec fn occ(b: Seq<IndexBlob>, k: (BlobType, u64), n: int) -> int
    decreases n
{
    if n <= 0 { 0 } else { occ(b, k, n - 1) + (if bkey(b[n - 1]) == k { 1int } else { 0int }) }
}
pub open spec fn in_pack(b: Seq<IndexBlob>, k: (BlobType, u64)) -> bool { exists|i: int| 0 <= i < b.len() && bkey(#[trigger] b[i]) == k }
pub proof fn lemma_occ_bounds(b: Seq<IndexBlob>, k: (BlobType, u64), n: int)
    requires 0 <= n <= b.len(),
    ensures 0 <= occ(b, k, n) <= n, (occ(b, k, n) >= 1) == (exists|i: int| 0 <= i < n && bkey(#[trigger] b[i]) == k),
    decreases n
{
    if n > 0 {
        lemma_occ_bounds(b, k, n - 1);
        if bkey(b[n - 1]) == k { assert(exists|i: int| 0 <= i < n && bkey(#[trigger] b[i]) == k) by { assert(bkey(b[n - 1]) == k); } }
        else if occ(b, k, n - 1) >= 1 { let i = choose|i: int| 0 <= i < n - 1 && bkey(#[trigger] b[i]) == k; assert(bkey(b[i]) == k); }
        else { assert forall|i: int| 0 <= i < n implies bkey(#[trigger] b[i]) != k by { if i < n - 1 { } } }
    }
}
// THE contract of PackInfo::from_pack as a relation between the counts before and after one pack
pub open spec fn fp_post(m0: Map<(BlobType, u64), u8>, b: Seq<IndexBlob>, m1: Map<(BlobType, u64), u8>, used: bool) -> bool {
    &&& m1.dom() == m0.dom()
    &&& forall|k: (BlobType, u64)| #![trigger outstanding(m1, k)] outstanding(m1, k) <= outstanding(m0, k)
    &&& forall|k: (BlobType, u64)| #![trigger outstanding(m1, k)] !in_pack(b, k) ==> outstanding(m1, k) == outstanding(m0, k)
    &&& !used ==> forall|k: (BlobType, u64)| #![trigger outstanding(m1, k)] outstanding(m0, k) >= 1 ==> outstanding(m1, k) >= 1 && outstanding(m1, k) == outstanding(m0, k) - occ(b, k, b.len() as int)
    &&& used ==> forall|i: int| 0 <= i < b.len() ==> outstanding(m1, bkey(#[trigger] b[i])) == 0
}
// total number of entries with key k in the first j packs
pub open spec fn total_occ(packs: Seq<Seq<IndexBlob>>, k: (BlobType, u64), j: int) -> int
    decreases j
{
    if j <= 0 { 0 } else { total_occ(packs, k, j - 1) + occ(packs[j - 1], k, packs[j - 1].len() as int) }
}
// as long as no pack that holds k was counted as used, k's count is the initial one minus the entries seen
pub proof fn lemma_unused_holders_only_decrement(packs: Seq<Seq<IndexBlob>>, ms: Seq<Map<(BlobType, u64), u8>>, used: Seq<bool>, k: (BlobType, u64), j: int)
    requires
        0 <= j <= packs.len(), ms.len() == packs.len() + 1, used.len() == packs.len(),
        forall|i: int| 0 <= i < packs.len() ==> fp_post(#[trigger] ms[i], packs[i], ms[i + 1], used[i]),
        outstanding(ms[0], k) >= 1,
        forall|i: int| 0 <= i < j ==> !(#[trigger] used[i] && in_pack(packs[i], k)),
    ensures outstanding(ms[j], k) >= 1, outstanding(ms[j], k) == outstanding(ms[0], k) - total_occ(packs, k, j),
    decreases j
{
    if j > 0 {
        lemma_unused_holders_only_decrement(packs, ms, used, k, j - 1);
        let i = j - 1;
        assert(fp_post(ms[i], packs[i], ms[i + 1], used[i]));
        lemma_occ_bounds(packs[i], k, packs[i].len() as int);
        if !in_pack(packs[i], k) {
            assert(outstanding(ms[i + 1], k) == outstanding(ms[i], k));
        } else {
            assert(!used[i]);
            assert(outstanding(ms[i + 1], k) == outstanding(ms[i], k) - occ(packs[i], k, packs[i].len() as int));
        }
    }
}
// KEEPER THEOREM: if the counts start at no more than the number of index entries of each needed blob (count_used_blobs:
// one per entry, saturating), then after from_pack has seen all packs every needed blob that is indexed at all lies in a
// pack that was counted as USED (and the per-pack decision never removes a used pack: unit decide_one_pack)
pub proof fn theorem_every_needed_blob_has_a_keeper(packs: Seq<Seq<IndexBlob>>, ms: Seq<Map<(BlobType, u64), u8>>, used: Seq<bool>, k: (BlobType, u64))
    requires
        ms.len() == packs.len() + 1, used.len() == packs.len(),
        forall|i: int| 0 <= i < packs.len() ==> fp_post(#[trigger] ms[i], packs[i], ms[i + 1], used[i]),
        1 <= outstanding(ms[0], k) <= total_occ(packs, k, packs.len() as int),
    ensures exists|i: int| 0 <= i < packs.len() && #[trigger] used[i] && in_pack(packs[i], k),
{
    if !(exists|i: int| 0 <= i < packs.len() && #[trigger] used[i] && in_pack(packs[i], k)) {
        lemma_unused_holders_only_decrement(packs, ms, used, k, packs.len() as int);
    }
}
