// ===== C03 prelude: ORDER of storage operations inside commands (typestate as preconditions of effectful stubs) =====
#[derive(Clone, Copy, PartialEq, Eq, Structural)]
pub struct TreeId(pub u64);
#[derive(Clone, Copy, PartialEq, Eq, Structural)]
pub struct SnapshotId(pub u64);
// what has been made durable so far.  `flushed` = every blob (tree / data) a command produced is written to a pack
// that is stored AND listed by a stored index file; a snapshot that points to such blobs is readable.
pub struct Durability { pub flushed: Ghost<bool> }
pub struct SnapshotFile { pub id: SnapshotId, pub tree: TreeId, pub original: Option<SnapshotId>, pub rest: u64 }
#[verifier::external_body]
pub fn vclone_snapshot(s: &SnapshotFile) -> (r: SnapshotFile) ensures r == *s, { unimplemented!() }
pub struct RepairSnapshotsOptions { pub delete: bool }
pub struct ConfigFileR { pub append_only: Option<bool> }
pub struct VIndexR { pub _opaque: u64 }
pub struct ProgressR { pub _opaque: u64 }
// the decrypting backend of the repository.  EFFECTS AS PRECONDITIONS: a snapshot file becomes visible only when
// everything it points to is durable; old snapshots are removed only when nothing is pending either.
pub struct VDbe { pub _opaque: u64 }
impl VDbe {
    #[verifier::external_body]
    pub fn vsave_file(&self, snap: &SnapshotFile, dur: &Durability) -> (r: RusticResult<SnapshotId>)
        requires dur.flushed@,
    { unimplemented!() }
    #[verifier::external_body]
    pub fn vdelete_snapshots(&self, ids: &Vec<SnapshotId>, p: ProgressR, dur: &Durability) -> (r: RusticResult<()>)
        requires dur.flushed@,
    { unimplemented!() }
}
pub struct VRepoR3 { pub _opaque: u64 }
impl VRepoR3 {
    #[verifier::external_body]
    pub fn dbe(&self) -> &VDbe { unimplemented!() }
    #[verifier::external_body]
    pub fn config(&self) -> &ConfigFileR { unimplemented!() }
    #[verifier::external_body]
    pub fn index(&self) -> &VIndexR { unimplemented!() }
    #[verifier::external_body]
    pub fn progress_counter(&self, _s: &str) -> ProgressR { unimplemented!() }
}
pub struct RepairState { pub delete: Vec<SnapshotId> }
impl RepairState {
    #[verifier::external_body]
    pub fn new(opts: &RepairSnapshotsOptions, index: &VIndexR) -> (r: RepairState) ensures r.delete@.len() == 0, { unimplemented!() }
}
// TreeModifier: new trees are buffered in its packer / indexer until finalize()
pub struct TreeModifier { pub _opaque: u64 }
impl TreeModifier {
    #[verifier::external_body]
    pub fn new(be: &VDbe, index: &VIndexR, config: &ConfigFileR, dry_run: bool) -> RusticResult<TreeModifier> { unimplemented!() }
    // modify_tree(path, tree, visitor): a Changed result means new tree blobs were produced -- they are NOT durable yet
    #[verifier::external_body]
    pub fn vmodify_tree(&self, tree: TreeId, state: &mut RepairState, dur: &mut Durability) -> (r: RusticResult<ModifierChange>)
        ensures final(state).delete@ == old(state).delete@,
            r matches Ok(ModifierChange::Changed(_)) ==> !final(dur).flushed@,
            (r matches Ok(c) && !(c is Changed)) ==> final(dur).flushed@ == old(dur).flushed@,
    { unimplemented!() }
    // finalize: packer and indexer are flushed (C15 unit TreeModifier::finalize; thread pipeline below it assumed)
    #[verifier::external_body]
    pub fn vfinalize(self, dur: &mut Durability) -> (r: RusticResult<()>)
        ensures r is Ok ==> final(dur).flushed@,
    { unimplemented!() }
}
impl SnapshotFile {
    #[verifier::external_body]
    pub fn vset_tags(&mut self, opts: &RepairSnapshotsOptions)
        ensures final(self).id == old(self).id && final(self).tree == old(self).tree && final(self).original == old(self).original,
    { unimplemented!() }
}

// ---- backup: the tail of Archiver::archive ----
pub struct PackerStatsR { pub _opaque: u64 }
pub struct SummaryR { pub _opaque: u64 }
#[derive(Clone, Copy, PartialEq, Eq, Structural)]
pub enum BlobType { Tree, Data }
impl PackerStatsR {
    #[verifier::external_body]
    pub fn apply(self, summary: &mut SummaryR, tpe: BlobType) { unimplemented!() }
    // #[derive(Default)]: the empty statistics
    #[verifier::external_body]
    pub fn default() -> PackerStatsR { unimplemented!() }
}
pub type PackerStats = PackerStatsR;
pub struct ZonedR { pub _opaque: u64 }
impl SummaryR {
    #[verifier::external_body]
    pub fn finalize(&mut self, t: &ZonedR) { unimplemented!() }
}
// what a backup run has made durable: data packs, tree packs (Packer::finalize flushes the open pack and waits for the
// writer thread: C08 RawPacker::finalize; the thread pipeline itself is assumed), the index
pub struct BackupWorld { pub data_flushed: Ghost<bool>, pub trees_flushed: Ghost<bool>, pub index_flushed: Ghost<bool> }
pub struct VFileArchiver { pub _opaque: u64 }
impl VFileArchiver {
    #[verifier::external_body]
    pub fn vfinalize(self, w: &mut BackupWorld) -> (r: RusticResult<PackerStatsR>)
        ensures r is Ok ==> final(w).data_flushed@, final(w).trees_flushed@ == old(w).trees_flushed@, final(w).index_flushed@ == old(w).index_flushed@,
    { unimplemented!() }
}
pub struct VTreeArchiver { pub _opaque: u64 }
impl VTreeArchiver {
    #[verifier::external_body]
    pub fn vfinalize(self, parent_tree: Option<TreeId>, w: &mut BackupWorld) -> (r: RusticResult<(TreeId, SummaryR)>)
        ensures r is Ok ==> final(w).trees_flushed@, final(w).data_flushed@ == old(w).data_flushed@, final(w).index_flushed@ == old(w).index_flushed@,
    { unimplemented!() }
}
pub struct VSharedIndexer { pub _opaque: u64 }
impl VSharedIndexer {
    // indexer.write().unwrap().finalize(): writes the remaining index entries.  PRECONDITION: every pack it may list has
    // been stored (an index never points to a pack that is not there yet)
    #[verifier::external_body]
    pub fn vfinalize(&self, w: &mut BackupWorld) -> (r: RusticResult<()>)
        requires old(w).data_flushed@ && old(w).trees_flushed@,
        ensures r is Ok ==> final(w).index_flushed@, final(w).data_flushed@ == old(w).data_flushed@, final(w).trees_flushed@ == old(w).trees_flushed@,
    { unimplemented!() }
}
pub struct VParent { pub _opaque: u64 }
impl VParent {
    #[verifier::external_body]
    pub fn tree_id(&self) -> Option<TreeId> { unimplemented!() }
}
pub struct BackupSnap { pub id: SnapshotId, pub tree: TreeId, pub time: ZonedR, pub summary: Option<SummaryR> }
pub struct VBackupBe { pub _opaque: u64 }
impl VBackupBe {
    // PRECONDITION: the snapshot becomes visible only when all packs and the index are durable
    #[verifier::external_body]
    pub fn vsave_file(&self, snap: &BackupSnap, w: &BackupWorld) -> (r: RusticResult<SnapshotId>)
        requires w.data_flushed@ && w.trees_flushed@ && w.index_flushed@,
    { unimplemented!() }
}
pub struct ProgressB { pub _opaque: u64 }
impl ProgressB {
    #[verifier::external_body]
    pub fn finish(&self) { unimplemented!() }
}
pub struct VArchiver {
    pub file_archiver: VFileArchiver, pub tree_archiver: VTreeArchiver, pub parent: VParent,
    pub indexer: VSharedIndexer, pub be: VBackupBe, pub snap: BackupSnap,
}

// ---- prune: the tail of prune_repository (removal of what the new index no longer needs) ----
#[derive(Clone, Copy, PartialEq, Eq, Structural)]
pub struct Id(pub u64);
#[derive(Clone, Copy, PartialEq, Eq, Structural)]
pub struct PackId(pub u64);
pub struct PruneWorld { pub new_index_written: Ghost<bool>, pub old_index_removed: Ghost<bool> }
pub struct VPruneBe { pub _opaque: u64 }
impl VPruneBe {
    // removing the index files prune read at its start.  PRECONDITION: the rebuilt index (and the repacked packs it lists)
    // is completely written -- otherwise a cut-off leaves snapshots without index
    #[verifier::external_body]
    pub fn vdelete_index_files(&self, ids: &Vec<Id>, p: ProgressR, w: &mut PruneWorld) -> (r: RusticResult<()>)
        requires old(w).new_index_written@,
        ensures r is Ok ==> final(w).old_index_removed@, final(w).new_index_written@ == old(w).new_index_written@,
    { unimplemented!() }
    // removing packs.  PRECONDITION: no index file that may still list them is left (old index files first), and the new index is there
    #[verifier::external_body]
    pub fn vdelete_packs(&self, cacheable: bool, ids: &Vec<PackId>, p: ProgressR, w: &mut PruneWorld) -> (r: RusticResult<()>)
        requires old(w).new_index_written@ && old(w).old_index_removed@,
        ensures final(w).new_index_written@ == old(w).new_index_written@, final(w).old_index_removed@ == old(w).old_index_removed@,
    { unimplemented!() }
}

// ---- the pack writer: an index entry exists only for a pack that was stored ----
pub struct BytesListR { pub data: Ghost<Seq<u8>> }
#[derive(Clone, Copy, PartialEq, Eq, Structural)]
pub enum FileType { Config, Index, Key, Snapshot, Pack }
pub struct TimestampR { pub _opaque: u64 }
impl TimestampR {
    #[verifier::external_body]
    pub fn now() -> TimestampR { unimplemented!() }
}
pub struct IndexPackR { pub id: PackId, pub time: Option<TimestampR>, pub rest: u64 }
// "the write of this pack succeeded" -- a fact that only write_bytes can produce
pub uninterp spec fn STORED(id: PackId, bytes: Seq<u8>) -> bool;
pub struct VPackBe { pub _opaque: u64 }
impl VPackBe {
    #[verifier::external_body]
    pub fn write_bytes(&self, tpe: FileType, id: &PackId, cacheable: bool, buf: BytesListR) -> (r: RusticResult<()>)
        ensures r is Ok && tpe is Pack ==> STORED(*id, buf.data@),
    { unimplemented!() }
}
pub struct FileWriterHandle { pub be: VPackBe, pub cacheable: bool }

// ---- the writer thread of the packer (Actor::new): the status it reports ----
// the packs handed to the writer, each as the result of FileWriterHandle::process (unit file_writer_process), in order.
// The lazy readahead pipeline in front of try_for_each is ABSTRACTED to this sequence (channels / threads: out of reach).
pub uninterp spec fn PIPE_RESULTS() -> Seq<RusticResult<IndexPackR>>;
// "this pack's entry was added to the indexer" -- a fact only FileWriterHandle::index can produce
pub uninterp spec fn WRITER_INDEXED(id: PackId) -> bool;
pub struct VPackRx { pub _opaque: u64 }
pub struct VScope { pub _opaque: u64 }
#[verifier::external_body]
pub fn vwriter_pipeline(rx: VPackRx, fwh: &FileWriterHandle, scope: &VScope) -> (r: Vec<RusticResult<IndexPackR>>)
    ensures r@ == PIPE_RESULTS(),
{ unimplemented!() }
impl FileWriterHandle {
    // FileWriterHandle::index: indexer.add(index)
    #[verifier::external_body]
    pub fn index(&self, index: IndexPackR) -> (r: RusticResult<()>)
        ensures r is Ok ==> WRITER_INDEXED(index.id),
    { unimplemented!() }
}
pub open spec fn every_pack_written_and_indexed() -> bool {
    forall|i: int| 0 <= i < PIPE_RESULTS().len() ==> (#[trigger] PIPE_RESULTS()[i]) is Ok && WRITER_INDEXED(PIPE_RESULTS()[i]->Ok_0.id)
}
pub struct VFinishTx { pub _opaque: u64 }
impl VFinishTx {
    // the status Actor::finalize (and so Packer::finalize and the command) returns.  PRECONDITION: success is reported
    // only if every pack handed to the writer was stored and added to the index
    #[verifier::external_body]
    pub fn send(&self, status: RusticResult<()>) -> (r: Result<(), ()>)
        requires status is Ok ==> every_pack_written_and_indexed(),
    { unimplemented!() }
}

// the two branches that write the rebuilt index (and, when repacking, the new packs first): ELIDED in the unit
#[verifier::external_body]
pub fn vfinalize_new_index(w: &mut PruneWorld) -> (r: RusticResult<()>)
    ensures r is Ok ==> final(w).new_index_written@, final(w).old_index_removed@ == old(w).old_index_removed@,
{ unimplemented!() }
#[verifier::external_body]
pub fn vrepack_and_finalize_new_index(w: &mut PruneWorld) -> (r: RusticResult<()>)
    ensures r is Ok ==> final(w).new_index_written@, final(w).old_index_removed@ == old(w).old_index_removed@,
{ unimplemented!() }

// ---- copy: the tail of commands::copy::copy ----
pub struct CopyWorld { pub data_copied: Ghost<bool>, pub trees_copied: Ghost<bool>, pub index_flushed: Ghost<bool> }
pub struct VCopyList { pub _opaque: u64 }
pub struct VCopier { pub _opaque: u64 }
// copy_blobs(list, copier, p): copies and finalizes the copier (its packer is flushed when it returns Ok)
#[verifier::external_body]
pub fn vcopy_tree_blobs(blobs: VCopyList, copier: VCopier, p: ProgressR, w: &mut CopyWorld) -> (r: RusticResult<()>)
    ensures r is Ok ==> final(w).trees_copied@, final(w).data_copied@ == old(w).data_copied@, final(w).index_flushed@ == old(w).index_flushed@,
{ unimplemented!() }
pub struct VDestIndexer { pub _opaque: u64 }
impl VDestIndexer {
    #[verifier::external_body]
    pub fn vfinalize(&self, w: &mut CopyWorld) -> (r: RusticResult<()>)
        requires old(w).data_copied@ && old(w).trees_copied@,
        ensures r is Ok ==> final(w).index_flushed@, final(w).data_copied@ == old(w).data_copied@, final(w).trees_copied@ == old(w).trees_copied@,
    { unimplemented!() }
}
pub struct VDestBe { pub _opaque: u64 }
impl VDestBe {
    // saving the copied snapshots in the destination.  PRECONDITION: every blob they need is there and indexed
    #[verifier::external_body]
    pub fn vsave_snapshots(&self, snaps: &Vec<SnapshotFile>, p: ProgressR, w: &CopyWorld) -> (r: RusticResult<()>)
        requires w.data_copied@ && w.trees_copied@ && w.index_flushed@,
    { unimplemented!() }
}

// ---- rewrite: new snapshots are saved before the old ones are forgotten ----
pub struct RewriteWorld { pub new_saved: Ghost<bool> }
pub struct RewriteOptions { pub forget: bool, pub dry_run: bool }
#[verifier::external_body]
pub fn vclone_snapshots(v: &Vec<SnapshotFile>) -> (r: Vec<SnapshotFile>) ensures r@ == v@, { unimplemented!() }
#[verifier::external_body]
pub fn vsnapshot_ids(v: &Vec<SnapshotFile>) -> (r: Vec<SnapshotId>) ensures r@.len() == v@.len(), { unimplemented!() }
pub struct VRepoRw { pub _opaque: u64 }
impl VRepoRw {
    #[verifier::external_body]
    pub fn vsave_snapshots(&self, snaps: Vec<SnapshotFile>, w: &mut RewriteWorld) -> (r: RusticResult<()>)
        ensures r is Ok ==> final(w).new_saved@,
    { unimplemented!() }
    // PRECONDITION: the rewritten snapshots replacing these were saved
    #[verifier::external_body]
    pub fn vdelete_snapshots(&self, ids: &Vec<SnapshotId>, w: &RewriteWorld) -> (r: RusticResult<()>)
        requires w.new_saved@,
    { unimplemented!() }
}

// ---- errors of the writer thread surface at finalize (RawPacker::finalize) ----
pub uninterp spec fn WRITER_JOINED() -> bool;   // a fact only Actor::finalize can produce
pub struct ActorW { pub _opaque: u64 }
impl ActorW {
    // waits for the writer thread and returns the first error of any pack write handed to it
    #[verifier::external_body]
    pub fn finalize(self) -> (r: RusticResult<()>) ensures r is Ok ==> WRITER_JOINED(), { unimplemented!() }
}
pub struct VBasicPacker { pub _opaque: u64 }
impl VBasicPacker {
    #[verifier::external_body]
    pub fn is_empty(&self) -> bool { unimplemented!() }
    #[verifier::external_body]
    pub fn take_stats(&mut self) -> PackerStatsR { unimplemented!() }
}
pub struct RawPackerW { pub basic: VBasicPacker, pub file_writer: Option<ActorW> }
impl RawPackerW {
    // RawPacker::save (unit of C08): seals the open pack and hands it to the writer
    #[verifier::external_body]
    pub fn save(&mut self) -> (r: RusticResult<()>)
        requires old(self).file_writer is Some,
        ensures final(self).file_writer is Some,
    { unimplemented!() }
}

// ---- repair index: index entries dropped for re-reading vs. removal of the index files that held them ----
// `queued`: some existing pack lost its entry from a stored index file and waits in packs_to_read for its header to be
// re-read; until the rebuilt entries are written (Indexer::finalize) that pack is not indexed anywhere
pub struct RepairIdxWorld { pub queued: Ghost<bool> }
pub struct IndexFileR { pub packs: Vec<u64>, pub packs_to_delete: Vec<u64> }
pub uninterp spec fn QUEUES(f: IndexFileR, read_all: bool) -> bool;   // does check_pack queue a pack of this file for re-reading?
pub struct RepairIndexOptions { pub read_all: bool }
pub struct PackCheckerR { pub _opaque: u64 }
impl PackCheckerR {
    #[verifier::external_body]
    pub fn new(repo: &VRepoR3) -> RusticResult<PackCheckerR> { unimplemented!() }
    // PackChecker::check_pack (unit of C12)
    #[verifier::external_body]
    pub fn vcheck_pack(&mut self, index: IndexFileR, read_all: bool, w: &mut RepairIdxWorld) -> (r: (IndexFileR, bool))
        ensures final(w).queued@ == (old(w).queued@ || QUEUES(index, read_all)),
    { unimplemented!() }
    #[verifier::external_body]
    pub fn into_pack_to_read(self) -> Vec<(PackId, Option<u32>, u32)> { unimplemented!() }
}
pub struct VIdxBe { pub _opaque: u64 }
impl VIdxBe {
    #[verifier::external_body]
    pub fn vstream_all_index(&self, p: &ProgressR) -> RusticResult<Vec<RusticResult<(Id, IndexFileR)>>> { unimplemented!() }
    #[verifier::external_body]
    pub fn save_file(&self, f: &IndexFileR) -> RusticResult<Id> { unimplemented!() }
    // removing a stored index file.  PRECONDITION: no existing pack is left without an index entry by it, i.e. nothing is
    // waiting to be re-read (the rebuilt entries are written first)
    #[verifier::external_body]
    pub fn vremove_index(&self, id: &Id, w: &RepairIdxWorld) -> (r: RusticResult<()>)
        requires !w.queued@,
    { unimplemented!() }
}

// warm-up + re-reading the headers of the queued packs + Indexer::add_with + Indexer::finalize (ELIDED in the unit)
#[verifier::external_body]
pub fn vreread_headers_and_write_index(checker: PackCheckerR, w: &mut RepairIdxWorld) -> (r: RusticResult<()>)
    ensures r is Ok ==> !final(w).queued@,
{ unimplemented!() }
impl ProgressR {
    #[verifier::external_body]
    pub fn finish(&self) { unimplemented!() }
}

#[verifier::external_body]
pub fn vreread_headers(checker: PackCheckerR) { unimplemented!() }
#[verifier::external_body]
pub fn vindexer_finalize_rebuilt(w: &mut RepairIdxWorld) -> (r: RusticResult<()>)
    ensures r is Ok ==> !final(w).queued@,
{ unimplemented!() }

// ---- merge: merged trees are packed and indexed before the merged snapshot is saved ----
pub struct MergeWorld { pub trees_added: Ghost<bool>, pub packer_flushed: Ghost<bool>, pub index_flushed: Ghost<bool> }
pub struct VMergeInputs { pub _opaque: u64 }   // (be, index, trees, cmp, &save): the inputs of blob::tree::merge_trees
// blob::tree::merge_trees(..., &save, summary): hands every new tree blob to the packer through `save`
#[verifier::external_body]
pub fn vmerge_tree_blobs(inp: &VMergeInputs, summary: &mut SummaryR, w: &mut MergeWorld) -> (r: RusticResult<TreeId>)
    ensures r is Ok ==> final(w).trees_added@, final(w).packer_flushed@ == old(w).packer_flushed@, final(w).index_flushed@ == old(w).index_flushed@,
{ unimplemented!() }
pub struct VMergePacker { pub _opaque: u64 }
impl VMergePacker {
    // Packer::finalize: flushes the last pack and joins the writer.  PRECONDITION: nothing is added afterwards
    #[verifier::external_body]
    pub fn vfinalize(&self, w: &mut MergeWorld) -> (r: RusticResult<PackerStatsR>)
        requires old(w).trees_added@,
        ensures r is Ok ==> final(w).packer_flushed@, final(w).trees_added@ == old(w).trees_added@, final(w).index_flushed@ == old(w).index_flushed@,
    { unimplemented!() }
}
pub struct VMergeIndexer { pub _opaque: u64 }
impl VMergeIndexer {
    // Indexer::finalize.  PRECONDITION: every pack has been handed to the indexer (the packer is finalized)
    #[verifier::external_body]
    pub fn vfinalize(&self, w: &mut MergeWorld) -> (r: RusticResult<()>)
        requires old(w).packer_flushed@,
        ensures r is Ok ==> final(w).index_flushed@, final(w).trees_added@ == old(w).trees_added@, final(w).packer_flushed@ == old(w).packer_flushed@,
    { unimplemented!() }
}
pub struct VMergeRepo { pub _opaque: u64 }
pub struct MergeSnap { pub id: SnapshotId, pub tree: TreeId, pub summary: Option<SummaryR> }
// commands::merge::merge_trees as seen by merge_snapshots: its own unit proves exactly this postcondition
#[verifier::external_body]
pub fn vmerge_trees_cmd(repo: &VMergeRepo, trees: &Vec<TreeId>, summary: &mut SummaryR, w: &mut MergeWorld) -> (r: RusticResult<TreeId>)
    ensures r is Ok ==> final(w).trees_added@ && final(w).packer_flushed@ && final(w).index_flushed@,
{ unimplemented!() }
impl VMergeRepo {
    // repo.dbe().save_file(&snap) of the merged snapshot.  PRECONDITION: its trees are stored and indexed
    #[verifier::external_body]
    pub fn vsave_snapshot(&self, snap: &MergeSnap, w: &MergeWorld) -> (r: RusticResult<SnapshotId>)
        requires w.trees_added@ && w.packer_flushed@ && w.index_flushed@,
    { unimplemented!() }
}
#[verifier::external_body]
pub fn vsnapshot_trees(snapshots: &Vec<SnapshotFile>) -> (r: Vec<TreeId>) ensures r@.len() == snapshots@.len(), { unimplemented!() }

// ---- prune: removal of the old index files BEFORE the new index exists ----
pub struct PruneOptionsW { pub early_delete_index: bool, pub instant_delete: bool }
pub struct PrunePlanW { pub _opaque: u64 }
// prune_plan.index_files.iter().map(|index| index.id).collect()
#[verifier::external_body]
pub fn vindexes_to_remove(plan: &PrunePlanW) -> Vec<Id> { unimplemented!() }
impl VRepoR3 {
    #[verifier::external_body]
    pub fn vprogress_counter(&self) -> ProgressR { unimplemented!() }
}
impl VPruneBe {
    // removing the old index files EARLY leaves the repository without index until the new one is written.  PRECONDITION:
    // the user asked for exactly the documented-unsafe combination instant-delete + early-delete-index (the property excludes
    // it); any other option set must keep the order "new index first"
    #[verifier::external_body]
    pub fn vdelete_index_files_early(&self, ids: &Vec<Id>, p: ProgressR, Ghost(opts): Ghost<PruneOptionsW>) -> (r: RusticResult<()>)
        requires opts.early_delete_index && opts.instant_delete,
    { unimplemented!() }
}

// ---- copy_blobs: the copier's last pack and the writer's errors surface in finalize ----
pub struct CopyFlush { pub flushed: Ghost<bool> }
pub struct VBlobCopier { pub _opaque: u64 }
pub struct VCopyBlobList { pub _opaque: u64 }
pub struct PackerStatsC { pub _opaque: u64 }
impl VBlobCopier {
    // BlobCopier::finalize (Packer::finalize): writes the last, partially filled pack and joins the writer; an error of
    // ANY pack write of this copier is returned here.  Ok is the only evidence that everything handed over is stored
    #[verifier::external_body]
    pub fn finalize(self, w: &mut CopyFlush) -> (r: RusticResult<PackerStatsC>)
        ensures r is Ok ==> final(w).flushed@,
    { unimplemented!() }
}
// blobs.into_par_iter().try_for_each(|blobs| copier.copy(blobs, &p)): hands every blob to the copier's packer (rayon)
#[verifier::external_body]
pub fn vcopy_all(blobs: VCopyBlobList, copier: &VBlobCopier, p: &ProgressR, w: &mut CopyFlush) -> (r: RusticResult<()>)
    ensures final(w).flushed@ == old(w).flushed@,
{ unimplemented!() }

// ---- prune: end of the repack branch -- both repackers are finalized (their last packs written, errors reported) before
//      the new index is finalized ----
pub struct RepackFlush { pub done: Ghost<Set<int>>, pub index_written: Ghost<bool> }
pub struct VRepacker { pub tag: Ghost<int> }
impl VRepacker {
    #[verifier::external_body]
    pub fn finalize(self, w: &mut RepackFlush) -> (r: RusticResult<PackerStatsC>)
        ensures r is Ok ==> final(w).done@ == old(w).done@.insert(self.tag@), r is Err ==> final(w).done@ == old(w).done@,
            final(w).index_written@ == old(w).index_written@,
    { unimplemented!() }
}
pub struct VRepackIndexer { pub _opaque: u64 }
impl VRepackIndexer {
    // Indexer::finalize of the rebuilt index.  PRECONDITION: every pack it must list is written (both repackers finalized Ok)
    #[verifier::external_body]
    pub fn vfinalize(&self, w: &mut RepackFlush) -> (r: RusticResult<()>)
        requires old(w).done@.contains(1) && old(w).done@.contains(2),
        ensures r is Ok ==> final(w).index_written@, final(w).done@ == old(w).done@,
    { unimplemented!() }
}

// ---- the blob thread of the packer (Packer::new): the status Packer::finalize returns ----
pub struct BlobIdW(pub u64);
pub struct VBlobItem { pub _opaque: u64 }
// the processed blobs reaching the final stage (after the dedup filters and process_data), in order.  The lazy pipeline
// in front of try_for_each is ABSTRACTED to this sequence (channels / threads / filters: the filter and process closures
// are units of C07 / C08)
pub uninterp spec fn BLOB_RESULTS() -> Seq<RusticResult<(VBlobItem, BlobIdW, u64, Option<u32>)>>;
// "this blob was added to the open pack" -- only RawPacker::add_raw can produce it
pub uninterp spec fn BLOB_ADDED(id: BlobIdW) -> bool;
// "RawPacker::finalize succeeded" (unit raw_packer_finalize: the open pack was flushed and the writer thread joined)
pub uninterp spec fn RAW_PACKER_FINALIZED() -> bool;
pub struct VBlobRx { pub _opaque: u64 }
#[verifier::external_body]
pub fn vblob_pipeline(rx: VBlobRx, scope: &VScope) -> (r: Vec<RusticResult<(VBlobItem, BlobIdW, u64, Option<u32>)>>)
    ensures r@ == BLOB_RESULTS(),
{ unimplemented!() }
pub struct VRawPackerLock { pub _opaque: u64 }
impl VRawPackerLock {
    // raw_packer.write().unwrap().add_raw(..)
    #[verifier::external_body]
    pub fn vadd_raw(&self, data: VBlobItem, id: &BlobIdW, data_len: u64, ul: Option<u32>) -> (r: RusticResult<()>)
        ensures r is Ok ==> BLOB_ADDED(*id),
    { unimplemented!() }
    // raw_packer.write().unwrap().finalize()
    #[verifier::external_body]
    pub fn vfinalize(&self) -> (r: RusticResult<PackerStatsR>)
        ensures r is Ok ==> RAW_PACKER_FINALIZED(),
    { unimplemented!() }
}
pub open spec fn every_blob_added_and_packer_finalized() -> bool {
    &&& RAW_PACKER_FINALIZED()
    &&& forall|i: int| 0 <= i < BLOB_RESULTS().len() ==> (#[trigger] BLOB_RESULTS()[i]) is Ok && BLOB_ADDED(BLOB_RESULTS()[i]->Ok_0.1)
}
pub struct VStatsTx { pub _opaque: u64 }
impl VStatsTx {
    // the status Packer::finalize returns.  PRECONDITION: success only if every blob reaching the final stage was
    // processed and added to a pack and the raw packer was finalized
    #[verifier::external_body]
    pub fn send(&self, status: RusticResult<PackerStatsR>) -> (r: Result<(), ()>)
        requires status is Ok ==> every_blob_added_and_packer_finalized(),
    { unimplemented!() }
}

// ---- the hand-back of a packer thread's status: Packer::finalize / Actor::finalize and the pass-through finalizers ----
// the receiving end of the `finish` channel: `sent_ok` = the status the thread sent is Ok (what makes it Ok is decided by the
// units packer_writer_status / actor_writer_status)
pub struct VSenderF { pub _opaque: u64 }
pub struct VFinishRxStats { pub sent_ok: Ghost<bool> }
pub struct VFinishRxUnit { pub sent_ok: Ghost<bool> }
impl VFinishRxStats {
    // recv().expect(..): the status the thread sent (a closed channel panics: never a silent success)
    #[verifier::external_body]
    pub fn vrecv(&self) -> (r: RusticResult<PackerStatsR>) ensures r is Ok <==> self.sent_ok@, { unimplemented!() }
}
impl VFinishRxUnit {
    #[verifier::external_body]
    pub fn vrecv(&self) -> (r: RusticResult<()>) ensures r is Ok <==> self.sent_ok@, { unimplemented!() }
}
#[verifier::external_body]
pub fn vdrop_sender(s: VSenderF) { unimplemented!() }
pub struct PackerF { pub sender: VSenderF, pub finish: VFinishRxStats }
pub struct ActorF { pub sender: VSenderF, pub finish: VFinishRxUnit }
pub struct BlobCopierF { pub packer: PackerF }
pub struct FileArchiverF { pub data_packer: PackerF }
