"""C03 — every crash point leaves only fully readable snapshots (ORDERING kernels of single commands)."""
from tools.extract import Unit, Rw
from tools.krun import Harness

PROPERTY = "C03"
PRELUDE = ["../common/base.rs", "prelude.rs"]
RSN = "crates/core/src/commands/repair/snapshots.rs"
MOD = "crates/core/src/blob/tree/modify.rs"
R_ERR = Rw("", "verr()", count=None, kind="err", why="RusticError construction (kind/message/context dropped)")
R_LOG = Rw("", "", count=None, kind="log", why="logging removed")
R_ATTRS = Rw("", "", count=None, kind="attrs", optional=True, why="derive helper attributes removed")

UNITS = [
    Unit(name="ModifierChange", file=MOD, kind="type", anchor="pub enum ModifierChange {", rewrites=[R_ATTRS]),
    Unit(name="repair_snapshots", file=RSN, anchor="pub(crate) fn repair_snapshots<S: IndexedFull>(", ret_name="r",
         functions=["commands::repair::snapshots::repair_snapshots"],
         rewrites=[
             R_ERR, R_LOG,
             Rw("fn repair_snapshots<S: IndexedFull>(", "fn repair_snapshots(", sig=True, why="Repository<S> -> stub"),
             Rw("repo: &Repository<S>,", "repo: &VRepoR3,", sig=True, why="Repository<S> -> stub"),
             Rw("dry_run: bool,\n) -> RusticResult<()>", "dry_run: bool, dur: &mut Durability,\n) -> RusticResult<()>", sig=True, why="ghost typestate parameter: what is durable so far"),
             Rw("for mut snap in snapshots {", "for s in it: snapshots.iter() { let mut snap = vclone_snapshot(s);", why="by-value iteration with mutation -> by reference + clone; Verus for-loop syntax"),
             Rw("modifier.modify_tree(PathBuf::new(), snap.tree, &mut state)?", "modifier.vmodify_tree(snap.tree, &mut state, dur)?", why="TreeModifier::modify_tree -> stub: a Changed result leaves new trees pending"),
             Rw("_ = snap.set_tags(opts.tag.clone());", "snap.vset_tags(opts);", why="tag handling (strings) -> stub with frame"),
             Rw("be.save_file(&snap)?", "be.vsave_file(&snap, dur)?", count=None, why="save_file of a snapshot -> effectful stub: PRECONDITION 'everything it points to is durable'"),
             Rw("modifier.finalize()?;", "modifier.vfinalize(dur)?;", why="TreeModifier::finalize -> stub: flushes packer and indexer"),
             Rw("for snap in modified_snapshots {", "for snap in it2: modified_snapshots.iter() {", why="Verus for-loop syntax; by reference"),
             Rw(r"be\.delete_list\(\s*true,\s*state\.delete\.iter\(\),\s*(?P<p>repo\.progress_counter\([^)]*\)),\s*\)\?", r"be.vdelete_snapshots(&state.delete, \g<p>, dur)?", regex=True,
                why="delete_list of snapshot files -> effectful stub: PRECONDITION 'nothing pending'"),
         ],
         contract="""
    requires old(dur).flushed@,
    // (implicit obligations, preconditions of the stubs: a repaired snapshot is saved -- and the damaged ones are removed --
    //  only when the trees produced for it have been flushed by TreeModifier::finalize)
""",
         loops={2: "\n        invariant dur.flushed@,\n"}, optional_loops=True,
         ),
]

AR = "crates/core/src/archiver.rs"
UNITS += [
    Unit(name="archive_tail", file=AR, kind="block", within="pub fn archive<R>(",
         anchor="let stats = self.file_archiver.finalize()?;", block_end="@fn_end",
         block_sig="fn archive_tail(this: VArchiver, skip_identical_parent: bool, p: &ProgressB, w: &mut BackupWorld) -> (r: RusticResult<BackupSnap>)",
         block_tail="",
         functions=["archiver::Archiver::archive (the tail after the item pipeline: finalize packers, finalize index, save snapshot)"],
         rewrites=[
             Rw("let stats = self.file_archiver.finalize()?;", "let mut this = this; let stats = this.file_archiver.vfinalize(w)?;", why="`mut self` -> rebinding; FileArchiver::finalize -> stub: data packs flushed"),
             Rw("self.tree_archiver.finalize(self.parent.tree_id())?", "this.tree_archiver.vfinalize(this.parent.tree_id(), w)?", why="TreeArchiver::finalize -> stub: tree packs flushed"),
             Rw("self.indexer.write().unwrap().finalize()?;", "this.indexer.vfinalize(w)?;", why="RwLock guard + Indexer::finalize -> stub: PRECONDITION 'all packs stored'"),
             Rw("self.be.save_file(&self.snap)?", "this.be.vsave_file(&this.snap, w)?", why="save_file of the snapshot -> effectful stub: PRECONDITION 'packs and index durable'"),
             Rw("self.snap.id = id.into();", "this.snap.id = id;", why="Id -> SnapshotId conversion"),
             Rw("self.", "this.", count=None, why="statement-block unit: self -> parameter"),
         ],
         contract="""
    // (implicit obligations, preconditions of the stubs: the index is finalized only after both packers were finalized, the
    //  snapshot file is saved only after the index was finalized -- so at every cut-off point the new snapshot is either
    //  not visible or completely readable)
"""),
]

PRU = "crates/core/src/commands/prune.rs"
PKR = "crates/core/src/blob/packer.rs"
UNITS += [
    Unit(name="prune_removal_tail", file=PRU, kind="block", within="pub(crate) fn prune_repository<S: Open>(",
         anchor="if repack_packs.is_empty() {", block_end="@fn_end",
         block_sig="fn prune_removal_tail(repo: &VRepoR3, be: &VPruneBe, repack_packs: Vec<PackId>, indexes_remove: Vec<Id>, data_packs_remove: Vec<PackId>, tree_packs_remove: Vec<PackId>, early_delete_index: bool, opts: &PruneOptionsW, w: &mut PruneWorld) -> (r: RusticResult<()>)",
         block_tail="",
         functions=["commands::prune::prune_repository (the removal tail: old index files, then old data packs, then old tree packs)"],
         rewrites=[
             Rw(r"if repack_packs\.is_empty\(\) \{\n        indexer\.finalize\(\)\?;\n    \} else \{.*?\n        indexer\.write\(\)\.unwrap\(\)\.finalize\(\)\?;\n        p\.finish\(\);\n    \}\n",
                "if repack_packs.is_empty() { vfinalize_new_index(w)?; } else { vrepack_and_finalize_new_index(w)?; }\n", regex=True,
                why="ELIDED: the repack branch (rayon closure over BlobCopier, see C02 copy units) and both Indexer::finalize calls -> stubs that establish 'new index written' when they succeed"),
             Rw("be.delete_list(true, indexes_remove.iter(), p)?;", "be.vdelete_index_files(&indexes_remove, p, w)?;", why="delete_list of index files -> effectful stub (PRECONDITION: new index written)"),
             Rw("be.delete_list(false, data_packs_remove.iter(), p)?;", "be.vdelete_packs(false, &data_packs_remove, p, w)?;", why="delete_list of packs -> effectful stub (PRECONDITION: no old index file left, new index written)"),
             Rw("be.delete_list(true, tree_packs_remove.iter(), p)?;", "be.vdelete_packs(true, &tree_packs_remove, p, w)?;", why="delete_list of packs -> effectful stub"),
         ],
         contract="""
    requires
        // the old index files are already gone if there were none or if the user asked for early deletion
        early_delete_index == (opts.early_delete_index && opts.instant_delete),   // the local defined in front of the early removal (unit prune_early_index_removal)
        (indexes_remove@.len() == 0 || early_delete_index) ==> old(w).old_index_removed@,
    // (implicit obligations: packs are removed only after the index files that may list them)
"""),
    Unit(name="file_writer_process", file=PKR, anchor="fn process(&self, load: (BytesList, PackId, IndexPack)) -> RusticResult<IndexPack>", within="impl<BE: DecryptWriteBackend> FileWriterHandle<BE> {", ret_name="r",
         wrap_open="impl FileWriterHandle {", wrap_close="}",
         functions=["blob::packer::FileWriterHandle::process"],
         rewrites=[Rw(r"(?m)^(\s*)_ = ", r"\1let _ = ", regex=True, count=None, why="`_ = e;` -> `let _ = e;`"),
                   Rw("load: (BytesList, PackId, IndexPack)) -> RusticResult<IndexPack>", "load: (BytesListR, PackId, IndexPackR)) -> RusticResult<IndexPackR>", sig=True, why="byte list / index pack -> stubs"),
                   Rw("Timestamp::now()", "TimestampR::now()", why="jiff Timestamp -> stub")],
         contract="""
    ensures
        // the index entry handed on (to Indexer::add) exists only for a pack whose write succeeded, under that pack's id
        /*@index_entry_only_for_a_stored_pack*/ r matches Ok(ix) ==> STORED(load.1, load.0.data@) && ix.id == load.1 && ix.time is Some,
"""),
]

UNITS += [
    Unit(name="actor_writer_status", file=PKR, kind="block", within="fn new<BE: DecryptWriteBackend>(\n        fwh: FileWriterHandle<BE>,",
         anchor="@closure:scope(|scope|",
         block_sig="fn actor_writer_status(rx: VPackRx, fwh: FileWriterHandle, finish_tx: VFinishTx, scope: &VScope)",
         block_tail="",
         functions=["blob::packer::Actor::new (writer thread: the status reported to Actor::finalize)"],
         rewrites=[
             Rw(r"rx\s*\.into_iter\(\)\s*\.readahead_scoped\(scope\)\s*\.map\(\|\(file, index\): \(BytesList, IndexPack\)\| \{.*?\}\)\s*\.readahead_scoped\(scope\)\s*\.map\(\|load\| fwh\.process\(load\)\)\s*\.readahead_scoped\(scope\)", "vwriter_pipeline(rx, &fwh, scope)", regex=True,
                why="ABSTRACTED: the readahead pipeline rx -> pack id -> FileWriterHandle::process -> the sequence of its results (threads/channels); its closures are units actor_pack_id (C08) and file_writer_process"),
             Rw("", "RusticResult<IndexPackR> ;; RusticResult<()> ;; ensures q is Ok ==> index is Ok && WRITER_INDEXED(index->Ok_0.id),", kind="tryforeach",
                why="Iterator::try_for_each -> its definition (loop, stop at the first Err); the closure keeps its body and gets a contract PROVED from it"),
         ],
         contract="\n    // (implicit obligation: the status sent is Ok only if every pack handed to the writer was stored and added to the index)\n",
         loops={1: """
        invariant_except_break vst is Ok,
            forall|i: int| 0 <= i < itf.index@ ==> (#[trigger] PIPE_RESULTS()[i]) is Ok && WRITER_INDEXED(PIPE_RESULTS()[i]->Ok_0.id),
        invariant vrecv@ == PIPE_RESULTS(),
            forall|x: RusticResult<IndexPackR>| vf.requires((x,)),
            forall|x: RusticResult<IndexPackR>, q: RusticResult<()>| vf.ensures((x,), q) ==> (q is Ok ==> x is Ok && WRITER_INDEXED(x->Ok_0.id)),
        ensures vst is Ok ==> every_pack_written_and_indexed(),
"""},
         optional_loops=True),
]

UNITS += [
    Unit(name="packer_writer_status", file=PKR, kind="block", within="impl<BE: DecryptWriteBackend> Packer<BE> {",
         anchor="@closure:scope(|scope|",
         block_sig="fn packer_writer_status(rx: VBlobRx, raw_packer: VRawPackerLock, finish_tx: VStatsTx, scope: &VScope)",
         block_tail="",
         functions=["blob::packer::Packer::new (blob thread: the status reported to Packer::finalize)"],
         rewrites=[
             Rw(r"rx\s*\.into_iter\(\).*?(?=\s*\.try_for_each\()", "vblob_pipeline(rx, scope)", regex=True,
                why="ABSTRACTED: the readahead/filter/parallel_map pipeline in front of try_for_each -> the sequence of its results (threads/channels); its closures are units packer_filter_early (C07) and packer_process_blob (C08)"),
             Rw(r"raw_packer\s*\.write\(\)\s*\.unwrap\(\)\s*\.add_raw\(data\.into\(\), ", "raw_packer.vadd_raw(data, ", regex=True, why="RwLock write guard + RawPacker::add_raw (C07 unit) -> stub: the blob is in the open pack"),
             Rw(r"raw_packer\s*\.write\(\)\s*\.unwrap\(\)\s*\.finalize\(\)", "raw_packer.vfinalize()", regex=True, why="RwLock write guard + RawPacker::finalize (unit raw_packer_finalize) -> stub"),
             Rw("", "RusticResult<(VBlobItem, BlobIdW, u64, Option<u32>)> ;; RusticResult<()> ;; ensures q is Ok ==> item is Ok && BLOB_ADDED(item->Ok_0.1),", kind="tryforeach",
                why="Iterator::try_for_each (+ Result::and_then) -> their definitions; the closure keeps its body and gets a contract PROVED from it"),
         ],
         contract="\n    // (implicit obligation: the status sent is Ok only if every blob was added to a pack and the raw packer was finalized)\n",
         loops={1: """
        invariant_except_break vst is Ok,
            forall|i: int| 0 <= i < itf.index@ ==> (#[trigger] BLOB_RESULTS()[i]) is Ok && BLOB_ADDED(BLOB_RESULTS()[i]->Ok_0.1),
        invariant vrecv@ == BLOB_RESULTS(),
            forall|x: RusticResult<(VBlobItem, BlobIdW, u64, Option<u32>)>| vf.requires((x,)),
            forall|x: RusticResult<(VBlobItem, BlobIdW, u64, Option<u32>)>, q: RusticResult<()>| vf.ensures((x,), q) ==> (q is Ok ==> x is Ok && BLOB_ADDED(x->Ok_0.1)),
        ensures vst is Ok ==> forall|i: int| 0 <= i < BLOB_RESULTS().len() ==> (#[trigger] BLOB_RESULTS()[i]) is Ok && BLOB_ADDED(BLOB_RESULTS()[i]->Ok_0.1),
"""},
         optional_loops=True),
]

R_DROPS = Rw("drop(self.sender);", "vdrop_sender(self.sender);", why="drop of the sending end (closes the channel so that the thread ends its loop)")
UNITS += [
    # the status the packer thread sent is what finalize returns -- never replaced, never swallowed
    Unit(name="packer_finalize", file=PKR, anchor="pub fn finalize(self) -> RusticResult<PackerStats>", within="impl<BE: DecryptWriteBackend> Packer<BE> {", ret_name="r",
         wrap_open="impl PackerF {", wrap_close="}",
         functions=["blob::packer::Packer::finalize"],
         rewrites=[R_DROPS,
                   Rw("-> RusticResult<PackerStats>", "-> RusticResult<PackerStatsR>", sig=True, why="statistics -> opaque"),
                   Rw(r"self\.finish\s*\.recv\(\)\s*\.expect\([^)]*\)", "self.finish.vrecv()", regex=True, why="Receiver::recv().expect(..) -> stub: the status sent (a closed channel panics)")],
         contract="\n    ensures /*@packer_finalize_returns_the_threads_status*/ r is Ok <==> self.finish.sent_ok@,\n"),
    Unit(name="actor_finalize", file=PKR, anchor="fn finalize(self) -> RusticResult<()>", within="impl Actor {", ret_name="r",
         wrap_open="impl ActorF {", wrap_close="}",
         functions=["blob::packer::Actor::finalize"],
         rewrites=[R_DROPS,
                   Rw(r"self\.finish\.recv\(\)\.unwrap\(\)", "self.finish.vrecv()", regex=True, why="Receiver::recv().unwrap() -> stub: the status sent")],
         contract="\n    ensures /*@actor_finalize_returns_the_threads_status*/ r is Ok <==> self.finish.sent_ok@,\n"),
    Unit(name="blob_copier_finalize", file=PKR, anchor="pub fn finalize(self) -> RusticResult<PackerStats>", within="impl<BE: DecryptFullBackend> BlobCopier<BE> {", ret_name="r",
         wrap_open="impl BlobCopierF {", wrap_close="}",
         functions=["blob::packer::BlobCopier::finalize"],
         rewrites=[Rw("-> RusticResult<PackerStats>", "-> RusticResult<PackerStatsR>", sig=True, why="statistics -> opaque")],
         contract="\n    ensures /*@copier_finalize_is_its_packers*/ r is Ok <==> self.packer.finish.sent_ok@,\n"),
    Unit(name="file_archiver_finalize", file="crates/core/src/archiver/file_archiver.rs", anchor="pub(crate) fn finalize(self) -> RusticResult<PackerStats>", ret_name="r",
         wrap_open="impl FileArchiverF {", wrap_close="}",
         functions=["archiver::file_archiver::FileArchiver::finalize"],
         rewrites=[Rw("-> RusticResult<PackerStats>", "-> RusticResult<PackerStatsR>", sig=True, why="statistics -> opaque")],
         contract="\n    ensures /*@file_archiver_finalize_is_its_packers*/ r is Ok <==> self.data_packer.finish.sent_ok@,\n"),
]

CPY = "crates/core/src/commands/copy.rs"
UNITS += [
    Unit(name="copy_tail", file=CPY, kind="block", within="pub(crate) fn copy<'a, R: IndexedFull, S: IndexedIds>(",
         anchor="copy_blobs(trees, tree_repacker, p)?;", block_end="@fn_end",
         block_sig="fn copy_tail(trees: VCopyList, tree_repacker: VCopier, p: ProgressR, indexer: &VDestIndexer, repo_dest: &VRepoR3, be_dest: &VDestBe, snaps: Vec<SnapshotFile>, w: &mut CopyWorld) -> (r: RusticResult<()>)",
         block_tail="",
         functions=["commands::copy::copy (tail: copy tree blobs, finalize the destination index, save the snapshots)"],
         rewrites=[
             Rw("copy_blobs(trees, tree_repacker, p)?;", "vcopy_tree_blobs(trees, tree_repacker, p, w)?;", why="copy_blobs (rayon) -> stub: tree blobs copied and their packer flushed"),
             Rw("indexer.write().unwrap().finalize()?;", "indexer.vfinalize(w)?;", why="RwLock guard + Indexer::finalize -> stub: PRECONDITION 'all blobs copied'"),
             Rw("be_dest.save_list(snaps.iter(), p)?;", "be_dest.vsave_snapshots(&snaps, p, w)?;", why="save_list of the copied snapshots -> effectful stub: PRECONDITION 'blobs and index durable'"),
         ],
         contract="""
    requires old(w).data_copied@,   // the data blobs were copied (and their packer finalized) by the statement in front of this block
    // (implicit obligations: the destination index is finalized after all blobs, the snapshots are saved last)
"""),
]

RWF = "crates/core/src/commands/rewrite.rs"
UNITS += [
    Unit(name="rewrite_save_then_forget", file=RWF, kind="block", within="fn process_snapshots<S: Open>(",
         anchor="match (&opts.tags_rewritten, opts.forget) {", block_end="    }\n\n    Ok(snapshots)",
         block_sig="fn rewrite_save_then_forget(repo: &VRepoRw, snapshots: &Vec<SnapshotFile>, opts: &RewriteOptions, w: &mut RewriteWorld) -> (r: RusticResult<()>)",
         block_tail="    Ok(())",
         functions=["commands::rewrite::process_snapshots (save the rewritten snapshots, then forget the originals)"],
         rewrites=[
             Rw(r"match \(&opts\.tags_rewritten, opts\.forget\) \{.*?\(None, true\) => \{\}\n        \}\n", "", regex=True, why="ELIDED: tag bookkeeping of the rewritten snapshots (closures over strings); no storage operation in it"),
             Rw("repo.save_snapshots(snapshots.clone())?;", "repo.vsave_snapshots(vclone_snapshots(snapshots), w)?;", why="Repository::save_snapshots -> stub: ensures 'rewritten snapshots saved'"),
             Rw("let old_snap_ids: Vec<_> = snapshots.iter().map(|sn| sn.id).collect();", "let old_snap_ids = vsnapshot_ids(snapshots);", why="iterator map/collect of the ids -> stub"),
             Rw("repo.delete_snapshots(&old_snap_ids)?;", "repo.vdelete_snapshots(&old_snap_ids, w)?;", why="Repository::delete_snapshots -> effectful stub: PRECONDITION 'replacements saved'"),
         ],
         contract="\n    // (implicit obligation: the original snapshots are forgotten only after the rewritten ones were saved)\n"),
]

UNITS += [
    Unit(name="raw_packer_finalize", file=PKR, anchor="fn finalize(&mut self) -> RusticResult<PackerStats>", within="impl<BE: DecryptWriteBackend> RawPacker<BE> {", ret_name="r",
         wrap_open="impl RawPackerW {", wrap_close="}",
         functions=["blob::packer::RawPacker::finalize"],
         rewrites=[Rw("RusticResult<PackerStats>", "RusticResult<PackerStatsR>", sig=True, why="stats -> stub")],
         contract="""
    requires old(self).file_writer is Some,
    ensures
        // a packer reports success only after the writer thread was waited for: a failed pack write cannot go unnoticed,
        // whether or not a partially filled pack was still open
        /*@success_only_after_the_writer_was_joined*/ r is Ok ==> WRITER_JOINED() && final(self).file_writer is None,
"""),
]

RIXP = "crates/core/src/commands/repair/index.rs"
UNITS += [
    Unit(name="repair_index_order", file=RIXP, kind="block", within="pub(crate) fn repair_index<S: Open>(",
         anchor="for index in be.stream_all::<IndexFile>(&p)? {", block_end="@fn_end",
         block_sig="fn repair_index_order(be: &VIdxBe, repo: &VRepoR3, mut checker: PackCheckerR, opts: RepairIndexOptions, dry_run: bool, p: ProgressR, mut changed_index_files: Vec<(Id, IndexFileR)>, w: &mut RepairIdxWorld) -> (r: RusticResult<()>)",
         block_tail="",
         functions=["commands::repair::index::repair_index (after the append-only guard: check every index file, re-read pack headers, write the rebuilt index, replace the modified index files)"],
         rewrites=[
             Rw("for index in be.stream_all::<IndexFile>(&p)? {", "let vstream = be.vstream_all_index(&p)?; for index in it: vstream.into_iter() {", why="channel stream -> vector of per-file results; Verus for-loop syntax"),
             Rw("checker.check_pack(index, opts.read_all)", "checker.vcheck_pack(index, opts.read_all, w)", why="PackChecker::check_pack (unit of C12) -> stub: records whether an existing pack was queued for re-reading"),
             Rw(r"let pack_read_header = checker\.into_pack_to_read\(\);.*?\n        p\.inc\(1\);\n    \}\n", "vreread_headers(checker);\n", regex=True,
                why="ELIDED: warm-up and the header re-reading loop (PackHeader::from_file is a unit of C08; Indexer::add_with of C07): no removal of anything in it"),
             Rw("indexer.write().unwrap().finalize()?;", "vindexer_finalize_rebuilt(w)?;", why="RwLock guard + Indexer::finalize -> stub: when it succeeds the re-read packs' entries are in a stored index file"),
             Rw("for (index_id, new_index) in changed_index_files {", "for e in it2: changed_index_files.iter() { let (index_id, new_index) = (e.0, &e.1);", why="by-value iteration -> by reference; Verus for-loop syntax"),
             Rw("be.save_file(&new_index)?", "be.save_file(new_index)?", why="reference adjustment after by-reference iteration"),
             Rw("be.remove(FileType::Index, &index_id, true)?;", "be.vremove_index(&index_id, w)?;", count=None, why="remove of a stored index file -> effectful stub: PRECONDITION 'no existing pack is left without an index entry'"),
         ],
         contract="""
    requires !old(w).queued@,
    // (implicit obligation, precondition of the index-file removal: a stored index file is removed only when no existing
    //  pack is left without an entry -- i.e. after the packs queued for re-reading were written to the new index.
    //  The defect found here -- removal in the first pass -- is fixed)
""",
         loops={1: "\n        invariant true,\n", 2: "\n        invariant !w.queued@,\n"}, optional_loops=True,
         ),
]
KANI = []
MRG = "crates/core/src/commands/merge.rs"
UNITS += [
    Unit(name="merge_trees_tail", file=MRG, kind="block", within="pub(crate) fn merge_trees<S: IndexedTree>(",
         anchor="let tree_merged = tree::merge_trees(be, index, trees, cmp, &save, summary)?;", block_end="@fn_end",
         block_sig="fn merge_trees_tail(inp: &VMergeInputs, packer: &VMergePacker, indexer: &VMergeIndexer, p: ProgressB, summary: &mut SummaryR, w: &mut MergeWorld) -> (r: RusticResult<TreeId>)",
         block_tail="",
         functions=["commands::merge::merge_trees (tail: merge, finalize the packer, finalize the index)"],
         rewrites=[
             Rw("tree::merge_trees(be, index, trees, cmp, &save, summary)?;", "vmerge_tree_blobs(inp, summary, w)?;", why="blob::tree::merge_trees with the `save` closure -> stub: tree blobs handed to the packer"),
             Rw("packer.finalize()?;", "packer.vfinalize(w)?;", why="Packer::finalize -> effectful stub: PRECONDITION 'all trees added'"),
             Rw("indexer.write().unwrap().finalize()?;", "indexer.vfinalize(w)?;", why="RwLock guard + Indexer::finalize -> effectful stub: PRECONDITION 'packer finalized'"),
         ],
         contract="""
    ensures
        /*@merged_tree_returned_only_when_packed_and_indexed*/ r is Ok ==> final(w).trees_added@ && final(w).packer_flushed@ && final(w).index_flushed@,
"""),
    Unit(name="merge_snapshots_tail", file=MRG, kind="block", within="pub(crate) fn merge_snapshots<S: IndexedTree>(",
         anchor="let trees: Vec<TreeId> = snapshots.iter().map(|sn| sn.tree).collect();", block_end="@fn_end",
         block_sig="fn merge_snapshots_tail(repo: &VMergeRepo, snapshots: &Vec<SnapshotFile>, mut snap: MergeSnap, mut summary: SummaryR, now: ZonedR, w: &mut MergeWorld) -> (r: RusticResult<MergeSnap>)",
         block_tail="",
         functions=["commands::merge::merge_snapshots (tail: merge the trees, then save the merged snapshot)"],
         rewrites=[
             Rw("let trees: Vec<TreeId> = snapshots.iter().map(|sn| sn.tree).collect();", "let trees: Vec<TreeId> = vsnapshot_trees(snapshots);", why="iterator map/collect of the tree ids -> stub"),
             Rw("merge_trees(repo, &trees, cmp, &mut summary)?;", "vmerge_trees_cmd(repo, &trees, &mut summary, w)?;", why="commands::merge::merge_trees -> stub carrying the postcondition proved by the unit merge_trees_tail"),
             Rw("snap.id = repo.dbe().save_file(&snap)?.into();", "snap.id = repo.vsave_snapshot(&snap, w)?;", why="save_file of the merged snapshot -> effectful stub: PRECONDITION 'trees stored and indexed'"),
         ],
         contract="\n    // (implicit obligation: the merged snapshot is saved only after its trees were packed and the index was finalized)\n"),
]

UNITS += [
    Unit(name="prune_early_index_removal", file=PRU, kind="block", within="pub(crate) fn prune_repository<S: Open>(",
         anchor="let indexes_remove: Vec<_> = prune_plan", block_end="let mut tree_packs_remove = Vec::new();",
         block_sig="fn prune_early_index_removal(repo: &VRepoR3, be: &VPruneBe, prune_plan: &PrunePlanW, opts: &PruneOptionsW) -> (r: RusticResult<()>)",
         block_tail="    Ok(())",
         functions=["commands::prune::prune_repository (early removal of the old index files: only for instant-delete + early-delete-index)"],
         rewrites=[
             Rw(r"let indexes_remove: Vec<_> = prune_plan\s*\.index_files\s*\.iter\(\)\s*\.map\(\|index\| index\.id\)\s*\.collect\(\);", "let indexes_remove = vindexes_to_remove(prune_plan);" + "\n" * 4, regex=True, why="iterator map/collect of the index ids -> stub"),
             Rw('repo.progress_counter("removing old index files...")', "repo.vprogress_counter()", why="progress bar"),
             Rw("be.delete_list(true, indexes_remove.iter(), p)?;", "be.vdelete_index_files_early(&indexes_remove, p, Ghost(*opts))?;", why="delete_list of the old index files before the new index exists -> effectful stub: PRECONDITION 'the documented-unsafe option pair was requested'"),
         ],
         contract="\n    // (implicit obligation: the old index files are removed before the new index is written only for instant-delete + early-delete-index)\n"),
]

UNITS += [
    Unit(name="copy_blobs_reports_failed_writes", file=CPY, kind="block", within="fn copy_blobs<BE: DecryptFullBackend>(",
         anchor="p.set_length(length);", block_end="@fn_end",
         block_sig="fn copy_blobs_reports_failed_writes(blobs: VCopyBlobList, copier: VBlobCopier, p: ProgressR, w: &mut CopyFlush) -> (r: RusticResult<()>)",
         block_tail="",
         functions=["commands::copy::copy_blobs (tail: copy every blob, finalize the copier, report its errors)"],
         rewrites=[
             Rw(r"blobs\s*\.into_par_iter\(\)\s*\.try_for_each\(\|blobs\| -> RusticResult<_> \{ copier\.copy\(blobs, &p\) \}\)", "vcopy_all(blobs, &copier, &p, w)" + "\n" * 2, regex=True, why="rayon loop over BlobCopier::copy (unit of C02) -> stub"),
             Rw("copier.finalize()", "copier.finalize(w)", why="typestate argument: Ok of finalize is the evidence that the last pack is stored"),
             Rw("p.set_length(length);", "", why="progress bar (UI only); anchor statement of the block"),
         ],
         contract="""
    requires !old(w).flushed@,
    ensures
        // copy_blobs reports success only if the copier's finalize did: a failed pack write (they surface there) is never swallowed
        /*@success_only_if_the_last_pack_was_written*/ r is Ok ==> final(w).flushed@,
"""),
]

UNITS += [
    Unit(name="prune_repack_finalize", file=PRU, kind="block", within="pub(crate) fn prune_repository<S: Open>(",
         anchor="_ = tree_repacker.finalize()", block_end="p.finish();\n    }\n",
         block_sig="fn prune_repack_finalize(tree_repacker: VRepacker, data_repacker: VRepacker, indexer: &VRepackIndexer, w: &mut RepackFlush) -> (r: RusticResult<()>)",
         block_tail="        Ok(())",
         functions=["commands::prune::prune_repository (end of the repack branch: finalize both repackers, then the new index)"],
         rewrites=[
             Rw("tree_repacker.finalize()", "tree_repacker.finalize(w)", why="typestate argument: Ok of finalize is the evidence that the repacker's last pack is stored"),
             Rw("data_repacker.finalize()", "data_repacker.finalize(w)", why="typestate argument (as above)"),
             Rw("indexer.write().unwrap().finalize()?;", "indexer.vfinalize(w)?;", why="RwLock guard + Indexer::finalize -> effectful stub: PRECONDITION 'both repackers finalized successfully'"),
         ],
         contract="""
    requires tree_repacker.tag@ == 1, data_repacker.tag@ == 2, !old(w).done@.contains(1), !old(w).done@.contains(2),
    ensures
        /*@new_index_only_after_both_repackers_succeeded*/ r is Ok ==> final(w).index_written@ && final(w).done@.contains(1) && final(w).done@.contains(2),
"""),
]

META = {"not_covered": [
    "the statement's quantifier (every prefix of every command's storage operations, any single failing operation): only the ordering of the straight-line parts listed under functions is decided",
    "thread pipelines: the readahead/filter/parallel_map pipelines of Packer::new and Actor::new in front of their try_for_each (abstracted to the sequence of their results; the statuses computed from them ARE units packer_writer_status / actor_writer_status), parallel repack in prune, TreeStreamerOnce",
    "forget, config and key changes (single storage operations); of copy / merge / rewrite only the ordering tails listed under functions; instant-delete + early-delete-index of prune (the documented-unsafe pair the property excludes; every other option set is held to the order)",
    "the repack branch of prune_repository, the header re-reading loop of repair_index and Indexer::finalize itself (elided / stubs)",
]}
