// ===== C04: which key a password opens (find_key_in_backend / key_from_backend) =====
#[derive(Clone, Copy, PartialEq, Eq, Structural)]
pub struct Id(pub u64);
#[derive(Clone, Copy, PartialEq, Eq, Structural)]
pub struct KeyId(pub Id);
#[derive(Clone, Copy, PartialEq, Eq, Structural)]
pub enum FileType { Config, Index, Key, Snapshot, Pack }
impl Id {
    pub fn default() -> (r: Id) ensures r == Id(0), { Id(0) }
}
impl KeyId {
    pub fn default() -> (r: KeyId) ensures r == KeyId(Id(0)), { KeyId(Id(0)) }
}
pub fn vkeyid(id: Id) -> (r: KeyId) ensures r == KeyId(id), { KeyId(id) }
pub struct PasswdR { pub _opaque: u64 }
pub struct MasterKey { pub k: u64 }
pub struct KeyFile { pub _opaque: u64 }
pub struct VKeyBackend { pub _opaque: u64 }
// scrypt + AEAD of the key file: uninterpreted.  UNLOCKS = "the password's derived key authenticates this key file"
pub uninterp spec fn KEYFILE(be: VKeyBackend, id: KeyId) -> KeyFile;
pub uninterp spec fn UNLOCKS(kf: KeyFile, pw: PasswdR) -> bool;
pub uninterp spec fn MASTER(kf: KeyFile, pw: PasswdR) -> MasterKey;
impl VKeyBackend {
    pub uninterp spec fn key_ids(&self) -> Seq<Id>;
    #[verifier::external_body]
    pub fn list(&self, tpe: FileType) -> (r: RusticResult<Vec<Id>>)
        ensures r matches Ok(v) ==> (tpe is Key ==> v@ == self.key_ids()),
    { unimplemented!() }
}
impl KeyFile {
    #[verifier::external_body]
    pub fn from_backend(be: &VKeyBackend, id: &KeyId) -> (r: RusticResult<KeyFile>)
        ensures r matches Ok(kf) ==> kf == KEYFILE(*be, *id),
    { unimplemented!() }
    // Ok only if the MAC of the wrapped master key verifies under the key derived from the password
    #[verifier::external_body]
    pub fn key_from_password(&self, passwd: &PasswdR) -> (r: RusticResult<MasterKey>)
        ensures r matches Ok(k) ==> UNLOCKS(*self, *passwd) && k == MASTER(*self, *passwd),
    { unimplemented!() }
}
impl RusticError {
    // error code test ("C001" = wrong password for this key file): any answer
    #[verifier::external_body]
    pub fn is_code(&self, code: &str) -> bool { unimplemented!() }
}

// ---- KeyFile::{kdf_key, key_from_data, key_from_password}: from a password to the master key ----
pub struct PasswdB { pub bytes: Ghost<Seq<u8>> }
impl PasswdB {
    #[verifier::external_body]
    pub fn as_ref(&self) -> (r: &[u8]) ensures r@ == self.bytes@, { unimplemented!() }
}
pub struct ParamsR { pub log_n: u8, pub r: u32, pub p: u32 }
pub struct Log2Err { pub _opaque: u64 }
pub struct ParamsErr { pub _opaque: u64 }
pub uninterp spec fn LOG2(n: u32) -> u8;
#[verifier::external_body]
pub fn log_2(n: u32) -> (r: Result<u8, Log2Err>) ensures r matches Ok(l) ==> l == LOG2(n), { unimplemented!() }
impl ParamsR {
    #[verifier::external_body]
    pub fn new(log_n: u8, r: u32, p: u32) -> (res: Result<ParamsR, ParamsErr>)
        ensures res matches Ok(ps) ==> ps.log_n == log_n && ps.r == r && ps.p == p,
    { unimplemented!() }
}
// scrypt and the AEAD key layout: uninterpreted
pub uninterp spec fn SCRYPT(pw: Seq<u8>, salt: Seq<u8>, log_n: u8, r: u32, p: u32) -> Seq<u8>;
pub uninterp spec fn KEY_OF(bytes: Seq<u8>) -> AeadKey;
pub struct ScryptErr { pub _opaque: u64 }
#[verifier::external_body]
pub fn vscrypt(pw: &[u8], salt: &[u8], params: &ParamsR, out: &mut [u8; 64]) -> (r: Result<(), ScryptErr>)
    ensures r is Ok ==> final(out)@ == SCRYPT(pw@, salt@, params.log_n, params.r, params.p),
{ unimplemented!() }
#[verifier::external_body]
pub fn vkey_from_array(k: &[u8; 64]) -> (r: Key) ensures r.0 == KEY_OF(k@), { unimplemented!() }
// serde_json::from_slice::<MasterKey>(..)?.key(): uninterpreted parse
pub uninterp spec fn MK_PARSE(json: Seq<u8>) -> AeadKey;
#[verifier::external_body]
pub fn vmasterkey_from_json(d: &Vec<u8>) -> (r: RusticResult<Key>) ensures r matches Ok(k) ==> k.0 == MK_PARSE(d@), { unimplemented!() }
pub struct KeyFileK { pub n: u32, pub r: u32, pub p: u32, pub salt: Vec<u8>, pub data: Vec<u8> }
// the wrapping key a password yields for a key file
pub open spec fn wrapping_key(kf: KeyFileK, pw: Seq<u8>) -> AeadKey { KEY_OF(SCRYPT(pw, kf.salt@, LOG2(kf.n), kf.r, kf.p)) }

// ---- KeyFile::generate: wrapping the master key under a password (round trip with key_from_password) ----
// correctness of the AEAD (ASSUMED): what was encrypted and tagged under (key, nonce) verifies and decrypts to the plaintext
#[verifier::external_body]
pub proof fn axiom_aead_correct(k: AeadKey, n: Seq<u8>, d: Seq<u8>)
    ensures AEAD_OK(k, n, CT(k, n, d) + TAG(k, n, d)), PT(k, n, CT(k, n, d) + TAG(k, n, d)) == d,
{}
pub struct MasterKeyJ { pub k: Ghost<AeadKey> }
#[verifier::external_body]
pub fn vmasterkey_from_key(key: Key) -> (r: MasterKeyJ) ensures r.k@ == key.0, { unimplemented!() }
pub struct SerdeErr { pub _opaque: u64 }
// serde_json::to_vec(&masterkey): ASSUMED inverse of the parse used when a key file is opened
#[verifier::external_body]
pub fn vmasterkey_to_json(m: &MasterKeyJ) -> (r: Result<Vec<u8>, SerdeErr>)
    ensures r matches Ok(v) ==> MK_PARSE(v@) == m.k@ && v@.len() < 0x1_0000,
{ unimplemented!() }
impl ParamsR {
    // scrypt::Params::RECOMMENDED
    #[verifier::external_body]
    pub fn recommended() -> ParamsR { unimplemented!() }
    pub fn log_n(&self) -> (r: u8) ensures r == self.log_n, { self.log_n }
    pub fn r(&self) -> (r: u32) ensures r == self.r, { self.r }
    pub fn p(&self) -> (r: u32) ensures r == self.p, { self.p }
}
// 2_u32.pow(log_n): the stored cost parameter; log_2 (used when the key file is opened) is its inverse (ASSUMED)
#[verifier::external_body]
pub fn vpow2(log_n: u8) -> (r: u32) ensures LOG2(r) == log_n, { unimplemented!() }
#[verifier::external_body]
pub fn vzeroed64() -> (r: Vec<u8>) ensures r@.len() == 64, { unimplemented!() }
// rng().fill_bytes(&mut salt): any bytes
#[verifier::external_body]
pub fn vrng_fill_salt(salt: &mut Vec<u8>) ensures final(salt)@.len() == old(salt)@.len(), { unimplemented!() }

// ---- ROUND TRIP over the contracts of the real Key::encrypt_data / Key::decrypt_data (checked composition; AEAD correctness
//      assumed): what decrypt_data returns for the output of encrypt_data is the plaintext
pub fn lemma_encrypt_decrypt_round_trip(key: &Key, data: &[u8]) -> (r: Option<Vec<u8>>)
    requires data@.len() + 32 <= usize::MAX,
    ensures r matches Some(p) ==> p@ == data@,
{
    match key.encrypt_data(data) {
        Ok(c) => {
            proof {
                axiom_aead_correct(key.0, c@.subrange(0, 16), data@);
                assert(c@.subrange(16, c@.len() as int) =~= c@.subrange(16, 16 + data@.len() as int) + c@.subrange(16 + data@.len() as int, c@.len() as int));
            }
            match key.decrypt_data(c.as_slice()) { Ok(p) => Some(p), Err(_) => None }
        }
        Err(_) => None,
    }
}

// ---- a new repository gets a fresh random master key ----
// "drawn from the entropy source": a fact only rand's fill_bytes on a key buffer produces
pub uninterp spec fn RANDOM_KEY(k: AeadKey) -> bool;
pub fn vaeadkey_default() -> (r: AeadKey) ensures r == (AeadKey { _opaque: 0 }), { AeadKey { _opaque: 0 } }
#[verifier::external_body]
pub fn vrng_fill_key(k: &mut AeadKey) ensures RANDOM_KEY(*final(k)), { unimplemented!() }
impl Key {
    // #[derive(Default)]: the all-zero key (NOT a random key)
    pub fn default() -> (r: Key) ensures r.0 == (AeadKey { _opaque: 0 }), { Key(AeadKey { _opaque: 0 }) }
}
pub struct KeyOptionsK { pub _opaque: u64 }
pub struct VRepoK { pub _opaque: u64 }
pub struct KeyIdK { pub _opaque: u64 }
// add_key_to_repo: wraps the key under the password (KeyFile::generate, unit kf_generate) and stores the key file
#[verifier::external_body]
pub fn vadd_key_to_repo(repo: &VRepoK, opts: &KeyOptionsK, pass: &str, key: Key) -> RusticResult<KeyIdK> { unimplemented!() }

// ---- adding a key: add_key_to_repo / add_current_key_to_repo ----
// what unit kf_generate PROVES about the key file it returns: the password opens it and yields this key
pub open spec fn opens_with(kf: KeyFileK, pw: Seq<u8>, key: AeadKey) -> bool {
    kf.data@.len() >= 16 && ({
        let w = wrapping_key(kf, pw);
        AEAD_OK(w, kf.data@.subrange(0, 16), kf.data@.subrange(16, kf.data@.len() as int))
        && MK_PARSE(PT(w, kf.data@.subrange(0, 16), kf.data@.subrange(16, kf.data@.len() as int))) == key
    })
}
// KeyFile::generate seen through its contract (proved as unit kf_generate)
#[verifier::external_body]
pub fn vkeyfile_generate(key: Key, passwd: &PasswdB) -> (r: RusticResult<KeyFileK>)
    ensures r matches Ok(kf) ==> opens_with(kf, passwd.bytes@, key.0),
{ unimplemented!() }
// serde_json::to_vec(&keyfile): the stored form of a key file (uninterpreted; its parse is the inverse: ASSUMED)
pub uninterp spec fn KF_SER(kf: KeyFileK) -> Seq<u8>;
#[verifier::external_body]
pub fn vkeyfile_to_json(kf: &KeyFileK) -> (r: Result<Vec<u8>, SerdeErr>) ensures r matches Ok(v) ==> v@ == KF_SER(*kf), { unimplemented!() }
pub uninterp spec fn SHA256K(d: Seq<u8>) -> Id;
// KeyId::from(hash(&data))
#[verifier::external_body]
pub fn vkeyid_of_hash(data: &Vec<u8>) -> (r: KeyId) ensures r == KeyId(SHA256K(data@)), { unimplemented!() }
// "a key file with these bytes is stored under this id" -- only the backend write produces it
pub uninterp spec fn KEY_STORED(id: KeyId, bytes: Seq<u8>) -> bool;
pub struct VBeK { pub _opaque: u64 }
impl VBeK {
    // repo.be.write_bytes(FileType::Key, &id, false, data.into()): key files are stored as they are (not encrypted again).
    // PRECONDITION: the file is named by the hash of its bytes (so a substituted key file is detectable)
    #[verifier::external_body]
    pub fn write_bytes(&self, tpe: FileType, id: &KeyId, cacheable: bool, data: Vec<u8>) -> (r: RusticResult<()>)
        requires tpe is Key ==> *id == KeyId(SHA256K(data@)),
        ensures r is Ok && tpe is Key ==> KEY_STORED(*id, data@),
    { unimplemented!() }
}
pub struct VDbeK2 { pub k: Key }
impl VDbeK2 {
    pub fn key(&self) -> (r: &Key) ensures *r == self.k, { &self.k }
}
// the repository as the key commands see it: the raw backend (key files) and the decrypting backend holding the master key
pub struct VRepoK2 { pub be: VBeK, pub dbe: VDbeK2 }
impl VRepoK2 {
    pub fn dbe(&self) -> (r: &VDbeK2) ensures *r == self.dbe, { &self.dbe }
}
// the postcondition of add_key_to_repo (unit add_key_to_repo), as add_current_key_to_repo sees it
pub open spec fn key_added(pw: Seq<u8>, key: AeadKey, id: KeyId) -> bool {
    exists|kf: KeyFileK| opens_with(kf, pw, key) && #[trigger] KEY_STORED(id, KF_SER(kf)) && id == KeyId(SHA256K(KF_SER(kf)))
}
#[verifier::external_body]
pub fn vadd_key_to_repo2(repo: &VRepoK2, opts: &KeyOptionsK, pass: &PasswdB, key: Key) -> (r: RusticResult<KeyId>)
    ensures r matches Ok(id) ==> key_added(pass.bytes@, key.0, id),
{ unimplemented!() }
