// ===== C04: which key a password opens (find_key_in_backend / key_from_backend) =====
#[derive(Clone, Copy, PartialEq, Eq, Structural)]
pub struct Id(pub u64);
#[derive(Clone, Copy, PartialEq, Eq, Structural)]
pub struct KeyId(pub Id);
#[derive(Clone, Copy, PartialEq, Eq, Structural)]
pub enum FileType { Config, Index, Key, Snapshot, Pack }
impl Id {
    pub fn default() -> (r: Id) ensures r == Id(0), { Id(0) }
}
impl KeyId {
    pub fn default() -> (r: KeyId) ensures r == KeyId(Id(0)), { KeyId(Id(0)) }
}
pub fn vkeyid(id: Id) -> (r: KeyId) ensures r == KeyId(id), { KeyId(id) }
pub struct PasswdR { pub _opaque: u64 }
pub struct MasterKey { pub k: u64 }
pub struct KeyFile { pub _opaque: u64 }
pub struct VKeyBackend { pub _opaque: u64 }
// scrypt + AEAD of the key file: uninterpreted.  UNLOCKS = "the password's derived key authenticates this key file"
pub uninterp spec fn KEYFILE(be: VKeyBackend, id: KeyId) -> KeyFile;
pub uninterp spec fn UNLOCKS(kf: KeyFile, pw: PasswdR) -> bool;
pub uninterp spec fn MASTER(kf: KeyFile, pw: PasswdR) -> MasterKey;
impl VKeyBackend {
    pub uninterp spec fn key_ids(&self) -> Seq<Id>;
    #[verifier::external_body]
    pub fn list(&self, tpe: FileType) -> (r: RusticResult<Vec<Id>>)
        ensures r matches Ok(v) ==> (tpe is Key ==> v@ == self.key_ids()),
    { unimplemented!() }
}
impl KeyFile {
    #[verifier::external_body]
    pub fn from_backend(be: &VKeyBackend, id: &KeyId) -> (r: RusticResult<KeyFile>)
        ensures r matches Ok(kf) ==> kf == KEYFILE(*be, *id),
    { unimplemented!() }
    // Ok only if the MAC of the wrapped master key verifies under the key derived from the password
    #[verifier::external_body]
    pub fn key_from_password(&self, passwd: &PasswdR) -> (r: RusticResult<MasterKey>)
        ensures r matches Ok(k) ==> UNLOCKS(*self, *passwd) && k == MASTER(*self, *passwd),
    { unimplemented!() }
}
impl RusticError {
    // error code test ("C001" = wrong password for this key file): any answer
    #[verifier::external_body]
    pub fn is_code(&self, code: &str) -> bool { unimplemented!() }
}

// ---- KeyFile::{kdf_key, key_from_data, key_from_password}: from a password to the master key ----
pub struct PasswdB { pub bytes: Ghost<Seq<u8>> }
impl PasswdB {
    #[verifier::external_body]
    pub fn as_ref(&self) -> (r: &[u8]) ensures r@ == self.bytes@, { unimplemented!() }
}
pub struct ParamsR { pub log_n: u8, pub r: u32, pub p: u32 }
pub struct Log2Err { pub _opaque: u64 }
pub struct ParamsErr { pub _opaque: u64 }
pub uninterp spec fn LOG2(n: u32) -> u8;
#[verifier::external_body]
pub fn log_2(n: u32) -> (r: Result<u8, Log2Err>) ensures r matches Ok(l) ==> l == LOG2(n), { unimplemented!() }
impl ParamsR {
    #[verifier::external_body]
    pub fn new(log_n: u8, r: u32, p: u32) -> (res: Result<ParamsR, ParamsErr>)
        ensures res matches Ok(ps) ==> ps.log_n == log_n && ps.r == r && ps.p == p,
    { unimplemented!() }
}
// scrypt and the AEAD key layout: uninterpreted
pub uninterp spec fn SCRYPT(pw: Seq<u8>, salt: Seq<u8>, log_n: u8, r: u32, p: u32) -> Seq<u8>;
pub uninterp spec fn KEY_OF(bytes: Seq<u8>) -> AeadKey;
pub struct ScryptErr { pub _opaque: u64 }
#[verifier::external_body]
pub fn vscrypt(pw: &[u8], salt: &[u8], params: &ParamsR, out: &mut [u8; 64]) -> (r: Result<(), ScryptErr>)
    ensures r is Ok ==> final(out)@ == SCRYPT(pw@, salt@, params.log_n, params.r, params.p),
{ unimplemented!() }
#[verifier::external_body]
pub fn vkey_from_array(k: &[u8; 64]) -> (r: Key) ensures r.0 == KEY_OF(k@), { unimplemented!() }
// serde_json::from_slice::<MasterKey>(..)?.key(): uninterpreted parse
pub uninterp spec fn MK_PARSE(json: Seq<u8>) -> AeadKey;
#[verifier::external_body]
pub fn vmasterkey_from_json(d: &Vec<u8>) -> (r: RusticResult<Key>) ensures r matches Ok(k) ==> k.0 == MK_PARSE(d@), { unimplemented!() }
pub struct KeyFileK { pub n: u32, pub r: u32, pub p: u32, pub salt: Vec<u8>, pub data: Vec<u8> }
// the wrapping key a password yields for a key file
pub open spec fn wrapping_key(kf: KeyFileK, pw: Seq<u8>) -> AeadKey { KEY_OF(SCRYPT(pw, kf.salt@, LOG2(kf.n), kf.r, kf.p)) }
