// ===== C04: which key a password opens (find_key_in_backend / key_from_backend) =====
#[derive(Clone, Copy, PartialEq, Eq, Structural)]
pub struct Id(pub u64);
#[derive(Clone, Copy, PartialEq, Eq, Structural)]
pub struct KeyId(pub Id);
#[derive(Clone, Copy, PartialEq, Eq, Structural)]
pub enum FileType { Config, Index, Key, Snapshot, Pack }
impl Id {
    pub fn default() -> (r: Id) ensures r == Id(0), { Id(0) }
}
impl KeyId {
    pub fn default() -> (r: KeyId) ensures r == KeyId(Id(0)), { KeyId(Id(0)) }
}
pub fn vkeyid(id: Id) -> (r: KeyId) ensures r == KeyId(id), { KeyId(id) }
pub struct PasswdR { pub _opaque: u64 }
pub struct MasterKey { pub k: u64 }
pub struct KeyFile { pub _opaque: u64 }
pub struct VKeyBackend { pub _opaque: u64 }
// scrypt + AEAD of the key file: uninterpreted.  UNLOCKS = "the password's derived key authenticates this key file"
pub uninterp spec fn KEYFILE(be: VKeyBackend, id: KeyId) -> KeyFile;
pub uninterp spec fn UNLOCKS(kf: KeyFile, pw: PasswdR) -> bool;
pub uninterp spec fn MASTER(kf: KeyFile, pw: PasswdR) -> MasterKey;
impl VKeyBackend {
    pub uninterp spec fn key_ids(&self) -> Seq<Id>;
    #[verifier::external_body]
    pub fn list(&self, tpe: FileType) -> (r: RusticResult<Vec<Id>>)
        ensures r matches Ok(v) ==> (tpe is Key ==> v@ == self.key_ids()),
    { unimplemented!() }
}
impl KeyFile {
    #[verifier::external_body]
    pub fn from_backend(be: &VKeyBackend, id: &KeyId) -> (r: RusticResult<KeyFile>)
        ensures r matches Ok(kf) ==> kf == KEYFILE(*be, *id),
    { unimplemented!() }
    // Ok only if the MAC of the wrapped master key verifies under the key derived from the password
    #[verifier::external_body]
    pub fn key_from_password(&self, passwd: &PasswdR) -> (r: RusticResult<MasterKey>)
        ensures r matches Ok(k) ==> UNLOCKS(*self, *passwd) && k == MASTER(*self, *passwd),
    { unimplemented!() }
}
impl RusticError {
    // error code test ("C001" = wrong password for this key file): any answer
    #[verifier::external_body]
    pub fn is_code(&self, code: &str) -> bool { unimplemented!() }
}
