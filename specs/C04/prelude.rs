// ===== C04 prelude: AES256-CTR + Poly1305-AES as uninterpreted functions =====
#[derive(Clone, Copy)]
pub struct AeadKey { pub _opaque: u64 }
pub struct Nonce { pub bytes: Vec<u8> }   // 16 bytes
pub struct Tag { pub bytes: Vec<u8> }     // 16 bytes
pub uninterp spec fn CT(k: AeadKey, n: Seq<u8>, plain: Seq<u8>) -> Seq<u8>;     // ciphertext, same length as plaintext
pub uninterp spec fn TAG(k: AeadKey, n: Seq<u8>, plain: Seq<u8>) -> Seq<u8>;    // 16-byte MAC
pub uninterp spec fn AEAD_OK(k: AeadKey, n: Seq<u8>, ct_and_tag: Seq<u8>) -> bool;  // MAC verifies
pub uninterp spec fn PT(k: AeadKey, n: Seq<u8>, ct_and_tag: Seq<u8>) -> Seq<u8>;
// "this value is the output of an RNG call": only vrng_fill_nonce establishes it
pub uninterp spec fn fresh(n: Seq<u8>) -> bool;

impl Nonce {
    #[verifier::external_body]
    pub fn default() -> (r: Nonce) ensures r.bytes@.len() == 16, { unimplemented!() }
    #[verifier::external_body]
    pub fn from_slice(s: &[u8]) -> (r: Nonce) requires s@.len() == 16, ensures r.bytes@ == s@, { unimplemented!() }
}
// rng().fill_bytes(&mut nonce)
#[verifier::external_body]
pub fn vrng_fill_nonce(n: &mut Nonce)
    ensures final(n).bytes@.len() == 16, fresh(final(n).bytes@),
{ unimplemented!() }

// Aes256CtrPoly1305Aes::new(key).encrypt_in_place_detached(&nonce, &[], &mut buf[from..]): a FRESH nonce is a
// PRECONDITION (nonce reuse under one key breaks CTR confidentiality and the one-time MAC)
#[verifier::external_body]
pub fn vaead_encrypt_in_place_detached(k: &AeadKey, nonce: &Nonce, buf: &mut Vec<u8>, from: usize) -> (r: RusticResult<Tag>)
    requires fresh(nonce.bytes@), nonce.bytes@.len() == 16, from <= old(buf)@.len(),
    ensures
        final(buf)@.len() == old(buf)@.len(),
        r matches Ok(t) ==> final(buf)@.subrange(0, from as int) == old(buf)@.subrange(0, from as int)
            && final(buf)@.subrange(from as int, old(buf)@.len() as int) == CT(*k, nonce.bytes@, old(buf)@.subrange(from as int, old(buf)@.len() as int))
            && CT(*k, nonce.bytes@, old(buf)@.subrange(from as int, old(buf)@.len() as int)).len() == old(buf)@.len() - from
            && t.bytes@ == TAG(*k, nonce.bytes@, old(buf)@.subrange(from as int, old(buf)@.len() as int)) && t.bytes@.len() == 16,
{ unimplemented!() }
#[verifier::external_body]
pub fn vaead_decrypt(k: &AeadKey, nonce: &Nonce, ct_and_tag: &[u8]) -> (r: RusticResult<Vec<u8>>)
    ensures r matches Ok(p) ==> AEAD_OK(*k, nonce.bytes@, ct_and_tag@) && p@ == PT(*k, nonce.bytes@, ct_and_tag@),
{ unimplemented!() }
#[verifier::external_body]
pub fn vslice<'a>(d: &'a [u8], a: usize, b: usize) -> (r: &'a [u8])
    requires a <= b <= d@.len(),
    ensures r@ == d@.subrange(a as int, b as int),
{ unimplemented!() }
// <[u8]>::split_at(mid): panics unless mid <= len (std contract) -- the panic is the stub's precondition
#[verifier::external_body]
pub fn vsplit_at<'a>(d: &'a [u8], mid: usize) -> (r: (&'a [u8], &'a [u8]))
    requires mid <= d@.len(),
    ensures r.0@ == d@.subrange(0, mid as int), r.1@ == d@.subrange(mid as int, d@.len() as int),
{ unimplemented!() }
// <[u8]>::is_empty
#[verifier::external_body]
pub fn vis_empty(d: &[u8]) -> (r: bool) ensures r == (d@.len() == 0), { unimplemented!() }
#[verifier::external_body]
pub fn vextend(v: &mut Vec<u8>, s: &Vec<u8>)
    ensures final(v)@ == old(v)@ + s@,
{ unimplemented!() }
#[verifier::external_body]
pub fn vextend_slice(v: &mut Vec<u8>, s: &[u8])
    ensures final(v)@ == old(v)@ + s@,
{ unimplemented!() }
