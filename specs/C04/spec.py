"""C04 — stored data is authenticated ciphertext; tampering is always detected."""
from tools.extract import Unit, Rw
from tools.krun import Harness

PROPERTY = "C04"
PRELUDE = ["../common/base.rs", "prelude.rs", "keys.rs"]
A = "crates/core/src/crypto/aespoly1305.rs"
R_ERR = Rw("", "verr()", count=None, kind="err", why="RusticError construction (kind/message/context dropped)")

UNITS = [
    Unit(name="Key", file=A, kind="const", anchor="pub struct Key(AeadKey);", attrs="#[derive(Clone, Copy)]"),
    Unit(name="key_encrypt_data", file=A, anchor="fn encrypt_data(&self, data: &[u8]) -> RusticResult<Vec<u8>>", within="impl CryptoKey for Key {", ret_name="r",
         wrap_open="impl Key {", wrap_close="}",
         functions=["<crypto::aespoly1305::Key as CryptoKey>::encrypt_data"],
         rewrites=[
             Rw("rng().fill_bytes(&mut nonce);", "vrng_fill_nonce(&mut nonce);", why="rand::rng().fill_bytes: the only source of `fresh` values"),
             Rw("res.extend_from_slice(&nonce);", "vextend(&mut res, &nonce.bytes);", why="Vec::extend_from_slice(&GenericArray)"),
             Rw("res.extend_from_slice(data);", "vextend_slice(&mut res, data);", why="Vec::extend_from_slice"),
             Rw("res.extend_from_slice(&tag);", "vextend(&mut res, &tag.bytes);", why="Vec::extend_from_slice(&GenericArray)"),
             Rw(r"Aes256CtrPoly1305Aes::new\(&self\.0\)\s*\.encrypt_in_place_detached\(&nonce, &\[\], &mut res\[16\.\.\]\)\s*\.map_err\(.*?\)\?;", "vaead_encrypt_in_place_detached(&self.0, &nonce, &mut res, 16)?;", regex=True,
                why="AEAD encrypt (aes256ctr_poly1305aes crate): uninterpreted CT/TAG, fresh nonce as PRECONDITION"),
         ],
         contract="""
    requires
        data@.len() + 32 <= usize::MAX,
    ensures
        /*@ciphertext_framing*/ r matches Ok(v) ==> v@.len() == data@.len() + 32
            && fresh(v@.subrange(0, 16))
            && v@.subrange(16, 16 + data@.len() as int) == CT(self.0, v@.subrange(0, 16), data@)
            && v@.subrange(16 + data@.len() as int, v@.len() as int) == TAG(self.0, v@.subrange(0, 16), data@),
""",
         hints=[("before", "Ok(res)", """        proof {
            let n = nonce.bytes@;
            assert(res@ =~= res2 + tag.bytes@);
            assert(res@.subrange(0, 16) =~= res2.subrange(0, 16));
            assert(res@.subrange(0, 16) =~= n);
            assert(res@.subrange(16, 16 + data@.len() as int) =~= res2.subrange(16, res2.len() as int));
            assert(res@.subrange(16, 16 + data@.len() as int) =~= CT(self.0, n, data@));
            assert(res@.subrange(16 + data@.len() as int, res@.len() as int) =~= TAG(self.0, n, data@));
        }"""),
                ("after", "vextend(&mut res, &nonce.bytes);", "        proof { assert(res@ =~= nonce.bytes@); }"),
                ("after", "vextend_slice(&mut res, data);", "        proof { assert(res@ =~= nonce.bytes@ + data@); assert(res@.subrange(0, 16) =~= nonce.bytes@); assert(res@.subrange(16, res@.len() as int) =~= data@); }"),
                ("after", "vaead_encrypt_in_place_detached(", "        proof { assert(res@.subrange(0, 16) =~= nonce.bytes@); assert(res@.len() == 16 + data@.len()); }\n        let ghost res2 = res@;"),
         ],
         ),
    Unit(name="key_decrypt_data", file=A, anchor="fn decrypt_data(&self, data: &[u8]) -> RusticResult<Vec<u8>>", within="impl CryptoKey for Key {", ret_name="r",
         wrap_open="impl Key {", wrap_close="}",
         functions=["<crypto::aespoly1305::Key as CryptoKey>::decrypt_data"],
         rewrites=[
             R_ERR,
             Rw(r"&(?P<v>\w+)\[(?P<a>\w+)\.\.(?P<b>\w+)\]", r"vslice(\g<v>, \g<a>, \g<b>)", regex=True, count=None, why="slice range indexing -> stub with the bounds as precondition (out of range = panic)"),
             Rw(r"&(?P<v>\w+)\[(?P<a>\w+)\.\.\]", r"vslice(\g<v>, \g<a>, \g<v>.len())", regex=True, count=None, why="slice range indexing -> stub with the bounds as precondition"),
             Rw(r"(?P<v>\w+)\.split_at\((?P<m>\w+)\)", r"vsplit_at(\g<v>, \g<m>)", regex=True, count=None, why="slice::split_at -> stub with its panic condition as precondition"),
             Rw(r"(?P<v>\w+)\.is_empty\(\)", r"vis_empty(\g<v>)", regex=True, count=None, why="slice::is_empty"),
             Rw(r"Aes256CtrPoly1305Aes::new\(&self\.0\)\s*\.decrypt\((?P<n>[^,()]+), (?P<c>[^;]*?)\)\s*\.map_err\(.*\)", r"vaead_decrypt(&self.0, &\g<n>, \g<c>)", regex=True,
                why="AEAD decrypt: Ok only if the MAC verifies (uninterpreted AEAD_OK / PT)"),
         ],
         contract="""
    ensures
        /*@short_input_rejected*/ data@.len() < 16 ==> r is Err,
        /*@plaintext_only_if_mac_verifies*/ r matches Ok(p) ==> data@.len() >= 16
            && AEAD_OK(self.0, data@.subrange(0, 16), data@.subrange(16, data@.len() as int))
            && p@ == PT(self.0, data@.subrange(0, 16), data@.subrange(16, data@.len() as int)),
"""),
]
KF = "crates/core/src/repofile/keyfile.rs"
UNITS += [
    Unit(name="key_from_backend", file=KF, anchor="pub(crate) fn key_from_backend<B: ReadBackend>(", ret_name="r",
         functions=["repofile::keyfile::key_from_backend"],
         rewrites=[Rw("fn key_from_backend<B: ReadBackend>(", "fn key_from_backend(", sig=True, why="backend generic -> key-file store stub"),
                   Rw("be: &B,", "be: &VKeyBackend,", sig=True, why="backend generic -> key-file store stub"),
                   Rw("passwd: &impl AsRef<[u8]>,", "passwd: &PasswdR,", sig=True, why="password bytes -> opaque value"),
                   Rw("RusticResult<Key>", "RusticResult<MasterKey>", sig=True, why="Key -> opaque master key value")],
         contract="""
    ensures /*@key_only_if_password_unlocks_this_key_file*/ r matches Ok(k) ==> UNLOCKS(KEYFILE(*be, *id), *passwd) && k == MASTER(KEYFILE(*be, *id), *passwd),
"""),
    Unit(name="find_key_in_backend", file=KF, anchor="pub(crate) fn find_key_in_backend<B: ReadBackend>(", ret_name="r",
         functions=["repofile::keyfile::find_key_in_backend"],
         rewrites=[R_ERR,
                   Rw("fn find_key_in_backend<B: ReadBackend>(", "fn find_key_in_backend(", sig=True, why="backend generic -> key-file store stub"),
                   Rw("be: &B,", "be: &VKeyBackend,", sig=True, why="backend generic -> key-file store stub"),
                   Rw("passwd: &impl AsRef<[u8]>,", "passwd: &PasswdR,", sig=True, why="password bytes -> opaque value"),
                   Rw("RusticResult<(Key, KeyId)>", "RusticResult<(MasterKey, KeyId)>", sig=True, why="Key -> opaque master key value"),
                   Rw("for id in be.list(FileType::Key)? {", "let ids = be.list(FileType::Key)?; for id in it: ids.iter() {", why="Verus for-loop syntax; iteration by reference"),
                   Rw("&id.into()", "&vkeyid(*id)", why="Id -> KeyId"),
                   Rw("KeyId(id))", "KeyId(*id))", why="by-reference iteration"),
         ],
         contract="""
    ensures
        // a repository opens only with a password that unlocks one of its key files (the hinted one if a hint is given),
        // and what comes back is that key file's master key
        /*@opens_only_with_a_password_of_a_stored_key*/ r matches Ok(x) ==> UNLOCKS(KEYFILE(*be, x.1), *passwd) && x.0 == MASTER(KEYFILE(*be, x.1), *passwd),
        /*@opened_key_is_the_hinted_or_a_listed_one*/ r matches Ok(x) ==> (match hint { Some(h) => x.1 == *h, None => exists|i: int| 0 <= i < be.key_ids().len() && x.1.0 == #[trigger] be.key_ids()[i] }),
""",
         loops={1: "\n            invariant ids@ == be.key_ids(), hint is None,\n"},
         hints=[("loop_start", "1", "            proof { assert(0 <= it.index@ < ids@.len()); assert(ids@[it.index@] == *id); assert(be.key_ids()[it.index@] == *id); }\n            let ghost k = it.index@;")],
         ),
]

R_MAPERR = Rw("", "", count=None, kind="maperr", why=".map_err(<error building closure>) -> .vmap_err()")
WK = dict(wrap_open="impl KeyFileK {", wrap_close="}")
UNITS += [
    Unit(name="kf_kdf_key", file=KF, anchor="pub fn kdf_key(&self, passwd: &impl AsRef<[u8]>) -> RusticResult<Key>", within="impl KeyFile {", ret_name="r", **WK,
         functions=["repofile::keyfile::KeyFile::kdf_key"],
         rewrites=[R_MAPERR,
                   Rw("passwd: &impl AsRef<[u8]>", "passwd: &PasswdB", sig=True, why="password bytes -> ghost byte sequence"),
                   Rw("Params::new(", "ParamsR::new(", why="scrypt::Params -> stub"),
                   Rw("let mut key = [0; 64];", "let mut key = [0u8; 64];", why="literal type made explicit"),
                   Rw("scrypt::scrypt(", "vscrypt(", why="scrypt -> uninterpreted SCRYPT(password, salt, params)"),
                   Rw("Key::from_slice(&key)", "vkey_from_array(&key)", why="Key::from_slice -> uninterpreted KEY_OF"),
         ],
         contract="""
    ensures
        // the wrapping key is derived from EXACTLY the password bytes given, the key file's salt and its scrypt parameters
        /*@wrapping_key_from_exactly_the_password_bytes*/ r matches Ok(k) ==> k.0 == wrapping_key(*self, passwd.bytes@),
"""),
    Unit(name="kf_key_from_data", file=KF, anchor="pub fn key_from_data(&self, key: &Key) -> RusticResult<Key>", within="impl KeyFile {", ret_name="r", **WK,
         functions=["repofile::keyfile::KeyFile::key_from_data"],
         rewrites=[Rw(r"serde_json::from_slice::<MasterKey>\(&dec_data\)\s*\.map_err\(.*?\)\?\s*\.key\(\);", "vmasterkey_from_json(&dec_data)?;", regex=True, why="serde_json parse of the master key + error mapping -> uninterpreted MK_PARSE")],
         contract="""
    ensures
        // a master key comes out only if the wrapping key authenticates the key file's data (MAC over the wrapped key)
        /*@master_key_only_if_mac_verifies*/ r matches Ok(k) ==> self.data@.len() >= 16
            && AEAD_OK(key.0, self.data@.subrange(0, 16), self.data@.subrange(16, self.data@.len() as int))
            && k.0 == MK_PARSE(PT(key.0, self.data@.subrange(0, 16), self.data@.subrange(16, self.data@.len() as int))),
"""),
    Unit(name="kf_key_from_password", file=KF, anchor="pub fn key_from_password(&self, passwd: &impl AsRef<[u8]>) -> RusticResult<Key>", within="impl KeyFile {", ret_name="r", **WK,
         functions=["repofile::keyfile::KeyFile::key_from_password"],
         rewrites=[Rw("passwd: &impl AsRef<[u8]>", "passwd: &PasswdB", sig=True, why="password bytes -> ghost byte sequence")],
         contract="""
    ensures
        // only a password whose derived key authenticates the key file opens it, and what comes back is the key wrapped in it
        /*@password_opens_only_if_its_key_authenticates*/ r matches Ok(k) ==> self.data@.len() >= 16 && ({
            let w = wrapping_key(*self, passwd.bytes@);
            AEAD_OK(w, self.data@.subrange(0, 16), self.data@.subrange(16, self.data@.len() as int))
            && k.0 == MK_PARSE(PT(w, self.data@.subrange(0, 16), self.data@.subrange(16, self.data@.len() as int)))
        }),
"""),
]

UNITS += [
    Unit(name="kf_generate", file=KF, anchor="pub fn generate(", within="impl KeyFile {", ret_name="r", **WK,
         functions=["repofile::keyfile::KeyFile::generate"],
         rewrites=[R_MAPERR,
                   Rw("passwd: &impl AsRef<[u8]>", "passwd: &PasswdB", sig=True, why="password bytes -> ghost byte sequence"),
                   Rw("MasterKey::from_key(key)", "vmasterkey_from_key(key)", why="MasterKey -> stub carrying the key"),
                   Rw("Params::RECOMMENDED", "ParamsR::recommended()", why="scrypt::Params -> stub"),
                   Rw("let mut salt = vec![0; 64];", "let mut salt = vzeroed64();", why="vec![0; 64] -> stub"),
                   Rw("rng().fill_bytes(&mut salt);", "vrng_fill_salt(&mut salt);", why="random salt: any bytes"),
                   Rw("let mut key = [0; 64];", "let mut key = [0u8; 64];", why="literal type made explicit"),
                   Rw("scrypt::scrypt(", "vscrypt(", why="scrypt -> uninterpreted SCRYPT(password, salt, params)"),
                   Rw("Key::from_slice(&key)", "vkey_from_array(&key)", why="Key::from_slice -> uninterpreted KEY_OF"),
                   Rw("serde_json::to_vec(&masterkey)", "vmasterkey_to_json(&masterkey)", why="serde_json serialisation of the master key -> stub (inverse of the parse: ASSUMED)"),
                   Rw('            hostname,\n            username,\n            kdf: "scrypt".to_string(),\n', "\n\n\n", why="fields without influence on the wrapped key dropped (the stub struct has the five fields the key derivation reads)"),
                   Rw("            created: with_created.then(Zoned::now),\n", "\n", why="creation time dropped (see above)"),
                   Rw("2_u32.pow(u32::from(params.log_n()))", "vpow2(params.log_n())", why="2^log_n -> stub whose inverse is log_2 (ASSUMED)"),
         ],
         contract="""
    ensures
        // ROUND TRIP with key_from_password (unit kf_key_from_password): the key file just generated is opened by the same
        // password and yields the same master key
        /*@generated_key_file_opens_with_its_password*/ r matches Ok(kf) ==> kf.data@.len() >= 16 && ({
            let w = wrapping_key(kf, passwd.bytes@);
            AEAD_OK(w, kf.data@.subrange(0, 16), kf.data@.subrange(16, kf.data@.len() as int))
            && MK_PARSE(PT(w, kf.data@.subrange(0, 16), kf.data@.subrange(16, kf.data@.len() as int))) == key.0
        }),
""",
         hints=[("after", "let data = key.encrypt_data(&json_byte_vec)?;", """        proof {
            let n = data@.subrange(0, 16); let d = json_byte_vec@;
            axiom_aead_correct(key.0, n, d);
            assert(data@.subrange(16, data@.len() as int) =~= data@.subrange(16, 16 + d.len() as int) + data@.subrange(16 + d.len() as int, data@.len() as int));
        }""")],
         ),
]

KC = "crates/core/src/commands/key.rs"
UNITS += [
    Unit(name="key_new", file=A, anchor="pub fn new() -> Self", within="impl Key {", ret_name="r",
         wrap_open="impl Key {", wrap_close="}",
         functions=["crypto::aespoly1305::Key::new"],
         rewrites=[Rw("AeadKey::default()", "vaeadkey_default()", why="GenericArray::default (zero bytes)"),
                   Rw("rng().fill_bytes(&mut key);", "vrng_fill_key(&mut key);", why="rand::rng().fill_bytes on the key buffer: the entropy source")],
         contract="\n    ensures /*@new_key_is_random*/ RANDOM_KEY(r.0),\n"),
    Unit(name="init_key", file=KC, anchor="pub(crate) fn init_key<S>(", ret_name="r",
         functions=["commands::key::init_key"],
         rewrites=[Rw("fn init_key<S>(", "fn init_key(", sig=True, why="repository state generic dropped"),
                   Rw("repo: &Repository<S>,", "repo: &VRepoK,", sig=True, why="repository -> stub"),
                   Rw("opts: &KeyOptions,", "opts: &KeyOptionsK,", sig=True, why="key options -> opaque"),
                   Rw("RusticResult<(Key, KeyId)>", "RusticResult<(Key, KeyIdK)>", sig=True, why="key id -> opaque"),
                   Rw("add_key_to_repo(repo, opts, pass, key)?", "vadd_key_to_repo(repo, opts, pass, key)?", why="add_key_to_repo (KeyFile::generate is the unit kf_generate; serde + backend write) -> stub")],
         contract="""
    ensures
        // the master key of a newly initialised repository comes from the entropy source (not a constant, not a caller's value)
        /*@new_repository_gets_a_random_master_key*/ r matches Ok(x) ==> RANDOM_KEY(x.0.0),
"""),
]

UNITS += [
    # adding a key: the stored key file wraps THE key it was given, under the given password, and is named by its hash
    Unit(name="add_key_to_repo", file=KC, anchor="pub(crate) fn add_key_to_repo<S>(", ret_name="r",
         functions=["commands::key::add_key_to_repo"],
         rewrites=[R_MAPERR,
                   Rw("fn add_key_to_repo<S>(", "fn add_key_to_repo(", sig=True, why="repository state generic dropped"),
                   Rw("repo: &Repository<S>,", "repo: &VRepoK2,", sig=True, why="repository -> stub (raw backend + decrypting backend)"),
                   Rw("opts: &KeyOptions,", "opts: &KeyOptionsK,", sig=True, why="key options -> opaque (hostname/username/created: no influence on the wrapped key)"),
                   Rw("pass: &str,", "pass: &PasswdB,", sig=True, why="password -> ghost byte sequence"),
                   Rw("let ko = opts.clone();", "", why="DROPPED: clone of the option struct (its fields only label the key file)"),
                   Rw(r"KeyFile::generate\(key, &pass, [^)]*\)", "vkeyfile_generate(key, pass)", regex=True, why="KeyFile::generate -> stub carrying the postcondition PROVED for unit kf_generate"),
                   Rw("serde_json::to_vec(&keyfile)", "vkeyfile_to_json(&keyfile)", why="serde_json serialisation of the key file -> uninterpreted KF_SER"),
                   Rw("KeyId::from(hash(&data))", "vkeyid_of_hash(&data)", why="SHA-256 of the serialised key file -> uninterpreted"),
                   Rw("data.into()", "data", why="Vec<u8> -> Bytes"),
         ],
         contract="""
    ensures
        // "any of the added passwords opens the repository": the stored key file is opened by this password and yields this key
        /*@added_key_file_wraps_the_given_key_under_the_given_password*/ r matches Ok(id) ==> key_added(pass.bytes@, key.0, id),
""",
         hints=[("before", "Ok(id)", "    proof { assert(opens_with(keyfile, pass.bytes@, key.0) && KEY_STORED(id, KF_SER(keyfile)) && id == KeyId(SHA256K(KF_SER(keyfile)))); }")],
         ),
    # adding a password to an open repository wraps the repository's CURRENT master key (not a new or default one)
    Unit(name="add_current_key_to_repo", file=KC, anchor="pub(crate) fn add_current_key_to_repo<S: Open>(", ret_name="r",
         functions=["commands::key::add_current_key_to_repo"],
         rewrites=[Rw("fn add_current_key_to_repo<S: Open>(", "fn add_current_key_to_repo(", sig=True, why="repository state generic dropped"),
                   Rw("repo: &Repository<S>,", "repo: &VRepoK2,", sig=True, why="repository -> stub"),
                   Rw("opts: &KeyOptions,", "opts: &KeyOptionsK,", sig=True, why="key options -> opaque"),
                   Rw("pass: &str,", "pass: &PasswdB,", sig=True, why="password -> ghost byte sequence"),
                   Rw("add_key_to_repo(repo, opts, pass,", "vadd_key_to_repo2(repo, opts, pass,", why="add_key_to_repo -> stub carrying the postcondition proved for unit add_key_to_repo")],
         contract="""
    ensures
        /*@added_password_opens_the_current_master_key*/ r matches Ok(id) ==> key_added(pass.bytes@, repo.dbe.k.0, id),
"""),
]

M = "backend::decrypt::verif_kani::"
# reading a pack's header back (repair index) must reject a pack whose size does not fit its header: the unit lives in C08's
# spec and is verified as part of this check as well (a stored file that was lengthened or shortened is detected)
SATELLITES = [("C08", ["BlobLocation", "IndexBlob", "PackerStats", "BasicPacker", "RawPacker", "packfile_constants", "PackHeader", "HeaderEntry", "header_entry_consts", "header_entry_consts2", "he_from_blob", "he_length", "he_into_location", "he_into_blob", "from_file", "actor_pack_id"])]

KANI = [
    Harness(M + "c04_hash_write_full_stores_ciphertext_under_its_hash", functions=["<backend::decrypt::DecryptBackend as DecryptWriteBackend>::hash_write_full", "backend::decrypt::DecryptBackend::{encrypt_file, very_file, decrypt_file}"], expect_stubs=2, timeout=900),
    Harness(M + "c04_read_from_partial_requires_authentication", functions=["DecryptReadBackend::read_encrypted_from_partial (uncompressed)"], expect_stubs=1),
    Harness(M + "c04_compressed_read_returns_exactly_the_recorded_length", functions=["DecryptReadBackend::read_encrypted_from_partial (compressed: length check after the decoder)"], expect_stubs=5),
    Harness(M + "c04_read_full_rejects_substituted_file", functions=["<backend::decrypt::DecryptBackend as DecryptReadBackend>::read_encrypted_full"], expect_stubs=2),
]
KANI_UNWIND = 6
KANI_ASSUMPTIONS = [
    "key = MockKey (ciphertext = marker byte + plaintext; decrypt fails without marker) standing for an arbitrary AEAD",
    "crypto::hasher::hash stubbed by (first byte, last byte, length); zstd off on the write side (FFI unsupported by Kani)",
    "zstd decoders (stream::decode_all, bulk::decompress) replaced by a mock returning ANY byte string of length 0..=3 or an error",
    "store = recording mock backend with symbolic per-operation failure",
]
META = {"not_covered": [
    "the ciphers themselves (AES-CTR, Poly1305: uninterpreted, AEAD correctness ASSUMED for the generate/open round trip), scrypt, serde of key files, key add/remove HISTORIES (the single add step is the units add_key_to_repo / add_current_key_to_repo)",
    "'no plaintext in storage' as a statement about all writers (only hash_write_full and the packer hand-over under C08)",
    "compressing writers (zstd FFI); the decoder is an arbitrary function in the compressed-read harness",
]}
