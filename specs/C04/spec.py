"""C04 — stored data is authenticated ciphertext; tampering is always detected."""
from tools.extract import Unit, Rw
from tools.krun import Harness

PROPERTY = "C04"
PRELUDE = ["../common/base.rs", "prelude.rs"]
A = "crates/core/src/crypto/aespoly1305.rs"
R_ERR = Rw("", "verr()", count=None, kind="err", why="RusticError construction (kind/message/context dropped)")

UNITS = [
    Unit(name="Key", file=A, kind="const", anchor="pub struct Key(AeadKey);"),
    Unit(name="key_encrypt_data", file=A, anchor="fn encrypt_data(&self, data: &[u8]) -> RusticResult<Vec<u8>>", within="impl CryptoKey for Key {", ret_name="r",
         wrap_open="impl Key {", wrap_close="}",
         functions=["<crypto::aespoly1305::Key as CryptoKey>::encrypt_data"],
         rewrites=[
             Rw("rng().fill_bytes(&mut nonce);", "vrng_fill_nonce(&mut nonce);", why="rand::rng().fill_bytes: the only source of `fresh` values"),
             Rw("res.extend_from_slice(&nonce);", "vextend(&mut res, &nonce.bytes);", why="Vec::extend_from_slice(&GenericArray)"),
             Rw("res.extend_from_slice(data);", "vextend_slice(&mut res, data);", why="Vec::extend_from_slice"),
             Rw("res.extend_from_slice(&tag);", "vextend(&mut res, &tag.bytes);", why="Vec::extend_from_slice(&GenericArray)"),
             Rw(r"Aes256CtrPoly1305Aes::new\(&self\.0\)\s*\.encrypt_in_place_detached\(&nonce, &\[\], &mut res\[16\.\.\]\)\s*\.map_err\(.*?\)\?;", "vaead_encrypt_in_place_detached(&self.0, &nonce, &mut res, 16)?;", regex=True,
                why="AEAD encrypt (aes256ctr_poly1305aes crate): uninterpreted CT/TAG, fresh nonce as PRECONDITION"),
         ],
         contract="""
    requires
        data@.len() + 32 <= usize::MAX,
    ensures
        /*@ciphertext_framing*/ r matches Ok(v) ==> v@.len() == data@.len() + 32
            && fresh(v@.subrange(0, 16))
            && v@.subrange(16, 16 + data@.len() as int) == CT(self.0, v@.subrange(0, 16), data@)
            && v@.subrange(16 + data@.len() as int, v@.len() as int) == TAG(self.0, v@.subrange(0, 16), data@),
""",
         hints=[("before", "Ok(res)", """        proof {
            let n = nonce.bytes@;
            assert(res@ =~= res2 + tag.bytes@);
            assert(res@.subrange(0, 16) =~= res2.subrange(0, 16));
            assert(res@.subrange(0, 16) =~= n);
            assert(res@.subrange(16, 16 + data@.len() as int) =~= res2.subrange(16, res2.len() as int));
            assert(res@.subrange(16, 16 + data@.len() as int) =~= CT(self.0, n, data@));
            assert(res@.subrange(16 + data@.len() as int, res@.len() as int) =~= TAG(self.0, n, data@));
        }"""),
                ("after", "vextend(&mut res, &nonce.bytes);", "        proof { assert(res@ =~= nonce.bytes@); }"),
                ("after", "vextend_slice(&mut res, data);", "        proof { assert(res@ =~= nonce.bytes@ + data@); assert(res@.subrange(0, 16) =~= nonce.bytes@); assert(res@.subrange(16, res@.len() as int) =~= data@); }"),
                ("after", "vaead_encrypt_in_place_detached(", "        proof { assert(res@.subrange(0, 16) =~= nonce.bytes@); assert(res@.len() == 16 + data@.len()); }\n        let ghost res2 = res@;"),
         ],
         ),
    Unit(name="key_decrypt_data", file=A, anchor="fn decrypt_data(&self, data: &[u8]) -> RusticResult<Vec<u8>>", within="impl CryptoKey for Key {", ret_name="r",
         wrap_open="impl Key {", wrap_close="}",
         functions=["<crypto::aespoly1305::Key as CryptoKey>::decrypt_data"],
         rewrites=[
             R_ERR,
             Rw("Nonce::from_slice(&data[0..16])", "Nonce::from_slice(vslice(data, 0, 16))", why="slice range indexing -> stub with bounds precondition"),
             Rw(r"Aes256CtrPoly1305Aes::new\(&self\.0\)\s*\.decrypt\(nonce, &data\[16\.\.\]\)\s*\.map_err\(.*\)", "vaead_decrypt(&self.0, &nonce, vslice(data, 16, data.len()))", regex=True,
                why="AEAD decrypt: Ok only if the MAC verifies (uninterpreted AEAD_OK / PT)"),
         ],
         contract="""
    ensures
        /*@short_input_rejected*/ data@.len() < 16 ==> r is Err,
        /*@plaintext_only_if_mac_verifies*/ r matches Ok(p) ==> data@.len() >= 16
            && AEAD_OK(self.0, data@.subrange(0, 16), data@.subrange(16, data@.len() as int))
            && p@ == PT(self.0, data@.subrange(0, 16), data@.subrange(16, data@.len() as int)),
"""),
]
M = "backend::decrypt::verif_kani::"
KANI = [
    Harness(M + "c04_hash_write_full_stores_ciphertext_under_its_hash", functions=["<backend::decrypt::DecryptBackend as DecryptWriteBackend>::hash_write_full", "backend::decrypt::DecryptBackend::{encrypt_file, very_file, decrypt_file}"], expect_stubs=2, timeout=900),
    Harness(M + "c04_read_from_partial_requires_authentication", functions=["DecryptReadBackend::read_encrypted_from_partial (uncompressed)"], expect_stubs=1),
    Harness(M + "c04_compressed_read_returns_exactly_the_recorded_length", functions=["DecryptReadBackend::read_encrypted_from_partial (compressed: length check after the decoder)"], expect_stubs=5),
    Harness(M + "c04_read_full_rejects_substituted_file", functions=["<backend::decrypt::DecryptBackend as DecryptReadBackend>::read_encrypted_full"], expect_stubs=2),
]
KANI_UNWIND = 6
KANI_ASSUMPTIONS = [
    "key = MockKey (ciphertext = marker byte + plaintext; decrypt fails without marker) standing for an arbitrary AEAD",
    "crypto::hasher::hash stubbed by (first byte, last byte, length); zstd off on the write side (FFI unsupported by Kani)",
    "zstd decoders (stream::decode_all, bulk::decompress) replaced by a mock returning ANY byte string of length 0..=3 or an error",
    "store = recording mock backend with symbolic per-operation failure",
]
META = {"not_covered": [
    "the ciphers themselves (AES-CTR, Poly1305), scrypt / key files, passwords, key add/remove histories",
    "'no plaintext in storage' as a statement about all writers (only hash_write_full and the packer hand-over under C08)",
    "compressing writers (zstd FFI); the decoder is an arbitrary function in the compressed-read harness",
]}
