// ===== C05: check_cache_files -- one cached file against the backend =====
// outcome of reading file (tpe, id) from the cache: None = read error, Some(None) = not cached, Some(Some(b)) = bytes
pub uninterp spec fn CACHE_RES(tpe: FileType, id: Id) -> Option<Option<Seq<u8>>>;
// outcome of reading it from the backend: None = read error
pub uninterp spec fn BE_RES(tpe: FileType, id: Id) -> Option<Seq<u8>>;
pub struct VCacheR { pub _opaque: u64 }
impl VCacheR {
    #[verifier::external_body]
    pub fn read_full(&self, tpe: FileType, id: &Id) -> (r: RusticResult<Option<Bytes>>)
        ensures
            r is Err <==> CACHE_RES(tpe, *id) is None,
            r matches Ok(None) ==> CACHE_RES(tpe, *id) == Some(None::<Seq<u8>>),
            r matches Ok(Some(b)) ==> CACHE_RES(tpe, *id) == Some(Some(b.data@)),
    { unimplemented!() }
}
pub struct VReadBeR { pub _opaque: u64 }
impl VReadBeR {
    #[verifier::external_body]
    pub fn read_full(&self, tpe: FileType, id: &Id) -> (r: RusticResult<Bytes>)
        ensures
            r is Err <==> BE_RES(tpe, *id) is None,
            r matches Ok(b) ==> BE_RES(tpe, *id) == Some(b.data@),
    { unimplemented!() }
}
// `data_cached != data` on bytes::Bytes
#[verifier::external_body]
pub fn vbytes_ne(a: &Bytes, b: &Bytes) -> (r: bool) ensures r == (a.data@ != b.data@), { unimplemented!() }
