// ===== C05: list comparisons of check (index vs. pack listing, hot vs. cold listing) =====
#[derive(Clone, Copy, PartialEq, Eq, Structural)]
pub enum FileType { Config, Index, Key, Snapshot, Pack }
pub struct Progress { pub _opaque: u64 }
impl Progress {
    #[verifier::external_body]
    pub fn finish(&self) { unimplemented!() }
}
impl CheckResultsCollector {
    // a warning does not make the check fail: nothing is known after it
    #[verifier::external_body]
    pub fn add_warn(&self) { unimplemented!() }
}
// a backend as far as listing goes: the set of (id, size) pairs it lists per file type
pub struct VListBackend { pub _opaque: u64 }
impl VListBackend {
    pub uninterp spec fn listed(&self, tpe: FileType) -> Set<(Id, u32)>;
    #[verifier::external_body]
    pub fn list_with_size(&self, tpe: FileType) -> (r: RusticResult<Vec<(Id, u32)>>)
        ensures r matches Ok(v) ==> forall|x: (Id, u32)| #![trigger v@.contains(x)] #![trigger self.listed(tpe).contains(x)] v@.contains(x) <==> self.listed(tpe).contains(x),
    { unimplemented!() }
}
// packs_from_be.sort_by_key(|item| item.0): a permutation
#[verifier::external_body]
pub fn vsort_by_id(v: &mut Vec<(Id, u32)>)
    ensures forall|x: (Id, u32)| #![trigger final(v)@.contains(x)] #![trigger old(v)@.contains(x)] final(v)@.contains(x) <==> old(v)@.contains(x),
{ unimplemented!() }
pub fn vpackid(id: Id) -> (r: PackId) ensures r == PackId(id.0), { PackId(id.0) }
// BTreeMap / HashMap as far as these functions use them
pub struct VMap<K, V> { pub m: Ghost<Map<K, V>> }
impl<K, V> VMap<K, V> {
    pub closed spec fn view(&self) -> Map<K, V> { self.m@ }
    #[verifier::external_body]
    pub fn remove(&mut self, k: &K) -> (r: Option<V>)
        ensures
            final(self)@ == old(self)@.remove(*k),
            old(self)@.dom().contains(*k) ==> r == Some(old(self)@[*k]),
            !old(self)@.dom().contains(*k) ==> r is None,
    { unimplemented!() }
    #[verifier::external_body]
    pub fn contains_key(&self, k: &K) -> (r: bool)
        ensures r == self@.dom().contains(*k),
    { unimplemented!() }
    // iteration over the map (by value, by reference or mutably): its entries in key order
    #[verifier::external_body]
    pub fn ventries(&self) -> (r: Vec<(K, V)>)
        ensures
            forall|k: K| self@.dom().contains(k) ==> exists|i: int| 0 <= i < r@.len() && (#[trigger] r@[i]).0 == k,
            forall|i: int| 0 <= i < r@.len() ==> self@.dom().contains((#[trigger] r@[i]).0) && self@[r@[i].0] == r@[i].1,
    { unimplemented!() }
}
pub type IndexPacks = VMap<PackId, (u32, bool)>;
pub trait VCollectMap {
    fn vcollect_map(self) -> VMap<Id, u32>;
}
impl VCollectMap for Vec<(Id, u32)> {
    // .into_iter().collect::<HashMap<_, _>>(): keys are the listed ids, each mapped to one of its listed sizes
    #[verifier::external_body]
    fn vcollect_map(self) -> (r: VMap<Id, u32>)
        ensures
            forall|x: (Id, u32)| #[trigger] self@.contains(x) ==> r@.dom().contains(x.0),
            forall|id: Id| r@.dom().contains(id) ==> self@.contains((id, #[trigger] r@[id])),
    { unimplemented!() }
}
