// ===== C05: check_packs -- which packs feed the in-memory index, which are compared with the listing =====
pub struct IndexFile { pub packs: Vec<IndexPack>, pub packs_to_delete: Vec<IndexPack> }
pub open spec fn all_packs_spec(f: IndexFile) -> Seq<IndexPack> { f.packs@ + f.packs_to_delete@ }
impl IndexFile {
    // ASSUMED (iterator adapters): self.packs.into_iter().map(|p| (p,false)).chain(self.packs_to_delete.into_iter().map(|p| (p,true)))
    #[verifier::external_body]
    pub fn all_packs(self) -> (r: Vec<(IndexPack, bool)>)
        ensures r@.len() == all_packs_spec(self).len(),
                forall|i: int| 0 <= i < r@.len() ==> (#[trigger] r@[i]).0 == all_packs_spec(self)[i] && r@[i].1 == (i >= self.packs@.len()),
    { unimplemented!() }
}
pub open spec fn pack_type_spec(p: IndexPack) -> BlobType {
    if p.blobs@.len() == 0 { BlobType::Data } else { p.blobs@[0].tpe }
}
#[verifier::external_body]
pub fn vclone_packs(v: &Vec<IndexPack>) -> (r: Vec<IndexPack>) ensures r@ == v@, { unimplemented!() }
#[verifier::external_body]
pub fn vclone_pack(p: &IndexPack) -> (r: IndexPack) ensures r == *p, { unimplemented!() }
#[verifier::external_body]
pub fn vclone_blobs(v: &Vec<IndexBlob>) -> (r: Vec<IndexBlob>) ensures r@ == v@, { unimplemented!() }
pub enum IndexType { Full, FullTrees, DataIds }
// what is fed to an IndexCollector, as a sequence of packs (Extend<IndexPack> accepts any IntoIterator)
pub trait VPackSource { // keep-vis
    spec fn as_packs(&self) -> Seq<IndexPack>;
}
impl VPackSource for Vec<IndexPack> { open spec fn as_packs(&self) -> Seq<IndexPack> { self@ } }
impl VPackSource for Option<IndexPack> {
    open spec fn as_packs(&self) -> Seq<IndexPack> { match *self { Some(p) => seq![p], None => Seq::empty() } }
}
// the collector as the log of packs it was fed (C17 is the property about what it makes of them)
pub struct IndexCollector { pub fed: Ghost<Seq<IndexPack>> }
impl IndexCollector {
    #[verifier::external_body]
    pub fn new(_t: IndexType) -> (r: Self) ensures r.fed@ == Seq::<IndexPack>::empty(), { unimplemented!() }
    #[verifier::external_body]
    pub fn extend<T: VPackSource>(&mut self, packs: T)
        ensures final(self).fed@ == old(self).fed@ + packs.as_packs(),
    { unimplemented!() }
}
impl<K, V> VMap<K, V> {
    #[verifier::external_body]
    pub fn new() -> (r: Self) ensures r@ == Map::<K, V>::empty(), { unimplemented!() }
    #[verifier::external_body]
    pub fn insert(&mut self, k: K, v: V) -> (r: Option<V>)
        ensures final(self)@ == old(self)@.insert(k, v),
    { unimplemented!() }
}
pub struct VRepoC { pub _opaque: u64 }
impl VRepoC {
    #[verifier::external_body]
    pub fn progress_counter(&self, _s: &str) -> Progress { unimplemented!() }
    #[verifier::external_body]
    pub fn progress_spinner(&self, _s: &str) -> Progress { unimplemented!() }
}
impl VListBackend {
    // the index files of the repository, in stream order
    pub uninterp spec fn index_files(&self) -> Seq<IndexFile>;
    // be.stream_all::<IndexFile>(&p)?: a channel of per-file results; a file that fails to load is an Err item
    #[verifier::external_body]
    pub fn vstream_all_index(&self, p: &Progress) -> (r: RusticResult<Vec<RusticResult<(Id, IndexFile)>>>)
        ensures r matches Ok(v) ==> v@.len() == self.index_files().len()
            && forall|i: int| 0 <= i < v@.len() ==> ((#[trigger] v@[i]) matches Ok(x) ==> x.1 == self.index_files()[i]),
    { unimplemented!() }
}
// the live packs of the first n index files, in order
pub open spec fn live_packs(files: Seq<IndexFile>, n: int) -> Seq<IndexPack>
    decreases n
{
    if n <= 0 { Seq::empty() } else { live_packs(files, n - 1) + files[n - 1].packs@ }
}
// id -> (size, marked) over all packs (live and marked) of the first n files / first m packs of file n (later entries win)
pub open spec fn packs_map_file(m0: Map<PackId, (u32, bool)>, f: IndexFile, m: int) -> Map<PackId, (u32, bool)>
    decreases m
{
    if m <= 0 { m0 } else {
        let p = all_packs_spec(f)[m - 1];
        packs_map_file(m0, f, m - 1).insert(p.id, (pack_size_spec(p), m - 1 >= f.packs@.len()))
    }
}
pub open spec fn packs_map(files: Seq<IndexFile>, n: int) -> Map<PackId, (u32, bool)>
    decreases n
{
    if n <= 0 { Map::empty() } else { packs_map_file(packs_map(files, n - 1), files[n - 1], all_packs_spec(files[n - 1]).len() as int) }
}
// a pack's listed lengths add up below 4 GiB in every order (precondition of the offset loop, see index_offsets_check)
pub open spec fn lengths_fit(p: IndexPack) -> bool {
    forall|s: Seq<IndexBlob>| #![auto] s.to_multiset() == p.blobs@.to_multiset() ==> start_of(s, s.len() as int) <= u32::MAX
}

// ---- GlobalIndex::new_from_collector: the index every command (restore, check_trees ...) works with ----
pub struct Index { pub from: Ghost<Seq<IndexPack>> }
impl IndexCollector {
    // into_index (C17): the index answers lookups for exactly the packs the collector was fed
    #[verifier::external_body]
    pub fn into_index(self) -> (r: Index) ensures r.from@ == self.fed@, { unimplemented!() }
}
pub struct Arc<T> { pub v: T }
impl<T> Arc<T> {
    pub fn new(v: T) -> (r: Self) ensures r.v == v, { Arc { v } }
}
pub struct GlobalIndex { pub index: Arc<Index> }
impl Progress {
    #[verifier::external_body]
    pub fn set_title(&self, _t: &str) { unimplemented!() }
}
