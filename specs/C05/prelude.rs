// ===== C05 prelude =====
#[derive(Clone, Copy, PartialEq, Eq, Structural)]
pub struct Id(pub u64);
#[derive(Clone, Copy, PartialEq, Eq, Structural)]
pub struct BlobId(pub u64);
#[derive(Clone, Copy, PartialEq, Eq, Structural)]
pub struct PackId(pub u64);
#[derive(Clone, Copy, PartialEq, Eq, Structural)]
pub enum BlobType { Tree, Data }
#[derive(Clone, Copy, PartialEq, Eq, Structural)]
pub struct BlobLocation { pub offset: u32, pub length: u32, pub uncompressed_length: Option<u32> }
#[derive(Clone, Copy, PartialEq, Eq, Structural)]
pub struct IndexBlob { pub id: BlobId, pub tpe: BlobType, pub location: BlobLocation }
pub struct IndexPack { pub id: PackId, pub blobs: Vec<IndexBlob>, pub size: Option<u32>, pub time: Option<u64> }

// cryptographic / codec functions: UNINTERPRETED (collision resistance, authenticity are not reasoned about)
pub uninterp spec fn SHA(d: Seq<u8>) -> u64;                 // SHA-256 as an id key
pub uninterp spec fn DEC_OK(c: Seq<u8>) -> bool;             // MAC verifies under the repository key
pub uninterp spec fn DEC(c: Seq<u8>) -> Seq<u8>;             // plaintext
pub uninterp spec fn ZDEC(z: Seq<u8>) -> Seq<u8>;            // zstd decode_all
pub uninterp spec fn PARSE(h: Seq<u8>) -> Seq<IndexBlob>;    // PackHeader::from_binary(..).into_blobs()
pub uninterp spec fn pack_size_spec(p: IndexPack) -> u32;    // IndexPack::pack_size()
pub uninterp spec fn hsize_spec(p: IndexPack) -> u32;        // PackHeaderRef::from_index_pack(p).size()
pub open spec fn le32(x: u32) -> Seq<u8> {
    seq![(x & 0xff) as u8, ((x >> 8) & 0xff) as u8, ((x >> 16) & 0xff) as u8, ((x >> 24) & 0xff) as u8]
}

pub trait AsSeq { // keep-vis
    spec fn seq(&self) -> Seq<u8>;
}
pub struct Bytes { pub data: Ghost<Seq<u8>> } // keep-vis
impl AsSeq for Bytes { open spec fn seq(&self) -> Seq<u8> { self.data@ } }
impl AsSeq for Vec<u8> { open spec fn seq(&self) -> Seq<u8> { self@ } }
impl Bytes {
    #[verifier::external_body]
    pub fn len(&self) -> (r: usize) ensures r == self.data@.len(), { unimplemented!() }
    #[verifier::external_body]
    pub fn split_off(&mut self, at: usize) -> (r: Bytes)
        requires at <= old(self).data@.len(),
        ensures final(self).data@ == old(self).data@.subrange(0, at as int), r.data@ == old(self).data@.subrange(at as int, old(self).data@.len() as int),
    { unimplemented!() }
    #[verifier::external_body]
    pub fn split_to(&mut self, at: usize) -> (r: Bytes)
        requires at <= old(self).data@.len(),
        ensures r.data@ == old(self).data@.subrange(0, at as int), final(self).data@ == old(self).data@.subrange(at as int, old(self).data@.len() as int),
    { unimplemented!() }
}
#[verifier::external_body]
pub fn hash<T: AsSeq>(d: &T) -> (r: Id) ensures r.0 == SHA(d.seq()), { unimplemented!() }
pub fn vpackid_from(i: Id) -> (r: PackId) ensures r.0 == i.0, { PackId(i.0) }
pub fn vblobid_from(i: Id) -> (r: BlobId) ensures r.0 == i.0, { BlobId(i.0) }

impl IndexPack {
    #[verifier::external_body]
    pub fn pack_size(&self) -> (r: u32) ensures r == pack_size_spec(*self), { unimplemented!() }
}
#[verifier::external_body]
pub fn vheader_size(p: &IndexPack) -> (r: u32) ensures r == hsize_spec(*p), { unimplemented!() }
#[verifier::external_body]
pub fn vheaderlen_from_binary(data: &Bytes) -> (r: RusticResult<u32>)
    ensures r matches Ok(v) ==> data.data@.len() >= 4 && data.data@.subrange(0, 4) == le32(v),
{ unimplemented!() }

pub trait DecryptReadBackend {
    fn decrypt(&self, data: &Bytes) -> (r: RusticResult<Vec<u8>>)
        ensures r matches Ok(v) ==> DEC_OK(data.data@) && v@ == DEC(data.data@);
}
#[verifier::external_body]
pub fn vparse_header_blobs(header: &Vec<u8>) -> (r: RusticResult<Vec<IndexBlob>>)
    ensures r matches Ok(v) ==> v@ == PARSE(header@),
{ unimplemented!() }

// sort_unstable on Vec<IndexBlob> (Ord for IndexBlob compares the offset): permutation, ordered by offset
pub open spec fn sorted_by_offset(s: Seq<IndexBlob>) -> bool { forall|i: int, j: int| 0 <= i <= j < s.len() ==> s[i].location.offset <= s[j].location.offset }
#[verifier::external_body]
pub fn vsort_blobs(v: &mut Vec<IndexBlob>)
    ensures sorted_by_offset(final(v)@), final(v)@.to_multiset() == old(v)@.to_multiset(),
{ unimplemented!() }
#[verifier::external_body]
pub fn vblobs_ne(a: &Vec<IndexBlob>, b: &Vec<IndexBlob>) -> (r: bool) ensures r == (a@ != b@), { unimplemented!() }
// zstd::decode_all(..).unwrap(): ASSUMED total (the unwrap can panic on a corrupt stream inside an authentic blob)
#[verifier::external_body]
pub fn vdecode_all(z: &Vec<u8>) -> (r: Vec<u8>) ensures r@ == ZDEC(z@), { unimplemented!() }

// The result collector.  ENCODING DEVICE: reporting an error "ends" the path (ensures false), so the
// postcondition of the unit is exactly a statement about the runs that report NO error.
pub struct CheckResultsCollector { pub _opaque: u64 }
impl CheckResultsCollector {
    #[verifier::external_body]
    pub fn add_error(&self) ensures false, { unimplemented!() }
}

// start of blob k when blobs are laid out back to back from 0
pub open spec fn start_of(blobs: Seq<IndexBlob>, k: int) -> int
    decreases k
{
    if k <= 0 { 0 } else { start_of(blobs, k - 1) + blobs[k - 1].location.length as int }
}
// plaintext payload of blob k as stored in pack bytes `d`
pub open spec fn payload(d: Seq<u8>, blobs: Seq<IndexBlob>, k: int) -> Seq<u8> {
    let c = d.subrange(start_of(blobs, k), start_of(blobs, k) + blobs[k].location.length as int);
    if blobs[k].location.uncompressed_length is Some { ZDEC(DEC(c)) } else { DEC(c) }
}

pub proof fn lemma_start_mono(blobs: Seq<IndexBlob>, i: int, j: int)
    requires 0 <= i <= j <= blobs.len(),
    ensures 0 <= start_of(blobs, i) <= start_of(blobs, j),
    decreases j
{
    if i < j {
        lemma_start_mono(blobs, i, j - 1);
    } else if i > 0 {
        lemma_start_mono(blobs, i - 1, j - 1);
    }
}

// <[IndexBlob]>::first (definition)
pub fn vfirst_blob(v: &Vec<IndexBlob>) -> (r: Option<&IndexBlob>)
    ensures v@.len() == 0 ==> r is None, v@.len() > 0 ==> r == Some(&v@[0]),
{ if v.len() == 0 { None } else { Some(&v[0]) } }
