"""C05 — check is sound (soundness kernel: what 'no error reported' implies for one pack)."""
from tools.extract import Unit, Rw
from tools.krun import Harness

PROPERTY = "C05"
PRELUDE = ["../common/base.rs", "prelude.rs", "lists.rs", "trees.rs", "packs.rs", "cache.rs"]
CK = "crates/core/src/commands/check.rs"
R_ERR = Rw("", "verr()", count=None, kind="err", why="RusticError construction (kind/message/context dropped)")
R_MAPERR = Rw("", "", count=None, kind="maperr", why=".map_err(<error building closure>) -> .vmap_err()")
R_LOG = Rw("", "", count=None, kind="log", why="logging removed")

UNITS = [
    Unit(name="check_pack", file=CK, anchor="fn check_pack(", ret_name="r",
         functions=["commands::check::check_pack"],
         rewrites=[
             Rw("be: &impl DecryptReadBackend", "be: &B", sig=True, why="impl Trait argument -> named generic"),
             Rw("fn check_pack(", "fn check_pack<B: DecryptReadBackend>(", sig=True, why="impl Trait argument -> named generic"),
             Rw(r"\s*p: &Progress,", "", regex=True, sig=True, why="progress reporting removed (UI only)"),
             Rw(r"(?m)^\s*p\.inc\([^;]*\);\n", "\n", regex=True, count=None, why="progress reporting removed (UI only)"),
             Rw("collector.add_error", "", kind="dropargs", count=None, why="CheckError payload (message data) dropped; reporting itself kept"),
             R_LOG,
             Rw(r"PackHeaderLength::from_binary\(&data\.split_off\((?P<at>[^()]*(?:\(\))?[^()]*)\)\)\s*\.map_err\(.*?\)\?\s*\.to_u32\(\)", r"vheaderlen_from_binary(&data.split_off(\g<at>))?", regex=True,
                why="PackHeaderLength::from_binary (binrw) + error mapping: little-endian contract; split_off kept"),
             Rw(r"PackHeader::from_binary\(&header\)\s*\.map_err\(.*?\)\?\s*\.into_blobs\(\)", "vparse_header_blobs(&header)?", regex=True,
                why="PackHeader::from_binary(..).into_blobs() (binrw): uninterpreted PARSE"),
             Rw("PackHeaderRef::from_index_pack(&index_pack).size()", "vheader_size(&index_pack)", why="PackHeaderRef::size (iterator fold): uninterpreted"),
             Rw("PackId::from(hash(&data))", "vpackid_from(hash(&data))", why="Id -> PackId"),
             Rw("BlobId::from(hash(&blob_data))", "vblobid_from(hash(&blob_data))", why="Id -> BlobId"),
             Rw("blobs.sort_unstable();", "vsort_blobs(&mut blobs);", why="slice::sort_unstable (permutation + ordered by offset)"),
             Rw("pack_blobs != blobs", "vblobs_ne(&pack_blobs, &blobs)", why="Vec<IndexBlob> inequality"),
             Rw("for blob in blobs {", "for blob in it: blobs.iter() {", why="Verus for-loop syntax; iteration by reference"),
             Rw("decode_all(&*blob_data).unwrap()", "vdecode_all(&blob_data)", why="zstd::decode_all + unwrap (assumed total)"),
             Rw("length.get()", "length", why="NonZeroU32::get (NonZeroU32 modelled as u32)"),
             Rw(r"blob\.location\.length\.into\(\)", "blob.location.length", regex=True, why="u32 -> u64 conversion in removed progress call"),
         ],
         contract="""
    requires
        // the pack size the index records is the one implied by its blob list, in whatever order the blobs are
        // listed (the sum of lengths does not depend on the order); IndexPack.size is not cross-checked here
        forall|s: Seq<IndexBlob>| #![auto] s.to_multiset() == index_pack.blobs@.to_multiset() ==>
            pack_size_spec(index_pack) as int == hsize_spec(index_pack) + 4 + start_of(s, s.len() as int),
    ensures
        // every clause speaks about runs that reported NO error (add_error ends the path)
        /*@no_error_implies_size*/ r is Ok ==> data.data@.len() == pack_size_spec(index_pack),
        /*@no_error_implies_pack_hash*/ r is Ok ==> SHA(data.data@) == index_pack.id.0,
        /*@no_error_implies_trailer_len*/ r is Ok ==> data.data@.subrange(data.data@.len() - 4, data.data@.len() as int) == le32(hsize_spec(index_pack)),
        /*@no_error_implies_header_lists_index_blobs*/ r is Ok ==> exists|sorted: Seq<IndexBlob>| #![auto]
              sorted.to_multiset() == index_pack.blobs@.to_multiset() && sorted_by_offset(sorted)
              && PARSE(DEC(data.data@.subrange(data.data@.len() - 4 - hsize_spec(index_pack), data.data@.len() - 4))) == sorted
              && forall|k: int| 0 <= k < sorted.len() ==> SHA(#[trigger] payload(data.data@, sorted, k)) == sorted[k].id.0
              // a compressed blob decompresses to exactly the length recorded for it (restore rejects any other length)
              && forall|k: int| 0 <= k < sorted.len() && sorted[k].location.uncompressed_length is Some ==> (#[trigger] payload(data.data@, sorted, k)).len() == sorted[k].location.uncompressed_length->0,
""",
         hints=[
             ("before", "let id = index_pack.id;", "    let ghost data0 = data.data@;\n    proof { lemma_start_mono(index_pack.blobs@, 0, index_pack.blobs@.len() as int); }"),
             ("before", "let header = be.decrypt(", "    let ghost d1 = data.data@;\n    proof { assert(d1 =~= data0.subrange(0, data0.len() - 4)); }"),
             ("after", "let header = be.decrypt(", "    proof { assert(d1.subrange(d1.len() - header_len as int, d1.len() as int) =~= data0.subrange(data0.len() - 4 - header_len as int, data0.len() - 4)); }"),
             ("after_loop", "1", """    proof {
        let sorted = blobs@;
        assert(PARSE(DEC(data0.subrange(data0.len() - 4 - hsize_spec(index_pack), data0.len() - 4))) == sorted);
        assert(forall|k: int| 0 <= k < sorted.len() ==> SHA(#[trigger] payload(data0, sorted, k)) == sorted[k].id.0);
        assert(forall|k: int| 0 <= k < sorted.len() && sorted[k].location.uncompressed_length is Some ==> (#[trigger] payload(data0, sorted, k)).len() == sorted[k].location.uncompressed_length->0);
    }"""),
             ("after", "vsort_blobs(&mut blobs);", """    let ghost body_end = data0.len() - 4 - hsize_spec(index_pack);
    proof {
        lemma_start_mono(blobs@, 0, blobs@.len() as int);
        assert(start_of(blobs@, blobs@.len() as int) == body_end);
        assert(data.data@ =~= data0.subrange(0, body_end));
    }"""),
             ("loop_start", "1", """        proof {
            let k = it.index@;
            lemma_start_mono(blobs@, k, k + 1);
            lemma_start_mono(blobs@, k + 1, blobs@.len() as int);
            assert(blobs@[k] == *blob);
        }
        let ghost rem0 = data.data@;"""),
             ("after", "blob_data = be.decrypt(", """        proof {
            let k = it.index@;
            let c = data0.subrange(start_of(blobs@, k), start_of(blobs@, k) + blob.location.length as int);
            assert(rem0.subrange(0, blob.location.length as int) =~= c);
            assert(data.data@ =~= data0.subrange(start_of(blobs@, k + 1), body_end));
        }"""),
         ],
         loops={1: """
        invariant
            data.data@ == data0.subrange(start_of(blobs@, it.index@), body_end),
            start_of(blobs@, blobs@.len() as int) == body_end,
            0 <= body_end <= data0.len(),
            forall|j: int| 0 <= j < it.index@ ==> SHA(#[trigger] payload(data0, blobs@, j)) == blobs@[j].id.0,
            forall|j: int| 0 <= j < it.index@ && blobs@[j].location.uncompressed_length is Some ==> (#[trigger] payload(data0, blobs@, j)).len() == blobs@[j].location.uncompressed_length->0,
"""},
         ),
]
UNITS += [
    Unit(name="index_offsets_check", file=CK, kind="block", within="fn check_packs<S: Open>(",
         anchor="let mut expected_offset: u32 = 0;", block_end="@for_end",
         block_sig="fn index_offsets_check(p: IndexPack, blob_type: BlobType, collector: &CheckResultsCollector)",
         block_tail="",
         functions=["commands::check::check_packs (per-pack offset/type consistency loop of the index)"],
         rewrites=[
             Rw("collector.add_error", "", kind="dropargs", count=None, why="CheckError payload dropped; reporting kept"),
             Rw("blobs.sort_unstable();", "vsort_blobs(&mut blobs);", why="slice::sort_unstable (permutation, ordered by offset)"),
             Rw("for blob in blobs {", "for blob in it: blobs.iter() {", why="Verus for-loop syntax; iteration by reference"),
         ],
         contract="""
    requires
        // the lengths listed for one pack add up to less than 4 GiB (true for every pack file that can exist;
        // a crafted index violating it makes `expected_offset += length` overflow: noted observation)
        forall|s: Seq<IndexBlob>| #![auto] s.to_multiset() == p.blobs@.to_multiset() ==> start_of(s, s.len() as int) <= u32::MAX,
    ensures
        // speaks about runs that reported NO error: the (offset-sorted) blobs are homogeneous and lie back to back from 0
        /*@no_error_implies_contiguous_homogeneous*/ exists|sorted: Seq<IndexBlob>| #![auto] sorted.to_multiset() == p.blobs@.to_multiset() && sorted_by_offset(sorted)
              && forall|k: int| 0 <= k < sorted.len() ==> (#[trigger] sorted[k]).tpe == blob_type && sorted[k].location.offset as int == start_of(sorted, k),
""",
         loops={1: """
                invariant
                    expected_offset as int == start_of(blobs@, it.index@),
                    start_of(blobs@, blobs@.len() as int) <= u32::MAX,
                    forall|k: int| 0 <= k < it.index@ ==> (#[trigger] blobs@[k]).tpe == blob_type && blobs@[k].location.offset as int == start_of(blobs@, k),
"""},
         hints=[("loop_start", "1", "                proof { let k = it.index@; assert(blobs@[k] == *blob); lemma_start_mono(blobs@, k + 1, blobs@.len() as int); }")],
         ),
]

# ---- list comparisons: a pack / hot file that is missing or has a different size is reported as an ERROR
R_DROP_E = Rw("collector.add_error", "", kind="dropargs", count=None, why="CheckError payload dropped; reporting kept")
R_DROP_W = Rw("collector.add_warn", "", kind="dropargs", count=None, why="CheckError payload dropped; reporting kept")
R_PACKID = Rw("PackId::from(id)", "vpackid(id)", count=None, why="From<Id> for PackId (newtype wrap)")
R_ERRVAL = Rw(r"let (?P<v>\w+) = CheckError::\w+\s*\{[^{}]*\};", r"let \g<v> = ();", regex=True, count=None, why="a CheckError value bound to a variable (payload for the report only) -> unit")
UNITS += [
    Unit(name="check_packs_list", file=CK, anchor="fn check_packs_list(", ret_name="r",
         functions=["commands::check::check_packs_list"],
         rewrites=[
             Rw("be: &impl ReadBackend,", "be: &VListBackend,", sig=True, why="impl ReadBackend -> listing stub"),
             R_ERRVAL, R_DROP_E, R_DROP_W, R_PACKID,
             Rw("packs_from_be.sort_by_key(|item| item.0);", "vsort_by_id(&mut packs_from_be);", why="sort_by_key with closure -> permutation stub"),
             Rw("for (id, size) in packs_from_be {", "for x in it: packs_from_be.iter() { let (id, size) = *x;", why="Verus for-loop syntax; by-reference iteration + destructuring"),
             Rw("for (id, (size, to_delete)) in packs {", "let ents = packs.ventries(); for e in it2: ents.iter() { let (id, (size, to_delete)) = (&e.0, (&e.1.0, &e.1.1));", why="map iteration -> entries vector (same bindings, by reference)"),
         ],
         contract="""
    ensures
        // runs that reported NO error: every pack the index knows is listed by the backend with exactly the indexed size
        /*@no_error_implies_every_index_pack_listed_with_its_size*/ r is Ok ==> forall|id: PackId| old(packs)@.dom().contains(id) ==>
            be.listed(FileType::Pack).contains((Id(id.0), (#[trigger] old(packs)@[id]).0)),
""",
         loops={1: """
        invariant
            forall|x: (Id, u32)| packs_from_be@.contains(x) ==> be.listed(FileType::Pack).contains(x),
            forall|id: PackId| old(packs)@.dom().contains(id) ==>
                (packs@.dom().contains(id) && packs@[id] == old(packs)@[id]) || be.listed(FileType::Pack).contains((Id(id.0), (#[trigger] old(packs)@[id]).0)),
""", 2: """
        invariant it2.index@ == 0,
"""},
         hints=[("loop_start", "1", "            proof { assert(packs_from_be@[it.index@] == *x); assert(packs_from_be@.contains(*x)); }")],
         ),
    Unit(name="check_packs_list_hot", file=CK, anchor="fn check_packs_list_hot(", ret_name="r",
         functions=["commands::check::check_packs_list_hot"],
         rewrites=[
             Rw("be: &impl ReadBackend,", "be: &VListBackend,", sig=True, why="impl ReadBackend -> listing stub"),
             R_ERRVAL, R_DROP_E, R_DROP_W, R_PACKID,
             Rw("for (id, size) in be.list_with_size(FileType::Pack)? {", "let listing = be.list_with_size(FileType::Pack)?; let ghost tp0 = treepacks@; for x in it: listing.iter() { let (id, size) = *x;", why="Verus for-loop syntax; by-reference iteration + destructuring"),
             Rw("for (id, (size, to_delete)) in treepacks {", "let ents = treepacks.ventries(); for e in it2: ents.iter() { let (id, (size, to_delete)) = (e.0, (e.1.0, e.1.1));", why="map iteration -> entries vector (same bindings)"),
         ],
         contract="""
    ensures
        // runs that reported NO error: every tree pack of the index is listed by the hot backend with exactly the indexed size
        /*@no_error_implies_every_tree_pack_in_hot_store*/ r is Ok ==> forall|id: PackId| treepacks@.dom().contains(id) ==>
            be.listed(FileType::Pack).contains((Id(id.0), (#[trigger] treepacks@[id]).0)),
""",
         loops={1: """
        invariant
            forall|x: (Id, u32)| listing@.contains(x) ==> be.listed(FileType::Pack).contains(x),
            forall|id: PackId| tp0.dom().contains(id) ==>
                (treepacks@.dom().contains(id) && treepacks@[id] == tp0[id]) || be.listed(FileType::Pack).contains((Id(id.0), (#[trigger] tp0[id]).0)),
""", 2: """
        invariant it2.index@ == 0,
"""},
         hints=[("loop_start", "1", "            proof { assert(listing@[it.index@] == *x); assert(listing@.contains(*x)); }")],
         ),
    Unit(name="check_hot_files", file=CK, anchor="fn check_hot_files(", ret_name="r",
         functions=["commands::check::check_hot_files"],
         rewrites=[
             Rw("be: &impl ReadBackend,", "be: &VListBackend,", sig=True, why="impl ReadBackend -> listing stub"),
             Rw("be_hot: &impl ReadBackend,", "be_hot: &VListBackend,", sig=True, why="impl ReadBackend -> listing stub"),
             R_DROP_E, R_DROP_W,
             Rw(r"\.into_iter\(\)\s*\.collect::<HashMap<_, _>>\(\)", ".vcollect_map()", regex=True, why="collect into HashMap -> map stub"),
             Rw("for (id, size_hot) in files_hot {", "for x in it: files_hot.iter() { let (id, size_hot) = *x;", why="Verus for-loop syntax; by-reference iteration + destructuring"),
             Rw("for (id, _) in files {", "let ents = files.ventries(); for e in it2: ents.iter() {", why="map iteration -> entries vector"),
         ],
         contract="""
    ensures
        // runs that reported NO error: the hot and the cold store list the same ids, and every hot file has a cold file of the same size
        /*@no_error_implies_hot_listing_within_cold*/ r is Ok ==> forall|x: (Id, u32)| be_hot.listed(file_type).contains(x) ==> be.listed(file_type).contains(x),
        /*@no_error_implies_every_cold_file_has_hot_copy*/ r is Ok ==> forall|x: (Id, u32)| #[trigger] be.listed(file_type).contains(x) ==> exists|s: u32| be_hot.listed(file_type).contains((x.0, s)),
""",
         loops={1: """
        invariant
            forall|x: (Id, u32)| files_hot@.contains(x) <==> be_hot.listed(file_type).contains(x),
            forall|k: int| 0 <= k < it.index@ ==> be.listed(file_type).contains(#[trigger] files_hot@[k]),
            forall|x: (Id, u32)| #[trigger] be.listed(file_type).contains(x) ==> files@.dom().contains(x.0) || exists|k: int| 0 <= k < it.index@ && (#[trigger] files_hot@[k]).0 == x.0,
            forall|id: Id| files@.dom().contains(id) ==> be.listed(file_type).contains((id, #[trigger] files@[id])),
""", 2: """
        invariant it2.index@ == 0,
"""},
         hints=[("loop_start", "1", "            proof { assert(files_hot@[it.index@] == *x); }"),
                ("before", "p.finish();", """    proof {
        assert forall|x: (Id, u32)| #[trigger] be.listed(file_type).contains(x) implies exists|s: u32| be_hot.listed(file_type).contains((x.0, s)) by {
            assert(!files@.dom().contains(x.0));
            let k = choose|k: int| 0 <= k < files_hot@.len() && (#[trigger] files_hot@[k]).0 == x.0;
            assert(files_hot@.contains(files_hot@[k]));
            assert(files_hot@[k] == (x.0, files_hot@[k].1));
        }
    }""")],
         ),
]

# ---- check_trees: the per-tree node loop (the tree stream itself is a thread pipeline: not covered)
UNITS += [
    Unit(name="check_tree_nodes", file=CK, kind="block", within="fn check_trees<S: Open>(",
         anchor="for node in tree.nodes {", block_end="@for_end",
         block_sig="fn check_tree_nodes(tree: Tree, path: PathBufR, index: &VIndex, packs: &mut VSet<PackId>, collector: &CheckResultsCollector)",
         block_tail="",
         functions=["commands::check::check_trees (per-tree loop over the nodes: every referenced blob is indexed, its pack recorded)"],
         rewrites=[
             R_ERRVAL, R_DROP_E, R_DROP_W,
             Rw("for node in tree.nodes {", "for node in it: tree.nodes.iter() {", why="Verus for-loop syntax; iteration by reference"),
             Rw("NodeType::File => node.content.as_ref().map_or_else(", "NodeType::File => match node.content.as_ref() {", why="Option::map_or_else(|| A, |content| B) -> match { None => A, Some(content) => B } (closures capturing `packs` mutably are outside Verus)"),
             Rw("                    || {\n", "                    None => {\n", why="map_or_else -> match (None arm)"),
             Rw("                    |content| {\n", "                    Some(content) => {\n", why="map_or_else -> match (Some arm)"),
             Rw("                    },\n                ),\n", "                    },\n                },\n", why="map_or_else -> match (closing)"),
             Rw("for (i, id) in content.iter().enumerate() {", "let mut vi: usize = 0; let vclen = content.len(); for id in it3: content.iter() { let i = vi; proof { assert(it3.index@ < content@.len()); } vi = vi + 1;", why="enumerate() -> explicit exec counter (Verus has no iterator adapters)"),
             Rw("_ = packs.insert(", "let _ = packs.insert(", count=None, why="destructuring assignment `_ =` -> `let _ =`"),
             Rw(r"BlobId::from\(\*\*id\)", "vBlobId_from_data(id)", regex=True, count=None, why="DataId -> BlobId (same bytes)"),
         ],
         contract="""
    ensures
        // runs that reported NO error: every file has content, every content / subtree id is non-null and indexed,
        // and the pack holding it is in the set of packs that check goes on to read
        /*@no_error_implies_every_node_indexed*/ forall|k: int| 0 <= k < tree.nodes@.len() ==> node_ok(#[trigger] tree.nodes@[k], *index, final(packs)@),
        /*@packs_only_grow*/ old(packs)@.subset_of(final(packs)@),
""",
         loops={1: """
            invariant
                old(packs)@.subset_of(packs@),
                forall|k: int| 0 <= k < it.index@ ==> node_ok(#[trigger] tree.nodes@[k], *index, packs@),
""", 2: """
                            invariant
                                node.content == Some(*content), pk0.subset_of(packs@), vi == it3.index@, vclen == content@.len(),
                                forall|k: int| 0 <= k < it3.index@ ==> (#[trigger] content@[k]).0 != 0 && index.data().dom().contains(content@[k]) && packs@.contains(index.data()[content@[k]]),
"""},
         hints=[("loop_start", "1", "            let ghost pk0 = packs@; proof { assert(tree.nodes@[it.index@] == *node); }"),
                ("loop_start", "2", "                            proof { assert(content@[it3.index@] == *id); }")],
         ),
]

# ---- check_packs as a whole: which packs feed the in-memory index that check_trees / the pack selection use,
#      and which are compared with the backend listing.  The offset loop is OUTLINED: its text is replaced by a call
#      of the block unit index_offsets_check (proved above from the same lines), i.e. used through its contract.
R_DISCARD = Rw(r"(?m)^(\s*)_ = ", r"\1let _ = ", regex=True, count=None, why="`_ = e;` -> `let _ = e;`")
UNITS += [
    Unit(name="indexpack_blob_type", file="crates/core/src/repofile/indexfile.rs", anchor="pub fn blob_type(&self) -> BlobType", ret_name="r",
         wrap_open="impl IndexPack {", wrap_close="}",
         rewrites=[Rw(r"(?P<r>self\.blobs)\.first\(\)\.map_or\((?P<d>[^,]+), \|(?P<v>\w+)\| (?P<b>[^;{}]*?)\)(?=\s*\}?\s*\Z)", r"(match vfirst_blob(&\g<r>) { Some(\g<v>) => \g<b>, None => \g<d> })", regex=True, optional=True,
                      why="slice::first + Option::map_or(default, closure) -> match (definitions; both bodies verbatim)")],
         functions=["repofile::indexfile::IndexPack::blob_type"],
         contract="\n    ensures r == pack_type_spec(*self),\n"),
    Unit(name="check_packs", file=CK, anchor="fn check_packs<S: Open>(", ret_name="r",
         functions=["commands::check::check_packs"],
         rewrites=[
             Rw("fn check_packs<S: Open>(", "fn check_packs(", sig=True, why="Repository<S> -> progress stub"),
             Rw("repo: &Repository<S>,", "repo: &VRepoC,", sig=True, why="Repository<S> -> progress stub"),
             Rw("be: &impl DecryptReadBackend,", "be: &VListBackend,", sig=True, why="impl DecryptReadBackend -> listing + index-file stream stub"),
             Rw("hot_be: Option<&impl ReadBackend>,", "hot_be: Option<&VListBackend>,", sig=True, why="impl ReadBackend -> listing stub"),
             R_ERRVAL, R_DROP_E, R_DROP_W, R_DISCARD,
             Rw("BTreeMap::new()", "VMap::new()", count=None, why="BTreeMap -> map stub"),
             Rw("for index in be.stream_all::<IndexFile>(&p)? {", "let vstream = be.vstream_all_index(&p)?; for index in it: vstream.into_iter() {", why="channel stream -> vector of per-file results; Verus for-loop syntax"),
             Rw(r"index\.(?P<f>packs\w*)\.clone\(\)", r"vclone_packs(&index.\g<f>)", regex=True, count=None, why="Vec<IndexPack>::clone"),
             Rw("p.blobs.clone()", "vclone_blobs(&p.blobs)", count=None, why="Vec<IndexBlob>::clone"),
             Rw(r"for \((?P<a>\w+), (?P<b>\w+)\) in index\.all_packs\(\) \{", r"let vap = index.all_packs(); for e in it2: vap.iter() { let \g<a> = vclone_pack(&e.0); let \g<b> = e.1;", regex=True, why="iterator chain -> vector; by-value item -> clone of the element"),
             Rw(r"let mut expected_offset: u32 = 0;.*?expected_offset \+= blob\.location\.length;\s*\}", "index_offsets_check(vclone_pack(&p), blob_type, collector);", regex=True,
                why="OUTLINE: the offset loop is the block unit index_offsets_check (same source lines), called through its contract"),
         ],
         contract="""
    requires
        forall|i: int, j: int| 0 <= i < be.index_files().len() && 0 <= j < all_packs_spec(be.index_files()[i]).len() ==> lengths_fit(#[trigger] all_packs_spec(be.index_files()[i])[j]),
    ensures
        // the in-memory index that check_trees and the pack selection use is built from exactly the LIVE packs of the index files
        // (packs marked for deletion are not part of the index a restore would use)
        /*@index_for_tree_check_is_exactly_the_live_packs*/ r matches Ok(x) ==> x.0.fed@ == live_packs(be.index_files(), be.index_files().len() as int),
        // runs that reported NO error: every pack any index file mentions (live or marked) is listed by the backend with its indexed size
        /*@no_error_implies_every_indexed_pack_listed*/ r is Ok ==> forall|id: PackId| packs_map(be.index_files(), be.index_files().len() as int).dom().contains(id) ==>
            be.listed(FileType::Pack).contains((Id(id.0), (#[trigger] packs_map(be.index_files(), be.index_files().len() as int)[id]).0)),
        /*@no_error_implies_marked_packs_have_time*/ r is Ok ==> forall|i: int, j: int| 0 <= i < be.index_files().len() && be.index_files()[i].packs@.len() <= j < all_packs_spec(be.index_files()[i]).len()
            ==> (#[trigger] all_packs_spec(be.index_files()[i])[j]).time is Some,
""",
         loops={1: """
        invariant
            forall|i: int, j: int| 0 <= i < be.index_files().len() && 0 <= j < all_packs_spec(be.index_files()[i]).len() ==> lengths_fit(#[trigger] all_packs_spec(be.index_files()[i])[j]),
            vstream@.len() == be.index_files().len(),
            forall|i: int| 0 <= i < vstream@.len() ==> ((#[trigger] vstream@[i]) matches Ok(x) ==> x.1 == be.index_files()[i]),
            index_collector.fed@ == live_packs(be.index_files(), it.index@),
            packs@ == packs_map(be.index_files(), it.index@),
            forall|i: int, j: int| 0 <= i < it.index@ && be.index_files()[i].packs@.len() <= j < all_packs_spec(be.index_files()[i]).len()
                ==> (#[trigger] all_packs_spec(be.index_files()[i])[j]).time is Some,
""", 2: """
            invariant
                forall|i: int, j: int| 0 <= i < be.index_files().len() && 0 <= j < all_packs_spec(be.index_files()[i]).len() ==> lengths_fit(#[trigger] all_packs_spec(be.index_files()[i])[j]),
                0 <= fi < be.index_files().len(), vap@.len() == all_packs_spec(be.index_files()[fi]).len(),
                forall|i: int| 0 <= i < vap@.len() ==> (#[trigger] vap@[i]).0 == all_packs_spec(be.index_files()[fi])[i] && vap@[i].1 == (i >= be.index_files()[fi].packs@.len()),
                index_collector.fed@ == live_packs(be.index_files(), fi + 1),
                packs@ == packs_map_file(packs_map(be.index_files(), fi), be.index_files()[fi], it2.index@),
                forall|j: int| be.index_files()[fi].packs@.len() <= j < it2.index@ ==> (#[trigger] all_packs_spec(be.index_files()[fi])[j]).time is Some,
"""},
         hints=[("loop_start", "1", "        let ghost fi = it.index@;"),
                ("loop_start", "2", "            proof { assert(vap@[it2.index@] == *e); }")],
         ),
]

IXF = "crates/core/src/index.rs"
WGI = dict(wrap_open="impl GlobalIndex {", wrap_close="}")
UNITS += [
    Unit(name="gi_new_from_index", file=IXF, anchor="pub fn new_from_index(index: Index) -> Self", within="impl GlobalIndex {", ret_name="r", **WGI,
         functions=["index::GlobalIndex::new_from_index"],
         contract="\n    ensures r.index.v == index,\n"),
    Unit(name="gi_new_from_collector", file=IXF, anchor="fn new_from_collector(", within="impl GlobalIndex {", ret_name="r", **WGI,
         functions=["index::GlobalIndex::new_from_collector"],
         rewrites=[
             Rw("be: &impl DecryptReadBackend,", "be: &VListBackend,", sig=True, why="impl DecryptReadBackend -> index-file stream stub"),
             Rw("for index in be.stream_all::<IndexFile>(p)? {", "let vstream = be.vstream_all_index(p)?; for index in it: vstream.into_iter() {", why="channel stream -> vector of per-file results; Verus for-loop syntax"),
         ],
         contract="""
    ensures
        // the index all commands work with is built from exactly the LIVE packs of all index files (after whatever the collector held)
        /*@global_index_is_exactly_the_live_packs*/ r matches Ok(g) ==> g.index.v.from@ == collector.fed@ + live_packs(be.index_files(), be.index_files().len() as int),
""",
         loops={1: """
            invariant
                vstream@.len() == be.index_files().len(),
                forall|i: int| 0 <= i < vstream@.len() ==> ((#[trigger] vstream@[i]) matches Ok(x) ==> x.1 == be.index_files()[i]),
                collector.fed@ == c0 + live_packs(be.index_files(), it.index@),
"""},
         hints=[("before", "p.set_title(", "        let ghost c0 = collector.fed@;"),
                ("loop_start", "1", "            proof { assert(c0 + (live_packs(be.index_files(), it.index@) + be.index_files()[it.index@].packs@) =~= (c0 + live_packs(be.index_files(), it.index@)) + be.index_files()[it.index@].packs@); }")],
         ),
]
# ---- check_cache_files: the per-file comparison (closure given to rayon's for_each_with)
UNITS += [
    Unit(name="check_cache_file", file=CK, kind="block", within="fn check_cache_files(",
         anchor="@closure:.for_each_with((cache, be, p), |(cache, be, p), (id, size)|",
         block_sig="fn check_cache_file(cache: &VCacheR, be: &VReadBeR, p: &Progress, id: Id, size: u32, file_type: FileType, collector: &CheckResultsCollector)",
         block_tail="",
         functions=["commands::check::check_cache_files (per-file closure: cached copy against the backend's file)"],
         rewrites=[R_DROP_E, R_DROP_W,
                   Rw("data_cached != data", "vbytes_ne(&data_cached, &data)", why="PartialEq on bytes::Bytes -> stub comparing the byte sequences"),
                   Rw(r"(?m)^\s*p\.inc\([^;]*\);\n", "\n", regex=True, count=None, why="progress reporting removed (UI only)")],
         contract="""
    ensures
        // runs that reported NO error for this file: both reads worked, and a cached copy equals what the backend returns
        /*@no_error_implies_cache_readable*/ CACHE_RES(file_type, id) is Some,
        /*@no_error_implies_backend_readable*/ BE_RES(file_type, id) is Some,
        /*@no_error_implies_cached_copy_equals_backend*/ CACHE_RES(file_type, id) matches Some(Some(c)) ==> BE_RES(file_type, id) == Some(c),
"""),
]

UNITS += [
    # the walk of check_trees over ALL trees: a tree that cannot be loaded fails the check (it is never skipped silently)
    Unit(name="check_trees_walk", file=CK, kind="block", within="fn check_trees<S: Open>(",
         anchor="let mut packs = BTreeSet::new();", block_end="@fn_end",
         block_sig="fn check_trees_walk(repo: &VRepoT, be: &VBeT, index: &VIndex, snap_trees: TreeIdsW, collector: &CheckResultsCollector) -> (r: RusticResult<VSet<PackId>>)",
         block_tail="",
         functions=["commands::check::check_trees (the walk over the tree stream; the per-tree node loop is unit check_tree_nodes)"],
         rewrites=[
             Rw("BTreeSet::new()", "vset_new()", why="BTreeSet -> set stub"),
             Rw("TreeStreamerOnce::new(be, index, snap_trees, p)?", "VTreeStream::vnew(be, index, snap_trees, p)?", why="TreeStreamerOnce (threads) -> the sequence of its items"),
             Rw(".next().transpose()", ".vnext_t()", why="(placeholder, replaced below)", optional=True),
             Rw("tree_streamer.vnext_t()", "vtranspose(tree_streamer.next())", why="Option<Result>::transpose -> proved helper (definition)", optional=True),
             Rw(r"(?s)for node in tree\.nodes \{.*?\n        \}\n(?=    \})", "vcheck_tree_nodes(tree, path, index, &mut packs, collector);\n", regex=True,
                why="ELIDED here: the per-tree loop over the nodes (it is the unit check_tree_nodes)"),
         ],
         contract="""
    ensures
        // "a full check reports no error only if everything is readable": one unreadable tree makes the walk fail
        /*@an_unreadable_tree_fails_the_tree_check*/ r is Ok ==> forall|i: int| 0 <= i < TREE_ITEMS_OK(snap_trees).len() ==> #[trigger] TREE_ITEMS_OK(snap_trees)[i],
""",
         loops={1: """
        invariant
            tree_streamer.oks@ == TREE_ITEMS_OK(snap_trees), 0 <= tree_streamer.pos@ <= tree_streamer.oks@.len(),
            forall|i: int| 0 <= i < tree_streamer.pos@ ==> #[trigger] tree_streamer.oks@[i],
        ensures tree_streamer.pos@ >= tree_streamer.oks@.len(),
        decreases tree_streamer.oks@.len() - tree_streamer.pos@,
"""},
         ),
]

KANI = []
# check reads the repository through the in-memory index: the index units of C17's spec (lookup succeeds iff listed)
SATELLITES = [("C17", "*")]

META = {"not_covered": [
    "completeness ('every damage is reported or harmless') and the link to restorability: whole-repository statements",
    "TreeStreamerOnce itself (threads; check_trees' walk over its items and the per-tree node loop ARE units), the rayon iteration of check_cache_files (its per-file closure IS a unit), check_packs' index stream (threads); the BTreeMap/HashMap of the list comparisons are stubs with map semantics",
    "panics of check_pack / check_packs on a crafted index whose size field or lengths are inconsistent (preconditions of the units)",
]}
