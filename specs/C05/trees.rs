// ===== C05: the per-tree node check of check_trees =====
#[derive(Clone, Copy, PartialEq, Eq, Structural)]
pub struct DataId(pub u64);
#[derive(Clone, Copy, PartialEq, Eq, Structural)]
pub struct TreeId(pub u64);
impl DataId {
    pub fn is_null(&self) -> (r: bool) ensures r == (self.0 == 0), { self.0 == 0 }
}
impl TreeId {
    pub fn is_null(&self) -> (r: bool) ensures r == (self.0 == 0), { self.0 == 0 }
}
#[derive(Clone, Copy, PartialEq, Eq, Structural)]
pub enum NodeType { File, Dir, Symlink, Dev, Chardev, Fifo, Socket }
pub struct Node { pub node_type: NodeType, pub content: Option<Vec<DataId>>, pub subtree: Option<TreeId> }
pub struct Tree { pub nodes: Vec<Node> }
pub struct PathBufR { pub _opaque: u64 }
#[derive(Clone, Copy)]
pub struct IndexEntry { pub pack: PackId }
// the global index as a pair of partial maps (C17 is the property about how it is built)
pub struct VIndex { pub _opaque: u64 }
impl VIndex {
    pub uninterp spec fn data(&self) -> Map<DataId, PackId>;
    pub uninterp spec fn trees(&self) -> Map<TreeId, PackId>;
    #[verifier::external_body]
    pub fn get_data(&self, id: &DataId) -> (r: Option<IndexEntry>)
        ensures r matches Some(e) ==> self.data().dom().contains(*id) && self.data()[*id] == e.pack,
                r is None ==> !self.data().dom().contains(*id),
    { unimplemented!() }
    #[verifier::external_body]
    pub fn get_tree(&self, id: &TreeId) -> (r: Option<IndexEntry>)
        ensures r matches Some(e) ==> self.trees().dom().contains(*id) && self.trees()[*id] == e.pack,
                r is None ==> !self.trees().dom().contains(*id),
    { unimplemented!() }
    #[verifier::external_body]
    pub fn has_tree(&self, id: &TreeId) -> (r: bool) ensures r == self.trees().dom().contains(*id), { unimplemented!() }
    #[verifier::external_body]
    pub fn has_data(&self, id: &DataId) -> (r: bool) ensures r == self.data().dom().contains(*id), { unimplemented!() }
    // the untyped lookup the typed ones are wrappers of (C17): by blob type and raw id
    #[verifier::external_body]
    pub fn get_id(&self, tpe: BlobType, id: &BlobId) -> (r: Option<IndexEntry>)
        ensures tpe is Data ==> (r matches Some(e) ==> self.data().dom().contains(DataId(id.0)) && self.data()[DataId(id.0)] == e.pack) && (r is None ==> !self.data().dom().contains(DataId(id.0))),
                tpe is Tree ==> (r matches Some(e) ==> self.trees().dom().contains(TreeId(id.0)) && self.trees()[TreeId(id.0)] == e.pack) && (r is None ==> !self.trees().dom().contains(TreeId(id.0))),
    { unimplemented!() }
}
// BlobId::from(**id) / TreeId::from(..) / DataId::from(..): the same 32 bytes under another id type
pub fn vBlobId_from_data(id: &DataId) -> (r: BlobId) ensures r.0 == id.0, { BlobId(id.0) }
pub fn vBlobId_from_tree(id: &TreeId) -> (r: BlobId) ensures r.0 == id.0, { BlobId(id.0) }
pub struct VSet<K> { pub s: Ghost<Set<K>> }
impl<K> VSet<K> {
    pub closed spec fn view(&self) -> Set<K> { self.s@ }
    #[verifier::external_body]
    pub fn insert(&mut self, k: K) -> (r: bool)
        ensures final(self)@ == old(self)@.insert(k), r == !old(self)@.contains(k),
    { unimplemented!() }
}
// what "this node is fine" means for check_trees
pub open spec fn node_ok(n: Node, index: VIndex, packs: Set<PackId>) -> bool {
    match n.node_type {
        NodeType::File => n.content matches Some(c) && forall|k: int| 0 <= k < c@.len() ==>
            (#[trigger] c@[k]).0 != 0 && index.data().dom().contains(c@[k]) && packs.contains(index.data()[c@[k]]),
        NodeType::Dir => n.subtree matches Some(t) && t.0 != 0 && index.trees().dom().contains(t) && packs.contains(index.trees()[t]),
        _ => true,
    }
}

// ---- check_trees: the walk over all trees of the snapshots ----
// TreeStreamerOnce (threads loading every tree reachable from the snapshot roots once): the sequence of its items;
// `oks[i]` = the i-th item is a tree (not a load error)
pub struct VTreeStream { pub oks: Ghost<Seq<bool>>, pub pos: Ghost<int> }
pub uninterp spec fn TREE_ITEMS_OK(roots: TreeIdsW) -> Seq<bool>;
pub struct TreeIdsW { pub _opaque: u64 }
pub struct ProgressT { pub _opaque: u64 }
pub struct VBeT { pub _opaque: u64 }
impl VTreeStream {
    #[verifier::external_body]
    pub fn vnew(be: &VBeT, index: &VIndex, snap_trees: TreeIdsW, p: ProgressT) -> (r: RusticResult<VTreeStream>)
        ensures r matches Ok(s) ==> s.pos@ == 0 && s.oks@ == TREE_ITEMS_OK(snap_trees),
    { unimplemented!() }
    // Iterator::next
    #[verifier::external_body]
    pub fn next(&mut self) -> (r: Option<RusticResult<(PathBufR, Tree)>>)
        requires 0 <= old(self).pos@ <= old(self).oks@.len(),
        ensures
            final(self).oks@ == old(self).oks@,
            old(self).pos@ < old(self).oks@.len() ==> final(self).pos@ == old(self).pos@ + 1 && (r matches Some(x) && (x is Ok) == old(self).oks@[old(self).pos@]),
            old(self).pos@ >= old(self).oks@.len() ==> r is None && final(self).pos@ == old(self).pos@,
    { unimplemented!() }
}
// Option<Result<T, E>>::transpose (definition)
pub fn vtranspose<T>(o: Option<RusticResult<T>>) -> (r: RusticResult<Option<T>>)
    ensures r == (match o { Some(Ok(x)) => Ok::<Option<T>, Box<RusticError>>(Some(x)), Some(Err(e)) => Err::<Option<T>, Box<RusticError>>(e), None => Ok::<Option<T>, Box<RusticError>>(None) }),
{ match o { Some(Ok(x)) => Ok(Some(x)), Some(Err(e)) => Err(e), None => Ok(None) } }
// the per-tree node loop (unit check_tree_nodes), seen as one call
#[verifier::external_body]
pub fn vcheck_tree_nodes(tree: Tree, path: PathBufR, index: &VIndex, packs: &mut VSet<PackId>, collector: &CheckResultsCollector) { unimplemented!() }
pub struct VRepoT { pub _opaque: u64 }
impl VRepoT {
    #[verifier::external_body]
    pub fn progress_counter(&self, s: &str) -> ProgressT { unimplemented!() }
}
#[verifier::external_body]
pub fn vset_new() -> (r: VSet<PackId>) { unimplemented!() }
