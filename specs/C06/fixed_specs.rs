// ===== C06: specification over the extracted fixed_size::ChunkIter (emitted as FixedChunkIter) =====
impl<R: VReader> FixedChunkIter<R> {
    spec fn stream(&self) -> Seq<u8> { self.reader.remaining() }

    spec fn wf(&self) -> bool {
        &&& 1 <= self.size
        &&& (self.finished ==> self.stream().len() == 0)
    }
}

// --- random_poly: the RNG and the irreducibility test are outside the verified region ---
pub uninterp spec fn irreducible_spec(p: u64) -> bool;

#[verifier::external_body]
pub fn vrand_u64() -> (r: u64)
{ unimplemented!() }

#[verifier::external_body]
pub fn virreducible(p: u64) -> (b: bool)
    ensures b == irreducible_spec(p),
{ unimplemented!() }
