// ===== C06 prelude: rolling hash stub + the mathematical definition of a content-defined cut =====

// Fingerprint of a 64-byte window under polynomial `poly`: UNINTERPRETED.  Nothing below depends
// on its value, only on it being a function of (poly, window) -- that is exactly "cut points depend
// only on the bytes in the window".
pub uninterp spec fn FP(poly: u64, w: Seq<u8>) -> u64;

pub open spec fn zeros(n: nat) -> Seq<u8> { Seq::new(n, |i: int| 0u8) }

// rustic_cdc::Rabin64 (third party).  ASSUMED contract, read from rustic_cdc-0.3.1
// src/rolling_hash.rs: the ring holds 64 bytes; `hash` is the fingerprint of the ring content
// (oldest byte first); `reset()` zeroes ring and hash; `prefill_window(it)` slides in at most 63
// bytes of `it`; `slide(b)` drops the oldest byte and appends b.
pub struct Rabin64 {
    pub hash: u64,
    pub window: Ghost<Seq<u8>>,
    pub poly: Ghost<u64>,
}

impl Rabin64 {
    pub open spec fn inv(&self) -> bool {
        self.window@.len() == 64 && self.hash == FP(self.poly@, self.window@)
    }
}

// window content after `reset(); prefill_window(s.iter())`: at most 63 leading bytes of s, left-padded with zeros
pub open spec fn prefill_win(s: Seq<u8>) -> Seq<u8> {
    let k = if s.len() < 63 { s.len() as int } else { 63int };
    zeros((64 - k) as nat) + s.subrange(0, k)
}

#[verifier::external_body]
pub fn vcdc_reset(rabin: &mut Rabin64)
    ensures
        final(rabin).poly@ == old(rabin).poly@,
        final(rabin).window@ == zeros(64),
        final(rabin).inv(),
{ unimplemented!() }

// prefill_window(&mut v[a..b].iter().copied()) on a freshly reset ring
#[verifier::external_body]
pub fn vcdc_prefill_window(rabin: &mut Rabin64, v: &Vec<u8>, a: usize, b: usize)
    requires a <= b <= v@.len(), old(rabin).inv(), old(rabin).window@ == zeros(64),
    ensures
        final(rabin).poly@ == old(rabin).poly@,
        final(rabin).window@ == prefill_win(v@.subrange(a as int, b as int)),
        final(rabin).inv(),
{ unimplemented!() }

// rustic_cdc::Rabin64::reset_and_prefill_window ("combines a reset with a prefill in an optimized way"), contract read
// from rustic_cdc-0.3.1: it zeroes the hash and ONE ring slot only and keeps the ring position, i.e. it is equivalent to
// reset + prefill only if the ring already holds zeros.  k = bytes consumed (at most 63): the hash is that of a fresh
// window, the ring keeps 63 - k stale bytes.
#[verifier::external_body]
pub fn vcdc_reset_and_prefill_window(rabin: &mut Rabin64, v: &Vec<u8>, a: usize, b: usize)
    requires a <= b <= v@.len(), old(rabin).window@.len() == 64,
    ensures
        final(rabin).poly@ == old(rabin).poly@,
        ({ let bytes = v@.subrange(a as int, b as int);
           let k = if bytes.len() < 63 { bytes.len() as int } else { 63 };
           final(rabin).window@ == seq![0u8] + old(rabin).window@.subrange(k + 1, 64) + bytes.subrange(0, k)
           && final(rabin).hash == FP(old(rabin).poly@, prefill_win(bytes)) }),
{ unimplemented!() }

#[verifier::external_body]
pub fn vcdc_slide(rabin: &mut Rabin64, byte: u8)
    requires old(rabin).inv(),
    ensures
        final(rabin).poly@ == old(rabin).poly@,
        final(rabin).window@ == old(rabin).window@.subrange(1, 64).push(byte),
        final(rabin).inv(),
{ unimplemented!() }

// ---- the specification of a cut, over the abstract stream `s` (bytes since the previous cut) ----

pub open spec fn sat_sub64(n: int) -> int { if n >= 64 { n - 64 } else { 0 } }

// window of the rolling hash when the chunk under construction is s[0..p]   (min <= p <= |s|)
pub open spec fn win(s: Seq<u8>, min: int, p: int) -> Seq<u8>
    decreases p - min
{
    if p <= min {
        prefill_win(s.subrange(sat_sub64(min), min))
    } else {
        win(s, min, p - 1).subrange(1, 64).push(s[p - 1])
    }
}

pub open spec fn cut_ok(s: Seq<u8>, min: int, p: int, mask: u64, poly: u64) -> bool {
    (FP(poly, win(s, min, p)) & mask) == 0
}

// n is THE length of the first chunk of stream s
pub open spec fn is_first_cut(s: Seq<u8>, min: int, max: int, mask: u64, poly: u64, n: int) -> bool {
    if s.len() < min {
        n == s.len()                       // short rest: one last chunk
    } else {
        &&& min <= n <= s.len()
        &&& n <= max
        &&& forall|q: int| min <= q < n ==> !cut_ok(s, min, q, mask, poly)   // no earlier fingerprint hit
        &&& (n == max || cut_ok(s, min, n, mask, poly) || n == s.len())      // stopped for a reason
    }
}

// ---- lemmas over the contract (not over code) ----

// win depends only on the first p bytes
pub proof fn lemma_win_prefix(s1: Seq<u8>, s2: Seq<u8>, min: int, p: int)
    requires 0 <= min <= p, p <= s1.len(), p <= s2.len(), s1.subrange(0, p) == s2.subrange(0, p),
    ensures win(s1, min, p) == win(s2, min, p),
    decreases p - min
{
    if p <= min {
        assert(s1.subrange(sat_sub64(min), min) =~= s1.subrange(0, p).subrange(sat_sub64(min), min));
        assert(s2.subrange(sat_sub64(min), min) =~= s2.subrange(0, p).subrange(sat_sub64(min), min));
    } else {
        assert(s1.subrange(0, p - 1) =~= s1.subrange(0, p).subrange(0, p - 1));
        assert(s2.subrange(0, p - 1) =~= s2.subrange(0, p).subrange(0, p - 1));
        lemma_win_prefix(s1, s2, min, p - 1);
        assert(s1[p - 1] == s1.subrange(0, p)[p - 1]);
        assert(s2[p - 1] == s2.subrange(0, p)[p - 1]);
    }
}

// L06.u  the first chunk length is unique: it is a function of the stream alone, hence independent
// of how the reader fragments its reads (the contract of `next` mentions only the stream).
pub proof fn lemma_first_cut_unique(s: Seq<u8>, min: int, max: int, mask: u64, poly: u64, n1: int, n2: int)
    requires is_first_cut(s, min, max, mask, poly, n1), is_first_cut(s, min, max, mask, poly, n2), min <= max,
    ensures n1 == n2,
{
    if s.len() >= min {
        if n1 < n2 {
            assert(!cut_ok(s, min, n1, mask, poly));
        }
        if n2 < n1 {
            assert(!cut_ok(s, min, n2, mask, poly));
        }
    }
}

// L06.a  suffix stability: whether n is the first cut is decided by the n bytes up to the cut alone
// (plus whether the stream ends there), so two streams that agree from a common cut onwards are
// cut identically from there on.
pub proof fn lemma_cut_depends_only_on_chunk(s1: Seq<u8>, s2: Seq<u8>, min: int, max: int, mask: u64, poly: u64, n: int)
    requires
        0 <= min <= max,
        is_first_cut(s1, min, max, mask, poly, n),
        n <= s2.len(), n <= s1.len(),
        s1.subrange(0, n) == s2.subrange(0, n),
        (n == s1.len()) == (n == s2.len()),
    ensures is_first_cut(s2, min, max, mask, poly, n),
{
    if s1.len() >= min {
        assert forall|q: int| min <= q <= n implies cut_ok(s1, min, q, mask, poly) == cut_ok(s2, min, q, mask, poly) by {
            assert(s1.subrange(0, q) =~= s1.subrange(0, n).subrange(0, q));
            assert(s2.subrange(0, q) =~= s2.subrange(0, n).subrange(0, q));
            lemma_win_prefix(s1, s2, min, q);
        }
    }
}

// L06.b  from 64 bytes past the minimum on, the window is exactly the most recent 64 bytes
pub proof fn lemma_win_is_last_64(s: Seq<u8>, min: int, p: int)
    requires 0 <= min, min + 64 <= p <= s.len(),
    ensures win(s, min, p) == s.subrange(p - 64, p),
{
    lemma_win_shape(s, min, p, 64);
}

// after k slides (1 <= k <= 64) the last k window bytes are the last k stream bytes and len is 64
pub proof fn lemma_win_shape(s: Seq<u8>, min: int, p: int, k: int)
    requires 0 <= min, 0 <= k <= 64, min + k <= p <= s.len(),
    ensures win(s, min, p).len() == 64, win(s, min, p).subrange(64 - k, 64) == s.subrange(p - k, p),
    decreases k
{
    lemma_win_len(s, min, p);
    if k == 0 {
        assert(win(s, min, p).subrange(64, 64) =~= s.subrange(p, p));
    } else {
        lemma_win_shape(s, min, p - 1, k - 1);
        let w0 = win(s, min, p - 1);
        let w1 = win(s, min, p);
        assert(w1 == w0.subrange(1, 64).push(s[p - 1]));
        assert forall|i: int| 0 <= i < k implies #[trigger] w1.subrange(64 - k, 64)[i] == s.subrange(p - k, p)[i] by {
            if i < k - 1 {
                assert(w1[64 - k + i] == w0[64 - k + i + 1]);
                assert(w0.subrange(64 - (k - 1), 64)[i] == s.subrange(p - 1 - (k - 1), p - 1)[i]);
            }
        }
        assert(w1.subrange(64 - k, 64) =~= s.subrange(p - k, p));
    }
}

pub proof fn lemma_win_len(s: Seq<u8>, min: int, p: int)
    requires 0 <= min <= p <= s.len(),
    ensures win(s, min, p).len() == 64,
    decreases p - min
{
    if p <= min {
    } else {
        lemma_win_len(s, min, p - 1);
    }
}

