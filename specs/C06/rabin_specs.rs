// ===== C06: hand-written specification over the extracted rabin::ChunkIter =====

// parameter triples the library accepts (taken from the property: "all accepted parameters")
pub open spec fn rabin_params_ok(size: usize, min: usize, max: usize) -> bool {
    &&& size != 0 && (size & ((size - 1) as usize)) == 0     // power of two
    &&& 1 <= min <= size <= max
}

#[verifier::external_body]
pub fn vzeroed_vec(n: usize) -> (v: Vec<u8>)
    ensures v@.len() == n, forall|i: int| 0 <= i < n ==> v@[i] == 0u8,
{ unimplemented!() }

impl<R: VReader> ChunkIter<R> {
    // the bytes this chunker has not yet handed out: unread part of its buffer, then the reader's rest
    spec fn stream(&self) -> Seq<u8> {
        self.buf@.subrange(self.pos as int, self.buf@.len() as int) + self.reader.remaining()
    }

    spec fn wf_core(&self) -> bool {
        &&& self.pos <= self.buf@.len()
        &&& 1 <= self.buf@.len()
        &&& 1 <= self.min_size <= self.max_size
    }

    spec fn wf(&self) -> bool {
        &&& self.wf_core()
        &&& (self.finished ==> self.stream().len() == 0)
    }

    spec fn same_params(&self, o: Self) -> bool {
        &&& self.min_size == o.min_size
        &&& self.max_size == o.max_size
        &&& self.split_mask == o.split_mask
        &&& self.rabin.poly@ == o.rabin.poly@
    }
}
