"""C06 — chunking is a lossless, bounded, content-defined partition.

Units (all extracted verbatim from /repo on every run):
  constants        chunker/rabin.rs  mod constants
  RabinChunkIter   chunker/rabin.rs  struct ChunkIter
  check_rabin_params
  rabin_new        ChunkIter::new
  rabin_next       <ChunkIter as Iterator>::next
  FixedChunkIter   chunker/fixed_size.rs struct ChunkIter (renamed in the wrapper module)
  fixed_next       <fixed_size::ChunkIter as Iterator>::next
"""
from tools.extract import Unit, Rw

PROPERTY = "C06"
PRELUDE = ["../common/base.rs", "../common/io.rs", "prelude.rs", "rabin_specs.rs", "fixed_specs.rs"]

RABIN = "crates/core/src/chunker/rabin.rs"
FIXED = "crates/core/src/chunker/fixed_size.rs"

R_ERR = lambda n=None: Rw("", "verr()", count=None, kind="err", optional=True, why="RusticError construction (error kind/message/context dropped)")
R_TAKE = Rw(r"\(&mut self\.reader\)\s*\.take\((?P<n>[^()]*(?:\([^()]*\))?[^()]*)\)\s*\.read_to_end\(&mut vec\)",
            r"vstd_take_read_to_end(&mut self.reader, \g<n>, &mut vec)", regex=True,
            why="std::io::Read::take + read_to_end (assumed contract in common/io.rs)")

UNITS = [
    Unit(name="constants", file=RABIN, kind="type", anchor="pub(super) mod constants {",
         rewrites=[Rw("pub(super)", "pub", count=None, why="single-file crate: pub(super) at crate root is not allowed; visibility only")]),

    Unit(name="RabinChunkIter", file=RABIN, kind="type", anchor="pub(crate) struct ChunkIter<R: Read + Send> {",
         rewrites=[Rw("R: Read + Send", "R: VReader", why="std::io::Read -> abstract stream trait VReader (Send dropped)")]),

    Unit(name="check_rabin_params", file=RABIN, anchor="pub(crate) fn check_rabin_params(", ret_name="r",
         rewrites=[R_ERR(3)],
         functions=["chunker::rabin::check_rabin_params"],
         contract="""
    ensures
        /*@accepts_iff*/ r.is_ok() <==> rabin_params_ok(chunk_size, chunk_min_size, chunk_max_size),
""",
         ),

    Unit(name="rabin_new", file=RABIN, anchor="pub(crate) fn new(", within="impl<R: Read + Send> ChunkIter<R> {", ret_name="r",
         wrap_open="impl<R: VReader> ChunkIter<R> {", wrap_close="}",
         functions=["chunker::rabin::ChunkIter::new"],
         rewrites=[Rw("chunk_size.try_into().unwrap()", "(chunk_size as u64)", why="usize->u64 TryInto (lossless on 64-bit; usize is fixed to 8 bytes in the prelude)"),
                   Rw("vec![0; constants::BUF_SIZE]", "vzeroed_vec(constants::BUF_SIZE)", why="vec! macro -> stub returning a zero-filled Vec of that length")],
         contract="""
    ensures
        /*@new_accepts_iff*/ r.is_ok() <==> rabin_params_ok(chunk_size, chunk_min_size, chunk_max_size),
        /*@new_wf*/ match r {
            Ok(c) => {
                &&& c.wf()
                &&& c.stream() == reader.remaining()
                &&& c.min_size == chunk_min_size && c.max_size == chunk_max_size
                &&& c.split_mask == (chunk_size - 1) as u64
                &&& c.rabin.poly@ == rabin.poly@
                &&& !c.finished
            },
            Err(_) => true,
        },
""",
         ),

    Unit(name="rabin_next", file=RABIN, anchor="fn next(&mut self)", within="impl<R: Read + Send> Iterator for ChunkIter<R> {", ret_name="ret",
         wrap_open="impl<R: VReader> ChunkIter<R> {", wrap_close="}",
         attrs="#[verifier::exec_allows_no_decreases_clause]",
         functions=["<chunker::rabin::ChunkIter as Iterator>::next"],
         rewrites=[
             Rw("Self::Item", "RusticResult<Vec<u8>>", sig=True, why="trait impl -> inherent impl (associated type spelled out)"),
             R_TAKE,
             R_ERR(2),
             Rw("self.rabin.reset();", "vcdc_reset(&mut self.rabin);", why="rustic_cdc::Rabin64::reset (assumed contract in C06/prelude.rs)"),
             Rw(r"_ = self\s*\.rabin\s*\.prefill_window\(&mut vec\[(?P<a>.+?)\.\.(?P<b>.+?)\]\.iter\(\)\.copied\(\)\);",
                r"vcdc_prefill_window(&mut self.rabin, &vec, \g<a>, \g<b>);", regex=True,
                why="rustic_cdc::Rabin64::prefill_window (assumed contract in C06/prelude.rs); index expressions kept verbatim"),
             Rw(r"_ = self\s*\.rabin\s*\.reset_and_prefill_window\(&mut vec\[(?P<a>.+?)\.\.(?P<b>.+?)\]\.iter\(\)\.copied\(\)\);",
                r"vcdc_reset_and_prefill_window(&mut self.rabin, &vec, \g<a>, \g<b>);", regex=True,
                why="rustic_cdc::Rabin64::reset_and_prefill_window (not used by the pinned tree; its real contract -- stale ring bytes survive -- is in C06/prelude.rs so that switching to it is judged, not rejected)"),
             Rw("self.reader.read(&mut self.buf[..])", "vstd_read(&mut self.reader, &mut self.buf)", why="std::io::Read::read (assumed contract)"),
             Rw("e.kind() == io::ErrorKind::Interrupted", "vstd_is_interrupted(e)", why="io::Error::kind"),
             Rw("self.rabin.slide(byte);", "vcdc_slide(&mut self.rabin, byte);", why="rustic_cdc::Rabin64::slide (assumed contract)"),
         ],
         contract="""
    requires
        old(self).wf(),
    ensures
        /*@wf_preserved*/ final(self).wf(),
        /*@params_frame*/ final(self).same_params(*old(self)),
        /*@none_only_at_end*/ ret is None ==> old(self).stream().len() == 0 && final(self).stream().len() == 0,
        /*@partition*/ ret matches Some(Ok(v)) ==> v@ + final(self).stream() == old(self).stream(),
        /*@nonempty*/ ret matches Some(Ok(v)) ==> 1 <= v@.len(),
        /*@max_bound*/ ret matches Some(Ok(v)) ==> v@.len() <= old(self).max_size,
        /*@min_bound_unless_last*/ ret matches Some(Ok(v)) ==> (v@.len() < old(self).min_size ==> final(self).stream().len() == 0),
        /*@cut_at_first_fingerprint_hit*/ ret matches Some(Ok(v)) ==>
            is_first_cut(old(self).stream(), old(self).min_size as int, old(self).max_size as int,
                         old(self).split_mask, old(self).rabin.poly@, v@.len() as int),
""",
         loops={1: """
            invariant
                self.wf_core(),
                self.same_params(*old(self)),
                !old(self).finished,
                self.rabin.inv(),
                self.min_size <= vec@.len() <= self.max_size,
                vec@ + self.stream() == old(self).stream(),
                self.rabin.window@ == win(old(self).stream(), self.min_size as int, vec@.len() as int),
                forall|q: int| self.min_size <= q < vec@.len() ==> !cut_ok(old(self).stream(), self.min_size as int, q, self.split_mask, self.rabin.poly@),
                self.finished ==> self.stream().len() == 0,
            ensures
                vec@.len() == self.max_size || cut_ok(old(self).stream(), self.min_size as int, vec@.len() as int, self.split_mask, self.rabin.poly@) || self.stream().len() == 0,
"""},
         hints=[
             ("before", "loop {", "        proof {\n            let ghost s = old(self).stream();\n            assert(vec@ =~= s.subrange(0, vec@.len() as int));\n            assert(vec@.subrange(sat_sub64(vec@.len() as int), vec@.len() as int) =~= s.subrange(sat_sub64(self.min_size as int), self.min_size as int));\n        }"),
             ("before", "let size = match", "        let ghost s0 = self.stream();\n        let ghost vec0 = vec@;\n        assert(vec0 + s0 =~= old(self).stream());"),
         ],
         canary="""
proof fn canary_rabin_next<R: VReader>(c: ChunkIter<R>)
    requires c.wf(), !c.finished, c.stream().len() > 0
    ensures false
{}
""",
         ),
]

UNITS += [
    Unit(name="FixedChunkIter", file=FIXED, kind="type", anchor="pub(crate) struct ChunkIter<R: Read + Send> {",
         rewrites=[Rw("struct ChunkIter<R: Read + Send>", "struct FixedChunkIter<R: VReader>",
                      why="name disambiguation (two ChunkIter types in one file) and Read -> VReader")]),

    Unit(name="fixed_new", file=FIXED, anchor="pub(crate) fn new(", within="impl<R: Read + Send> ChunkIter<R> {", ret_name="c",
         wrap_open="impl<R: VReader> FixedChunkIter<R> {", wrap_close="}",
         functions=["chunker::fixed_size::ChunkIter::new"],
         contract="""
    ensures
        /*@fixed_new*/ c.size == size && !c.finished && c.stream() == reader.remaining(),
""",
         ),

    Unit(name="fixed_next", file=FIXED, anchor="fn next(&mut self)", within="impl<R: Read + Send> Iterator for ChunkIter<R> {", ret_name="ret",
         wrap_open="impl<R: VReader> FixedChunkIter<R> {", wrap_close="}",
         functions=["<chunker::fixed_size::ChunkIter as Iterator>::next"],
         rewrites=[
             Rw("Self::Item", "RusticResult<Vec<u8>>", sig=True, why="trait impl -> inherent impl"),
             R_TAKE,
             Rw(r"self\.reader\.read\(&mut (?P<b>\w+)\)", r"vstd_read(&mut self.reader, &mut \g<b>)", regex=True, count=None, optional=True, why="std::io::Read::read into a whole Vec (assumed contract: any prefix, 0 only at the end or for an empty buffer)"),
             Rw(r"vec!\[0; (?P<n>[^\]]+)\]", r"vzeroed_vec(\g<n>)", regex=True, count=None, optional=True, why="vec! macro -> stub returning a zero-filled Vec of that length"),
             R_ERR(),
         ],
         contract="""
    requires
        old(self).wf(),
    ensures
        /*@fixed_wf_preserved*/ final(self).wf(),
        /*@fixed_size_frame*/ final(self).size == old(self).size,
        /*@fixed_none_only_at_end*/ ret is None ==> old(self).stream().len() == 0 && final(self).stream().len() == 0,
        /*@fixed_partition*/ ret matches Some(Ok(v)) ==> v@ + final(self).stream() == old(self).stream(),
        /*@fixed_nonempty*/ ret matches Some(Ok(v)) ==> 1 <= v@.len() <= old(self).size,
        /*@fixed_exact_len*/ ret matches Some(Ok(v)) ==> v@.len() == (if old(self).stream().len() < old(self).size { old(self).stream().len() } else { old(self).size as nat }),
        /*@fixed_short_only_last*/ ret matches Some(Ok(v)) ==> (v@.len() < old(self).size ==> final(self).stream().len() == 0),
""",
         canary="""
proof fn canary_fixed_next<R: VReader>(c: FixedChunkIter<R>)
    requires c.wf(), !c.finished, c.stream().len() > 0
    ensures false
{}
""",
         ),

    Unit(name="random_poly", file=RABIN, anchor="pub fn random_poly()", ret_name="r",
         functions=["chunker::rabin::random_poly (shape of the returned value only)"],
         rewrites=[
             Rw("rng().random()", "vrand_u64()", why="rand::rng().random() -> arbitrary u64"),
             Rw("poly.irreducible()", "virreducible(poly)", why="PolynomExtend::irreducible (Ben-Or test) left unverified: uninterpreted predicate"),
             R_ERR(),
         ],
         contract="""
    ensures
        /*@poly_shape*/ r matches Ok(p) ==> (p >> 54) == 0 && (p & (1u64 << 53)) != 0 && (p & 1) == 1 && irreducible_spec(p),
""",
         loops={1: """
            invariant true,
"""},
         hints=[
             ("before", "poly &= (1 << 54) - 1;", "            let ghost p0 = poly;\n            assert((1u64 << 54) == 0x40_0000_0000_0000u64) by (bit_vector);"),
             ("after", "poly &= (1 << 54) - 1;", "            assert((poly >> 54) == 0) by (bit_vector) requires poly == p0 & 0x3F_FFFF_FFFF_FFFFu64;\n            let ghost p1 = poly;"),
             ("before", "if virreducible(poly)", "            assert((poly >> 54) == 0 && (poly & (1u64 << 53)) != 0 && (poly & 1) == 1) by (bit_vector)\n                requires poly == (p1 | ((1u64 << 53) | 1)), (p1 >> 54) == 0;"),
         ],
         ),
]

KANI = []

META = {
    "title": "Chunking is a lossless, bounded, content-defined partition",
    "not_covered": [
        "irreducibility of random_poly (Ben-Or test, gcd/mulmod/qp): number theory, unverified",
        "ChunkIter::from_config dispatch and the callers in archiver/file_archiver.rs",
        "rustic_cdc::Rabin64 implementation (assumed contract)",
    ],
}
