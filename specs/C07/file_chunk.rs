// ===== C07/C01: the per-chunk closure of FileArchiver::backup_reader -- hash, skip-upload decision, hand-over =====
#[derive(Clone, Copy, PartialEq, Eq, Structural)]
pub struct DataId(pub u64);
pub struct IdH(pub u64);
// crypto::hasher::hash: SHA-256 of the chunk (uninterpreted SHA of C01's prelude)
#[verifier::external_body]
pub fn hash(d: &Vec<u8>) -> (r: IdH) ensures r.0 == SHA(d@), { unimplemented!() }
pub fn vdataid_from(i: &IdH) -> (r: DataId) ensures r.0 == i.0, { DataId(i.0) }
#[verifier::external_body]
pub fn vblobid_from_hash(i: &IdH) -> (r: BlobId) ensures blobid_raw(r) == i.0, { unimplemented!() }
pub uninterp spec fn blobid_raw(b: BlobId) -> u64;
#[verifier::external_body]
pub fn vbytes_of_chunk(v: Vec<u8>) -> (r: Bytes) ensures r.data@ == v@, { unimplemented!() }
// the global index as far as has_data goes (what was in the repository when the run started)
pub struct VDataIndex { pub _opaque: u64 }
impl VDataIndex {
    pub uninterp spec fn data(&self) -> Set<DataId>;
    #[verifier::external_body]
    pub fn has_data(&self, id: &DataId) -> (r: bool) ensures r == self.data().contains(*id), { unimplemented!() }
}
// a fact only the hand-over to the data packer produces
pub uninterp spec fn HANDED(raw_id: u64, bytes: Seq<u8>) -> bool;
pub struct VDataPacker { pub _opaque: u64 }
impl VDataPacker {
    // Packer::add (channel send).  EFFECTS AS PRECONDITIONS: a chunk is handed over under the hash of its own bytes, and only
    // if the repository does not have it yet (`known` = the answer of the global index for this id)
    #[verifier::external_body]
    pub fn vadd(&self, data: Bytes, id: BlobId, Ghost(known): Ghost<bool>) -> (r: RusticResult<()>)
        requires blobid_raw(id) == SHA(data.data@), !known,
        ensures r is Ok ==> HANDED(blobid_raw(id), data.data@),
    { unimplemented!() }
}
pub struct VFileArchiverC { pub index: VDataIndex, pub data_packer: VDataPacker }
pub struct ProgressF { pub _opaque: u64 }
impl ProgressF {
    #[verifier::external_body]
    pub fn inc(&self, n: u64) { unimplemented!() }
}
