impl<BE: DecryptWriteBackend> Indexer<BE> {
    // save()/reset(): writing the collected index file and starting a new one; neither touches `indexed`
    #[verifier::external_body]
    pub fn save(&self) -> (r: RusticResult<()>) { unimplemented!() }
    #[verifier::external_body]
    pub fn reset(&mut self)
        ensures final(self).indexed == old(self).indexed,
    { unimplemented!() }
}
