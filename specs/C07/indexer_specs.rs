// (Indexer::save is an extracted unit now)
