impl<BE: DecryptWriteBackend> Indexer<BE> {
    // save(): writes the collected index file (takes &self: cannot touch `indexed`); reset() is a unit of its own
    #[verifier::external_body]
    pub fn save(&self) -> (r: RusticResult<()>) { unimplemented!() }
}
