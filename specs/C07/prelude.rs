// ===== C07 prelude =====
#[derive(Clone, Copy, PartialEq, Eq, Structural)]
pub struct BlobId(pub u64);   // id abstracted to a key
#[derive(Clone, Copy, PartialEq, Eq, Structural)]
pub enum BlobType { Tree, Data }
pub struct BlobLocation { pub offset: u32, pub length: u32 }
pub struct IndexBlob { pub id: BlobId, pub tpe: BlobType, pub location: BlobLocation }
pub struct IndexPack { pub blobs: Vec<IndexBlob> }
pub trait DecryptWriteBackend: Clone {
    // be.save_file(&index_file): serialise, encrypt, store under its hash
    fn save_file(&self, f: &IndexFile) -> (r: RusticResult<IndexId>)
        ensures r is Ok ==> INDEX_SAVED(f.packs@, f.packs_to_delete@);
}

// std BTreeSet<(BlobType, BlobId)> as a mathematical set (ASSUMED contract of insert / contains)
pub struct BTreeSet<T> { pub s: Ghost<Set<T>> }
impl<T> BTreeSet<T> {
    #[verifier::external_body]
    pub fn new() -> (r: Self) ensures r.s@ == Set::<T>::empty(), { unimplemented!() }
    #[verifier::external_body]
    pub fn insert(&mut self, x: T) -> (r: bool) ensures final(self).s@ == old(self).s@.insert(x), { unimplemented!() }
    #[verifier::external_body]
    pub fn contains(&self, x: &T) -> (r: bool) ensures r == self.s@.contains(*x), { unimplemented!() }
    #[verifier::external_body]
    pub fn clear(&mut self) ensures final(self).s@ == Set::<T>::empty(), { unimplemented!() }
    #[verifier::external_body]
    pub fn remove(&mut self, x: &T) -> (r: bool) ensures final(self).s@ == old(self).s@.remove(*x), { unimplemented!() }
}

pub struct IndexId { pub _opaque: u64 }
impl IndexFile {
    // #[derive(Default)] (dropped by extraction): the empty index file
    #[verifier::external_body]
    pub fn default() -> (r: IndexFile) ensures r.packs@.len() == 0 && r.packs_to_delete@.len() == 0, { unimplemented!() }
}
// "this index file content was written to the repository": a fact only save_file can produce
pub uninterp spec fn INDEX_SAVED(packs: Seq<IndexPack>, marked: Seq<IndexPack>) -> bool;
pub struct SystemTime { pub _opaque: u64 }
impl SystemTime {
    #[verifier::external_body]
    pub fn now() -> (r: SystemTime) { unimplemented!() }
}
// `self.created.elapsed().unwrap_or_else(..)` compared with MAX_AGE: an arbitrary boolean
#[verifier::external_body]
pub fn vtoo_old(t: &SystemTime) -> (r: bool) { unimplemented!() }

// blobs of a pack as typed identities
pub open spec fn typed_ids(blobs: Seq<IndexBlob>, n: int) -> Set<(BlobType, BlobId)>
    decreases n
{
    if n <= 0 { Set::empty() } else { typed_ids(blobs, n - 1).insert((blobs[n - 1].tpe, blobs[n - 1].id)) }
}

// ---- Packer::add_raw (used by repack / copy): a blob reaches the raw packer only if the shared indexer does not
//      already have it UNDER THE PACKER'S OWN TYPE ----
pub struct Bytes { pub data: Ghost<Seq<u8>> }
pub type NonZeroU32 = u32;
// Arc<RwLock<Indexer<BE>>>: `.read().unwrap()` gives shared access to the indexer
pub struct SharedIndexer<BE: DecryptWriteBackend> { pub inner: Indexer<BE> }
impl<BE: DecryptWriteBackend> SharedIndexer<BE> {
    #[verifier::external_body]
    pub fn vread(&self) -> (r: &Indexer<BE>) ensures *r == self.inner, { unimplemented!() }
}
// Indexer::into_shared: Arc<RwLock<_>> around the very same indexer
#[verifier::external_body]
pub fn vinto_shared<BE: DecryptWriteBackend>(ix: Indexer<BE>) -> (r: SharedIndexer<BE>) ensures r.inner == ix, { unimplemented!() }
// be.clone(): another handle to the same backend
#[verifier::external_body]
pub fn vclone_be<BE: DecryptWriteBackend>(be: &BE) -> BE { unimplemented!() }
pub struct VRawShared { pub _opaque: u64 }
impl VRawShared {
    // raw_packer.write().unwrap().add_raw(..): EFFECT AS PRECONDITION -- `known` is the indexer's dedup set at the call
    #[verifier::external_body]
    pub fn vadd_raw(&self, data: Bytes, id: &BlobId, data_len: u64, uncompressed_length: Option<NonZeroU32>,
                    Ghost(known): Ghost<Option<Set<(BlobType, BlobId)>>>, Ghost(tpe): Ghost<BlobType>) -> (r: RusticResult<()>)
        requires known matches Some(s) ==> !s.contains((tpe, *id)),
    { unimplemented!() }
}
pub struct Packer<BE: DecryptWriteBackend> { pub raw_packer: VRawShared, pub indexer: SharedIndexer<BE>, pub blob_type: BlobType }
pub open spec fn known_set<BE: DecryptWriteBackend>(ix: Indexer<BE>) -> Option<Set<(BlobType, BlobId)>> { match ix.indexed { Some(s) => Some(s.s@), None => None } }

// after a successful add: the pack sits in the open index file in the right section, or the file was written with it and a new one started
pub open spec fn listed_or_saved<BE: DecryptWriteBackend>(o: Indexer<BE>, n: Indexer<BE>, pack: IndexPack, delete: bool) -> bool {
    let packs = if delete { o.file.packs@ } else { o.file.packs@.push(pack) };
    let marked = if delete { o.file.packs_to_delete@.push(pack) } else { o.file.packs_to_delete@ };
    ||| (n.file.packs@ == packs && n.file.packs_to_delete@ == marked)
    ||| (INDEX_SAVED(packs, marked) && n.file.packs@.len() == 0 && n.file.packs_to_delete@.len() == 0)
}

// ---- the second and third 'already there' filters of the packer thread ----
// the raw packer behind its RwLock: the ids of the blobs in the pack that is currently being filled
// (RawPacker::has is a unit of C08: membership in the open pack's index entry)
pub struct VRawPackerF { pub open: Ghost<Set<BlobId>> }
impl VRawPackerF {
    #[verifier::external_body]
    pub fn has(&self, id: &BlobId) -> (r: bool) ensures r == self.open@.contains(*id), { unimplemented!() }
}
pub struct VRawPackerLockF { pub inner: VRawPackerF }
impl VRawPackerLockF {
    #[verifier::external_body]
    pub fn vread(&self) -> (r: &VRawPackerF) ensures *r == self.inner, { unimplemented!() }
}
pub struct VProcessedF { pub _opaque: u64 }
