"""C07 — identical content is stored once; a blob is identified by its type together with its hash."""
from tools.extract import Unit, Rw
from tools.krun import Harness

PROPERTY = "C07"
PRELUDE = ["../common/base.rs", "prelude.rs", "indexer_specs.rs", "../C01/tree_archiver.rs", "file_chunk.rs"]
IX = "crates/core/src/index/indexer.rs"
W = dict(wrap_open="impl<BE: DecryptWriteBackend> Indexer<BE> {", wrap_close="}")
R_DISCARD = Rw(r"(?m)^(\s*)_ = ", r"\1let _ = ", regex=True, count=None, optional=True, why="`_ = e;` -> `let _ = e;`")

UNITS = [
    Unit(name="indexer_constants", file=IX, kind="type", anchor="pub(super) mod constants {",
         rewrites=[Rw("pub(super)", "pub", count=None, why="visibility only"),
                   Rw("    use std::time::Duration;\n", "\n", why="Duration constant not used by the verified units"),
                   Rw(r"(\s*///[^\n]*\n)*\s*pub const MAX_AGE[^;]*;", "", regex=True, why="Duration constant not used by the verified units")]),
    Unit(name="Indexer", file=IX, kind="type", anchor="pub struct Indexer<BE>"),
    Unit(name="indexer_new", file=IX, anchor="pub fn new(be: BE) -> Self", within="impl<BE: DecryptWriteBackend> Indexer<BE> {", ret_name="r", **W,
         functions=["index::indexer::Indexer::new"],
         contract="\n    ensures /*@new_has_empty_dedup_set*/ r.indexed matches Some(s) && s.s@ == Set::<(BlobType, BlobId)>::empty() && r.count == 0,\n"),
    Unit(name="indexer_new_unindexed", file=IX, anchor="pub fn new_unindexed(be: BE) -> Self", within="impl<BE: DecryptWriteBackend> Indexer<BE> {", ret_name="r", **W,
         functions=["index::indexer::Indexer::new_unindexed"],
         contract="\n    ensures /*@new_unindexed_has_no_dedup_set*/ r.indexed is None && r.count == 0,\n"),
    Unit(name="indexer_reset", file=IX, anchor="pub fn reset(&mut self)", within="impl<BE: DecryptWriteBackend> Indexer<BE> {", **W,
         functions=["index::indexer::Indexer::reset"],
         contract="""
    ensures
        /*@reset_keeps_dedup_memory*/ final(self).indexed == old(self).indexed,
        /*@reset_clears_counter*/ final(self).count == 0,
        /*@reset_starts_an_empty_index_file*/ final(self).file.packs@.len() == 0 && final(self).file.packs_to_delete@.len() == 0,
"""),
    Unit(name="add_with", file=IX, anchor="pub fn add_with(&mut self, pack: IndexPack, delete: bool) -> RusticResult<()>", within="impl<BE: DecryptWriteBackend> Indexer<BE> {", ret_name="r", **W,
         functions=["index::indexer::Indexer::add_with"],
         rewrites=[
             R_DISCARD,
             Rw("for blob in &pack.blobs {", "for blob in it: pack.blobs.iter() {", why="Verus for-loop syntax (ghost iterator name)"),
             Rw(r"let elapsed = self\.created\.elapsed\(\)\.unwrap_or_else\(.*?\}\);", "let too_old = vtoo_old(&self.created);", regex=True,
                why="SystemTime::elapsed + warn closure -> arbitrary boolean 'older than MAX_AGE' (see next rewrite)"),
             Rw("elapsed >= constants::MAX_AGE", "too_old", why="comparison with the Duration constant folded into the stub above"),
         ],
         contract="""
    requires
        old(self).count + pack.blobs@.len() <= usize::MAX, old(self).file.packs@.len() + old(self).file.packs_to_delete@.len() < usize::MAX,
    ensures
        // the pack is listed in the open index file, in the section the flag says, or that file was written out with it
        /*@added_pack_is_listed_or_saved*/ r is Ok ==> listed_or_saved(*old(self), *final(self), pack, delete),
        /*@add_with_registers_typed_ids*/ old(self).indexed matches Some(s0) ==>
            (final(self).indexed matches Some(s1) && s1.s@ == s0.s@.union(typed_ids(pack.blobs@, pack.blobs@.len() as int))),
        /*@add_with_unindexed_stays*/ old(self).indexed is None ==> final(self).indexed is None,
""",
         loops={1: """
                invariant
                    indexed.s@ =~= old(self).indexed->Some_0.s@.union(typed_ids(pack.blobs@, it.index@)),
"""},
         hints=[("after", "let _ = indexed.insert(", """                proof {
                    let k = it.index@;
                    assert(pack.blobs@[k] == *blob);
                    assert(typed_ids(pack.blobs@, k + 1) == typed_ids(pack.blobs@, k).insert((blob.tpe, blob.id)));
                    assert(indexed.s@ =~= old(self).indexed->Some_0.s@.union(typed_ids(pack.blobs@, k + 1)));
                }""")],
         ),
    Unit(name="indexer_has", file=IX, anchor="pub fn has(&self, tpe: BlobType, id: &BlobId) -> bool", within="impl<BE: DecryptWriteBackend> Indexer<BE> {", ret_name="r", **W,
         functions=["index::indexer::Indexer::has"],
         rewrites=[Rw(r"self\s*\.indexed\s*\.as_ref\(\)\s*\.is_some_and\(\|indexed\| (?P<body>[^\n]*)\)(?=\n)", r"(match self.indexed.as_ref() { Some(indexed) => \g<body>, None => false })", regex=True,
                      why="Option::is_some_and with a closure literal replaced by its definition (match), body verbatim")],
         contract="""
    ensures
        /*@has_is_typed_membership*/ r == (self.indexed matches Some(s) && s.s@.contains((tpe, *id))),
"""),
]

IFP = "crates/core/src/repofile/indexfile.rs"
R_ATTRS = Rw("", "", count=None, kind="attrs", optional=True, why="derive/serde helper attributes removed")
UNITS += [
    Unit(name="IndexFile", file=IFP, kind="type", anchor="pub struct IndexFile {", rewrites=[R_ATTRS]),
    Unit(name="indexfile_add", file=IFP, anchor="pub(crate) fn add(&mut self, p: IndexPack, delete: bool)", within="impl IndexFile {",
         wrap_open="impl IndexFile {", wrap_close="}", functions=["repofile::indexfile::IndexFile::add"],
         contract="""
    ensures
        /*@index_file_sections*/ delete ==> final(self).packs_to_delete@ == old(self).packs_to_delete@.push(p) && final(self).packs@ == old(self).packs@,
        !delete ==> final(self).packs@ == old(self).packs@.push(p) && final(self).packs_to_delete@ == old(self).packs_to_delete@,
"""),
    Unit(name="indexer_save", file=IX, anchor="pub fn save(&self) -> RusticResult<()>", within="impl<BE: DecryptWriteBackend> Indexer<BE> {", ret_name="r", **W,
         functions=["index::indexer::Indexer::save"], rewrites=[R_DISCARD],
         contract="""
    requires self.file.packs@.len() + self.file.packs_to_delete@.len() <= usize::MAX,
    ensures /*@save_writes_a_nonempty_index_file*/ r is Ok && self.file.packs@.len() + self.file.packs_to_delete@.len() > 0 ==> INDEX_SAVED(self.file.packs@, self.file.packs_to_delete@),
"""),
    Unit(name="indexer_finalize", file=IX, anchor="pub fn finalize(&self) -> RusticResult<()>", within="impl<BE: DecryptWriteBackend> Indexer<BE> {", ret_name="r", **W,
         functions=["index::indexer::Indexer::finalize"],
         contract="""
    requires self.file.packs@.len() + self.file.packs_to_delete@.len() <= usize::MAX,
    ensures /*@finalize_writes_what_is_left*/ r is Ok && self.file.packs@.len() + self.file.packs_to_delete@.len() > 0 ==> INDEX_SAVED(self.file.packs@, self.file.packs_to_delete@),
"""),
    Unit(name="indexer_add", file=IX, anchor="pub fn add(&mut self, pack: IndexPack) -> RusticResult<()>", within="impl<BE: DecryptWriteBackend> Indexer<BE> {", ret_name="r", **W,
         functions=["index::indexer::Indexer::add"],
         contract="""
    requires old(self).count + pack.blobs@.len() <= usize::MAX, old(self).file.packs@.len() + old(self).file.packs_to_delete@.len() < usize::MAX,
    ensures /*@add_goes_to_the_live_section*/ r is Ok ==> listed_or_saved(*old(self), *final(self), pack, false),
"""),
    Unit(name="indexer_add_remove", file=IX, anchor="pub fn add_remove(&mut self, pack: IndexPack) -> RusticResult<()>", within="impl<BE: DecryptWriteBackend> Indexer<BE> {", ret_name="r", **W,
         functions=["index::indexer::Indexer::add_remove"],
         contract="""
    requires old(self).count + pack.blobs@.len() <= usize::MAX, old(self).file.packs@.len() + old(self).file.packs_to_delete@.len() < usize::MAX,
    ensures /*@add_remove_goes_to_the_marked_section*/ r is Ok ==> listed_or_saved(*old(self), *final(self), pack, true),
"""),
]

# ---- the skip-upload decision of the tree archiver (same unit as C01.ta_backup_tree; here for its dedup clause)
TA = "crates/core/src/archiver/tree_archiver.rs"
TRF = "crates/core/src/blob/tree.rs"
R_ERR7 = Rw("", "verr()", count=None, kind="err", why="RusticError construction (kind/message/context dropped)")
R_MAPERR7 = Rw("", "", count=None, kind="maperr", why=".map_err(<error building closure>) -> .vmap_err()")
UNITS += [
    Unit(name="ParentResult", file="crates/core/src/archiver/parent.rs", kind="type", anchor="pub(crate) enum ParentResult<T> {", rewrites=[R_ATTRS]),
    Unit(name="TreeType", file="crates/core/src/archiver/tree.rs", kind="type", anchor="pub(crate) enum TreeType<T, U> {",
         rewrites=[R_ATTRS, Rw("PathBuf", "PathR", count=None, why="PathBuf -> opaque path stub")]),
    Unit(name="ta_backup_tree", file=TA, anchor="fn backup_tree(&mut self, path: &Path, parent: &ParentResult<TreeId>) -> RusticResult<TreeId>", ret_name="r",
         wrap_open="impl TreeArchiver {", wrap_close="}",
         functions=["archiver::tree_archiver::TreeArchiver::backup_tree"],
         rewrites=[R_MAPERR7, R_ERR7,
                   Rw("path: &Path,", "path: &PathR,", sig=True, why="Path -> opaque path stub"),
                   Rw("let dirsize_bytes = ByteSize(dirsize).display().iec().to_string();", "let dirsize_bytes = ();", why="human-readable size, used only in the removed log lines"),
                   Rw("self.tree_packer.add(chunk.into(), id.into())?;", "self.tree_packer.vadd(chunk, id)?;", why="Packer::add (channel to the packer thread) -> effect log; conversions dropped"),
         ],
         contract="""
    requires counters_have_room(old(self).summary, TREE_SER(old(self).tree.nodes@).len() as int),
    ensures
        // identical content is stored once: a tree blob the index already has is not handed to the packer again,
        // whatever the parent comparison said
        /*@known_tree_is_not_stored_again*/ old(self).index.trees().contains(tree_id_of(old(self).tree.nodes@)) ==> final(self).tree_packer.added@ == old(self).tree_packer.added@,
        /*@unknown_changed_tree_is_stored*/ r matches Ok(id) ==> (*parent matches ParentResult::Matched(p) && p == id) || old(self).index.trees().contains(id)
            || final(self).tree_packer.added@ == old(self).tree_packer.added@.push((TREE_SER(old(self).tree.nodes@), id)),
"""),
]

PKR = "crates/core/src/blob/packer.rs"
UNITS += [
    Unit(name="packer_add_raw", file=PKR, anchor="fn add_raw(\n        &self,", within="impl<BE: DecryptWriteBackend> Packer<BE> {", ret_name="r",
         wrap_open="impl<BE: DecryptWriteBackend> Packer<BE> {", wrap_close="}",
         functions=["blob::packer::Packer::add_raw"],
         rewrites=[
             Rw("self.indexer.read().unwrap()", "self.indexer.vread()", why="RwLock read guard -> shared reference"),
             Rw(r"self\.raw_packer\s*\.write\(\)\s*\.unwrap\(\)\s*\.add_raw\(data, id, data_len, uncompressed_length\)",
                "self.raw_packer.vadd_raw(data, id, data_len, uncompressed_length, Ghost(known_set(self.indexer.inner)), Ghost(self.blob_type))", regex=True,
                why="RwLock write guard + RawPacker::add_raw -> effectful stub whose PRECONDITION is 'not already indexed under this packer's type'"),
         ],
         contract="\n    // obligation (implicit, precondition of vadd_raw): only blobs the indexer does not have under (self.blob_type, id) are packed again\n"),
]

# ---- the 'already indexed' filters of the Packer::new pipeline (closure bodies): a blob is dropped exactly when the shared
#      indexer already has it UNDER THIS PACKER'S TYPE (a blob of the other type with the same id must pass)
UNITS += [
    Unit(name="packer_filter_early", file=PKR, kind="block", within="impl<BE: DecryptWriteBackend> Packer<BE> {",
         anchor="@closure:#1:.filter(|(_, id)|",
         block_sig="fn packer_filter_early<BE: DecryptWriteBackend>(indexer: &SharedIndexer<BE>, blob_type: BlobType, id: &BlobId) -> (r: bool)",
         block_tail="",
         functions=["blob::packer::Packer::new (first filter of the packer thread: blob already indexed in this run?)"],
         rewrites=[Rw("indexer.read().unwrap()", "indexer.vread()", why="RwLock read guard -> shared reference")],
         contract="""
    ensures /*@filter_drops_exactly_the_blobs_indexed_under_this_type*/ r == !(known_set(indexer.inner) matches Some(s) && s.contains((blob_type, *id))),
"""),
]

UNITS += [
    Unit(name="packer_filter_open_pack", file=PKR, kind="block", within="impl<BE: DecryptWriteBackend> Packer<BE> {",
         anchor="@closure:#2:.filter(|(_, id)|",
         block_sig="fn packer_filter_open_pack(raw_packer: &VRawPackerLockF, id: &BlobId) -> (r: bool)",
         block_tail="",
         functions=["blob::packer::Packer::new (second filter of the packer thread: blob already in the pack being filled?)"],
         rewrites=[Rw("raw_packer.read().unwrap()", "raw_packer.vread()", why="RwLock read guard -> shared reference")],
         contract="""
    ensures /*@filter_drops_exactly_the_blobs_of_the_open_pack*/ r == !raw_packer.inner.open@.contains(*id),
"""),
    Unit(name="packer_filter_late", file=PKR, kind="block", within="impl<BE: DecryptWriteBackend> Packer<BE> {",
         anchor="@closure:.filter(|res|",
         block_sig="fn packer_filter_late<BE: DecryptWriteBackend>(indexer: &SharedIndexer<BE>, blob_type: BlobType, res: &RusticResult<(VProcessedF, BlobId, u64, Option<u32>)>) -> (r: bool)",
         block_tail="",
         functions=["blob::packer::Packer::new (third filter of the packer thread, after processing: indexed meanwhile? errors pass)"],
         rewrites=[Rw("indexer.read().unwrap()", "indexer.vread()", why="RwLock read guard -> shared reference"),
                   Rw(r"res\.as_ref\(\)\s*\.map_or_else\(\|_\| (?P<e>\w+), \|\(_, id, _, _\)\| (?P<b>[^;{}]*)\)(?=\s*\}?\s*\Z)", r"(match res { Err(_) => \g<e>, Ok(vt) => { let id = &vt.1; \g<b> } })", regex=True,
                      why="Result::as_ref().map_or_else(|_| e, |(_, id, _, _)| body) -> match (definition; both bodies verbatim)")],
         contract="""
    ensures
        // a processing error is never filtered away (it must reach try_for_each and fail the packer: C03)
        /*@errors_pass_the_late_filter*/ *res is Err ==> r,
        /*@late_filter_drops_exactly_the_blobs_indexed_under_this_type*/ *res matches Ok(t) ==> r == !(known_set(indexer.inner) matches Some(s) && s.contains((blob_type, t.1))),
"""),
]

FA = "crates/core/src/archiver/file_archiver.rs"
UNITS += [
    Unit(name="backup_chunk", file=FA, kind="block", within="fn backup_reader(",
         anchor="@closure:.map(|chunk|",
         block_sig="fn backup_chunk(this: &VFileArchiverC, chunk: RusticResult<Vec<u8>>, p: &ProgressF) -> (r: RusticResult<(DataId, u64)>)",
         block_tail="",
         functions=["archiver::file_archiver::FileArchiver::backup_reader (per-chunk closure: id = hash of the chunk, skip-upload decision, hand-over to the data packer)"],
         rewrites=[
             Rw("self.index", "this.index", why="closure over self -> parameter"),
             Rw("self.data_packer.add(chunk.into(), BlobId::from(id))?", "this.data_packer.vadd(vbytes_of_chunk(chunk), vblobid_from_hash(&id), Ghost(this.index.data().contains(DataId(id.0))))?", why="Packer::add (channel) -> effectful stub: PRECONDITIONS 'id is the hash of these bytes' and 'the index does not have it'"),
             Rw("DataId::from(id)", "vdataid_from(&id)", count=None, why="Id -> DataId (same bytes)"),
         ],
         hints=[("after", "let chunk = chunk?;", "            let ghost cbytes = chunk@;")],
         contract="""
    ensures
        // the content list gets the hash of exactly these bytes with their length, and the bytes are in the repository afterwards:
        // already indexed, or handed to the data packer under that id (and a chunk the index has is not handed over again:
        // precondition of the hand-over)
        /*@chunk_id_is_hash_and_chunk_is_stored*/ r matches Ok(x) ==> chunk matches Ok(c) && x.0.0 == SHA(c@) && x.1 == c@.len()
            && (this.index.data().contains(x.0) || HANDED(x.0.0, c@)),
"""),
]

# ---- which indexer a backup run uses: the one that REMEMBERS what it has indexed (in-run dedup across pack boundaries)
ARC = "crates/core/src/archiver.rs"
UNITS += [
    Unit(name="archiver_indexer", file=ARC, kind="block", within="pub fn new(\n        be: BE,\n        index: &'a I,",
         anchor="let indexer = Indexer::new", block_end="let mut summary = snap.summary.take().unwrap_or_default();",
         block_sig="fn archiver_indexer<BE: DecryptWriteBackend>(be: &BE) -> (r: SharedIndexer<BE>)",
         block_tail="        indexer",
         functions=["archiver::Archiver::new (construction of the indexer shared by the data and the tree packer)"],
         rewrites=[Rw("be.clone()", "vclone_be(be)", why="backend handle clone"),
                   Rw(r"(Indexer::\w+\([^;]*?\))\.into_shared\(\)", r"vinto_shared(\1)", regex=True, why="Indexer::into_shared -> stub wrapping the same indexer")],
         contract="""
    ensures
        // the indexer of a backup run remembers every blob it has indexed (typed), starting from nothing: a chunk or tree that
        // occurs again after its pack was written is recognised and not stored again
        /*@backup_indexer_remembers_indexed_blobs*/ known_set(r.inner) matches Some(s) && s == Set::<(BlobType, BlobId)>::empty(),
"""),
]

KANI = []
# the last line of in-run dedup -- membership in the pack that is being filled (BasicPacker::has / add_raw, RawPacker::has) --
# lives in C08's spec (pack layout) and is verified as part of this property's check as well
SATELLITES = [("C08", "*")]

META = {"not_covered": [
    "the iterator chain around the per-chunk closure of backup_reader (ChunkIter -> map -> collect, the sum of the sizes); the closure itself is the unit backup_chunk, the skip-upload decision of tree_archiver.rs backup_tree is a unit of C01 (ta_backup_tree)",
    "the thread pipeline of Packer::new itself (threads, channels; ABSTRACTED in C03's unit packer_writer_status); its three 'already there' filters ARE units (packer_filter_early / _open_pack / _late; RawPacker::has is a unit of C08)",
    "shift-resilience of chunk boundaries (follows from C06 at the chunk level only)",
]}
