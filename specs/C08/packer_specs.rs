// ===== C08: representation invariant of BasicPacker (a pack under construction) =====
pub open spec fn sum_len(blobs: Seq<IndexBlob>, n: int) -> int
    decreases n
{
    if n <= 0 { 0 } else { sum_len(blobs, n - 1) + blobs[n - 1].location.length as int }
}

impl BasicPacker {
    // blobs are laid out back to back from offset 0; `size` is the number of bytes written; every blob
    // has the packer's type; the index lists exactly `count` blobs
    spec fn inv(&self) -> bool {
        &&& self.size as int == self.file.all@.len()
        &&& self.count as int == self.index.blobs@.len()
        &&& sum_len(self.index.blobs@, self.index.blobs@.len() as int) == self.size as int
        &&& forall|i: int| 0 <= i < self.index.blobs@.len() ==>
                (#[trigger] self.index.blobs@[i]).location.offset as int == sum_len(self.index.blobs@, i)
                && self.index.blobs@[i].tpe == self.blob_type
    }
}

pub proof fn lemma_sum_len_push(blobs: Seq<IndexBlob>, b: IndexBlob, n: int)
    requires 0 <= n <= blobs.len(),
    ensures sum_len(blobs.push(b), n) == sum_len(blobs, n),
    decreases n
{
    if n > 0 {
        lemma_sum_len_push(blobs, b, n - 1);
        assert(blobs.push(b)[n - 1] == blobs[n - 1]);
    }
}

// ---- header size arithmetic (PackHeaderRef::size / pack_size) ----
// one header entry: type(1) + length(4) + id(32) = 37 bytes, plus uncompressed length(4) = 41 for compressed blobs
pub open spec fn entry_len(b: IndexBlob) -> int { if b.location.uncompressed_length is None { 37 } else { 41 } }
pub open spec fn hdr_sum(blobs: Seq<IndexBlob>, n: int) -> int
    decreases n
{
    if n <= 0 { 0 } else { hdr_sum(blobs, n - 1) + entry_len(blobs[n - 1]) }
}
pub proof fn lemma_hdr_sum_mono(blobs: Seq<IndexBlob>, i: int, j: int)
    requires 0 <= i <= j <= blobs.len(),
    ensures 0 <= hdr_sum(blobs, i) <= hdr_sum(blobs, j), 0 <= sum_len(blobs, i) <= sum_len(blobs, j),
    decreases j
{
    if i < j { lemma_hdr_sum_mono(blobs, i, j - 1); } else if i > 0 { lemma_hdr_sum_mono(blobs, i - 1, j - 1); }
}
pub struct PackHeaderRef<'a>(pub &'a [IndexBlob]);
