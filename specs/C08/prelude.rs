// ===== C08 prelude: byte containers and neighbours of BasicPacker =====
#[derive(Clone, Copy, PartialEq, Eq, Structural)]
pub struct BlobId(pub u64);   // id abstracted to a key (only ==/copy are used here)
#[derive(Clone, Copy, PartialEq, Eq, Structural)]
pub struct PackId(pub u64);
#[derive(Clone, Copy, PartialEq, Eq, Structural)]
pub enum BlobType { Tree, Data }
pub type NonZeroU32 = u32;  // std::num::NonZeroU32: only carried around by these units
pub type PackerResult<T> = Result<T, Box<RusticError>>;  // error payloads are opaque

// bytes::Bytes / backend::BytesList with their byte content as ghost sequence (ASSUMED contracts)
pub struct Bytes { pub data: Ghost<Seq<u8>> }
impl Bytes {
    #[verifier::external_body]
    pub fn len(&self) -> (r: usize) ensures r == self.data@.len(), { unimplemented!() }
}
pub struct BytesList { pub all: Ghost<Seq<u8>> }
impl BytesList {
    #[verifier::external_body]
    pub fn add(&mut self, bytes: Bytes) ensures final(self).all@ == old(self).all@ + bytes.data@, { unimplemented!() }
}
#[verifier::external_body]
pub fn vtake_byteslist(b: &mut BytesList) -> (r: BytesList)
    ensures r.all@ == old(b).all@, final(b).all@.len() == 0,
{ unimplemented!() }
#[verifier::external_body]
pub fn vtake_indexpack(p: &mut IndexPack) -> (r: IndexPack)
    ensures r == *old(p), final(p).blobs@.len() == 0,
{ unimplemented!() }
#[verifier::external_body]
pub fn vbytes_from_vec(v: Vec<u8>) -> (r: Bytes) ensures r.data@ == v@, { unimplemented!() }

// little-endian u32, the trailing length field of a pack (PackHeaderLength::to_binary, binrw derive)
pub open spec fn le32(x: u32) -> Seq<u8> {
    seq![(x & 0xff) as u8, ((x >> 8) & 0xff) as u8, ((x >> 16) & 0xff) as u8, ((x >> 24) & 0xff) as u8]
}
#[verifier::external_body]
pub fn vheaderlen_to_binary(x: u32) -> (r: PackerResult<Vec<u8>>)
    ensures r matches Ok(v) ==> v@ == le32(x),
{ unimplemented!() }

pub struct SystemTime { pub _opaque: u64 }
impl SystemTime {
    #[verifier::external_body]
    pub fn now() -> (r: Self) { unimplemented!() }
}

// PackSizer: contracts proved under C18; here only what take_data needs
pub struct PackSizer { pub _opaque: u64 }
impl PackSizer {
    #[verifier::external_body]
    pub fn add_size(&mut self, added: u32) { unimplemented!() }
}

pub struct IndexPack { pub id: PackId, pub blobs: Vec<IndexBlob>, pub size: Option<u32> }
// what IndexPack::pack_size returns (PROVED for the real function by unit indexpack_pack_size, which needs 'no u32 overflow';
// the stub below serves the callers and ASSUMES that precondition)
pub open spec fn pack_size_spec(p: IndexPack) -> u32 {
    match p.size { Some(s) => s, None => (36 + sum_len(p.blobs@, p.blobs@.len() as int) + hdr_sum(p.blobs@, p.blobs@.len() as int)) as u32 }
}
impl IndexPack {
    #[verifier::external_body]
    pub fn pack_size(&self) -> (r: u32) ensures r == pack_size_spec(*self), { unimplemented!() }
}

// Iterator::any over the blob list (closure `|b| &b.id == id`)
#[verifier::external_body]
pub fn vany_blob_id(blobs: &Vec<IndexBlob>, id: &BlobId) -> (r: bool)
    ensures r == exists|i: int| 0 <= i < blobs@.len() && (#[trigger] blobs@[i]).id == *id,
{ unimplemented!() }

// ---- RawPacker::save: neighbours ----
pub trait DecryptWriteBackend {}
// binary pack header of a blob list (PackHeaderRef::to_binary; binrw) -- UNINTERPRETED here, related to the
// entry layout by the bounded Kani harnesses of this property
pub uninterp spec fn HEADER(blobs: Seq<IndexBlob>) -> Seq<u8>;
// ciphertext of the repository key: uninterpreted, 32 bytes longer than the plaintext (nonce 16 + MAC 16)
pub uninterp spec fn ENC(plain: Seq<u8>) -> Seq<u8>;
pub broadcast proof fn axiom_enc_len(plain: Seq<u8>)
    ensures #[trigger] ENC(plain).len() == plain.len() + 32,
{ admit(); }

#[verifier::external_body]
pub fn vheader_to_binary(index: &IndexPack) -> (r: RusticResult<Bytes>)
    ensures r matches Ok(b) ==> b.data@ == HEADER(index.blobs@),
{ unimplemented!() }
#[verifier::external_body]
pub fn vencrypt_to_bytes<BE: DecryptWriteBackend>(be: &BE, data: &Bytes) -> (r: RusticResult<Bytes>)
    ensures r matches Ok(b) ==> b.data@ == ENC(data.data@),
{ unimplemented!() }

// the pack writer (Actor + FileWriterHandle thread) as the log of the index blob lists of the packs handed to it
pub struct Actor { pub sent: Ghost<Seq<Seq<IndexBlob>>> }
impl Actor {
    // waits for the writer thread; an error of any pack write so far is returned here.  WRITER_JOINED(n): a fact only
    // this call can produce (n = packs handed over before, any value: only its existence matters)
    #[verifier::external_body]
    pub fn finalize(self) -> (r: RusticResult<()>) ensures r is Ok ==> forall|n: int| #[trigger] WRITER_JOINED(n), { unimplemented!() }
}
pub uninterp spec fn WRITER_JOINED(n: int) -> bool;
pub open spec fn sent_of(w: Option<Actor>) -> Seq<Seq<IndexBlob>> { match w { Some(a) => a.sent@, None => Seq::empty() } }

// what may be handed to the pack writer: THE property of a finished pack.  The file is the blobs back
// to back at the offsets the index records, then the encrypted header of exactly these blobs, then
// its length as little-endian u32; all blobs have one type.
pub open spec fn sealed_pack(file: Seq<u8>, index: IndexPack, tpe: BlobType) -> bool {
    let blobs = index.blobs@;
    let body = sum_len(blobs, blobs.len() as int);
    let trailer = ENC(HEADER(blobs));
    &&& 0 <= body <= file.len()
    &&& file == file.subrange(0, body) + trailer + le32(trailer.len() as u32)
    &&& trailer.len() <= 0xFFFF_FFFF
    &&& forall|i: int| 0 <= i < blobs.len() ==> (#[trigger] blobs[i]).location.offset as int == sum_len(blobs, i) && blobs[i].tpe == tpe
}

#[verifier::external_body]
pub fn vsend_pack(writer: &mut Option<Actor>, file: BytesList, index: IndexPack, Ghost(tpe): Ghost<BlobType>) -> (r: RusticResult<()>)
    requires sealed_pack(file.all@, index, tpe),
             *old(writer) is Some,   // `.as_ref().unwrap()`: the writer must not have been finalized yet
    ensures *final(writer) is Some,
            r is Ok ==> sent_of(*final(writer)) == sent_of(*old(writer)).push(index.blobs@),
            r is Err ==> sent_of(*final(writer)) == sent_of(*old(writer)),
{ unimplemented!() }
impl BasicPacker {
    // size / count / age limits (SystemTime::elapsed): any answer
    #[verifier::external_body]
    pub fn should_save(&self) -> bool { unimplemented!() }
}
#[verifier::external_body]
pub fn vtake_stats(s: &mut PackerStats) -> (r: PackerStats) ensures r == *old(s), { unimplemented!() }

// ---- PackHeader::from_file: neighbours ----
#[derive(Clone, Copy, PartialEq, Eq, Structural)]
pub enum FileType { Config, Index, Key, Snapshot, Pack }

impl Bytes {
    // bytes::Bytes::split_off(at): self keeps [0, at), the returned value is [at, len); panics if at > len
    #[verifier::external_body]
    pub fn split_off(&mut self, at: usize) -> (r: Bytes)
        requires at <= old(self).data@.len(),
        ensures final(self).data@ == old(self).data@.subrange(0, at as int), r.data@ == old(self).data@.subrange(at as int, old(self).data@.len() as int),
    { unimplemented!() }
}

// the decrypting read backend as seen by from_file: the stored pack file is a ghost byte sequence;
// a ranged read returns exactly the requested range or fails (ASSUMED backend contract, cf. C20)
pub trait DecryptReadBackend {
    spec fn stored(&self, id: PackId) -> Seq<u8>;
    fn read_partial(&self, tpe: FileType, id: &PackId, cacheable: bool, offset: u32, length: u32) -> (r: RusticResult<Bytes>)
        ensures r matches Ok(b) ==> offset + length <= self.stored(*id).len()
                    && b.data@ == self.stored(*id).subrange(offset as int, offset + length);
}

pub uninterp spec fn hsize(h: PackHeader) -> u32;       // PackHeader::size()      (iterator fold; bounded Kani harness)
pub uninterp spec fn hpack_size(h: PackHeader) -> u32;  // PackHeader::pack_size()
impl PackHeader {
    #[verifier::external_body]
    pub fn size(&self) -> (r: u32) ensures r == hsize(*self), { unimplemented!() }
    #[verifier::external_body]
    pub fn pack_size(&self) -> (r: u32) ensures r == hpack_size(*self), { unimplemented!() }
}
// PackHeaderLength::from_binary(..)?.to_u32(): reads a little-endian u32 from the first 4 bytes
#[verifier::external_body]
pub fn vheaderlen_from_binary(data: &Bytes) -> (r: RusticResult<u32>)
    ensures r matches Ok(v) ==> data.data@.len() >= 4 && data.data@.subrange(0, 4) == le32(v),
{ unimplemented!() }
// Self::from_binary(&be.decrypt(&data)?): decrypt + binrw parse, both outside this unit
#[verifier::external_body]
pub fn vdecrypt_and_parse_header<B: DecryptReadBackend>(be: &B, data: &Bytes) -> (r: RusticResult<PackHeader>)
    ensures r matches Ok(h) ==> h == HDR_OF(data.data@),
{ unimplemented!() }
// what decrypting + parsing a byte string as a pack header yields (uninterpreted)
pub uninterp spec fn HDR_OF(bytes: Seq<u8>) -> PackHeader;

// ---- HeaderEntry: neighbours ----
#[derive(Clone, Copy, PartialEq, Eq, Structural)]
pub struct Id(pub u64);
impl BlobId {
    pub fn vinner(&self) -> (r: Id) ensures r.0 == self.0, { Id(self.0) }   // `*blob.id` (Deref BlobId -> Id)
}
pub fn vblobid_from(id: Id) -> (r: BlobId) ensures r.0 == id.0, { BlobId(id.0) }   // `id.into()`
// NonZeroU32::new: None for 0 (NonZeroU32 itself is modelled as u32 with the type invariant != 0 in preconditions)
pub fn vnonzero_new(x: u32) -> (r: Option<u32>) ensures r == (if x == 0 { None::<u32> } else { Some(x) }), { if x == 0 { None } else { Some(x) } }

// ---- PackHeader::from_binary: the entry list read back from the (decrypted) header bytes ----
// binrw: HeaderEntry::read(&mut reader) yields the entries encoded in the bytes one after the other, then EOF
// (the byte layout of one entry is the bounded Kani harness' business; here the parse is a ghost sequence)
pub struct BinErr { pub _opaque: u64 }
impl BinErr {
    #[verifier::external_body]
    pub fn is_eof(&self) -> bool { unimplemented!() }
}
pub struct VEntryCursor { pub rest: Ghost<Seq<HeaderEntry>> }
pub uninterp spec fn ENTRIES(bytes: Seq<u8>) -> Seq<HeaderEntry>;
#[verifier::external_body]
pub fn ventry_cursor(pack: &[u8]) -> (r: VEntryCursor) ensures r.rest@ == ENTRIES(pack@), { unimplemented!() }
#[verifier::external_body]
pub fn vread_entry(reader: &mut VEntryCursor) -> (r: Result<HeaderEntry, BinErr>)
    ensures
        r matches Ok(e) ==> old(reader).rest@.len() > 0 && e == old(reader).rest@[0] && final(reader).rest@ == old(reader).rest@.drop_first(),
        r is Err ==> final(reader).rest@ == old(reader).rest@,
{ unimplemented!() }
pub struct PackFileErrorKindR { pub _opaque: u64 }
#[verifier::external_body]
pub fn vreading_failed(e: BinErr) -> PackFileErrorKindR { unimplemented!() }
pub open spec fn hentry_len(e: HeaderEntry) -> u32 {
    match e { HeaderEntry::Data { len, .. } | HeaderEntry::Tree { len, .. } | HeaderEntry::CompData { len, .. } | HeaderEntry::CompTree { len, .. } => len }
}
pub open spec fn entries_len(es: Seq<HeaderEntry>, n: int) -> int
    decreases n
{
    if n <= 0 { 0 } else { entries_len(es, n - 1) + hentry_len(es[n - 1]) as int }
}
pub proof fn lemma_entries_len_mono(es: Seq<HeaderEntry>, i: int, j: int)
    requires 0 <= i <= j <= es.len(),
    ensures 0 <= entries_len(es, i) <= entries_len(es, j),
    decreases j
{
    if i < j { lemma_entries_len_mono(es, i, j - 1); } else if i > 0 { lemma_entries_len_mono(es, i - 1, j - 1); }
}

// ---- ROUND TRIP over the contracts of the real functions (checked composition, not a new assumption): a blob written into a
//      header entry and read back at its offset is the same index entry -- this is why an index rebuilt from pack headers
//      equals the index that was lost (uncompressed_length is a NonZeroU32: Some(0) cannot occur)
pub fn lemma_header_entry_round_trip(blob: &IndexBlob) -> (r: IndexBlob)
    requires blob.location.uncompressed_length matches Some(u) ==> u != 0,
    ensures r.id.0 == blob.id.0 && r.tpe == blob.tpe && r.location.offset == blob.location.offset && r.location.length == blob.location.length
        && r.location.uncompressed_length == blob.location.uncompressed_length,
{
    HeaderEntry::from_blob(blob).into_blob(blob.location.offset)
}

// ---- Actor::new pipeline: the id under which a pack is written is the SHA-256 of exactly the bytes written ----
pub uninterp spec fn SHA256(d: Seq<u8>) -> u64;
impl BytesList {
    // file.clone().reader(): a reader over the same bytes
    #[verifier::external_body]
    pub fn vclone_reader(&self) -> (r: BytesList) ensures r.all@ == self.all@, { unimplemented!() }
}
// crypto::hasher::hash_reader(reader).expect(..): SHA-256 of everything the reader yields (reading from memory cannot fail)
#[verifier::external_body]
pub fn vhash_reader(r: BytesList) -> (id: Id) ensures id.0 == SHA256(r.all@), { unimplemented!() }
pub fn vpackid_from_id(id: Id) -> (r: PackId) ensures r.0 == id.0, { PackId(id.0) }

// ---- Packer::new pipeline: compress + encrypt of one blob; the blob keeps its id ----
pub uninterp spec fn PROCESSED(plain: Seq<u8>) -> (Seq<u8>, u32, Option<u32>);
pub struct VProcessBe { pub _opaque: u64 }
impl VProcessBe {
    // DecryptWriteBackend::process_data: (compress,) encrypt and (with extra_verify) check; Kani harnesses of C04 cover the read side
    #[verifier::external_body]
    pub fn process_data(&self, data: &Bytes) -> (r: RusticResult<(Vec<u8>, u32, Option<NonZeroU32>)>)
        ensures r matches Ok(x) ==> (x.0@, x.1, x.2) == PROCESSED(data.data@),
    { unimplemented!() }
}
