"""C08 — pack files, their headers and the index always agree."""
from tools.extract import Unit, Rw
from tools.krun import Harness

PROPERTY = "C08"
PRELUDE = ["../common/base.rs", "prelude.rs", "packer_specs.rs"]
PK = "crates/core/src/blob/packer.rs"
IF = "crates/core/src/repofile/indexfile.rs"
BL = "crates/core/src/blob.rs"
PF = "crates/core/src/repofile/packfile.rs"
R_ERR = Rw("", "verr()", count=None, kind="err", optional=True, why="RusticError construction (kind/message/context dropped)")
R_MAPERR = Rw("", "", count=None, kind="maperr", optional=True, why=".map_err(<error building closure>) -> .vmap_err() (Ok value preserved, error opaque)")
R_TRYINTO = Rw(".try_into()", ".vtry_into()", count=None, why="integer TryInto -> extension trait with the TryFrom contract (Ok iff fits)")
R_ATTRS = Rw("", "", count=None, kind="attrs", optional=True, why="derive/serde helper attributes removed")
R_DISCARD = Rw(r"(?m)^(\s*)_ = ", r"\1let _ = ", regex=True, count=None, optional=True, why="`_ = e;` -> `let _ = e;`")
W = dict(wrap_open="impl BasicPacker {", wrap_close="}")

UNITS = [
    Unit(name="BlobLocation", file=BL, kind="type", anchor="pub struct BlobLocation {", attrs="#[derive(Clone, Copy)]"),
    Unit(name="IndexBlob", file=IF, kind="type", anchor="pub struct IndexBlob {", attrs="#[derive(Clone, Copy)]", rewrites=[R_ATTRS]),
    Unit(name="indexpack_add", file=IF, anchor="pub(crate) fn add(", within="impl IndexPack {",
         wrap_open="impl IndexPack {", wrap_close="}",
         functions=["repofile::indexfile::IndexPack::add"],
         contract="""
    ensures
        /*@indexpack_add*/ final(self).blobs@ == old(self).blobs@.push(IndexBlob { id, tpe, location: BlobLocation { offset, length, uncompressed_length } }),
        final(self).id == old(self).id && final(self).size == old(self).size,
"""),
    Unit(name="PackerStats", file=PK, kind="type", anchor="pub struct PackerStats {"),
    Unit(name="BasicPacker", file=PK, kind="type", anchor="pub(crate) struct BasicPacker {"),
    Unit(name="is_empty", file=PK, anchor="pub fn is_empty(&self) -> bool", within="impl BasicPacker {", ret_name="r", **W,
         functions=["blob::packer::BasicPacker::is_empty"],
         contract="\n    ensures /*@is_empty*/ r == (self.count == 0),\n"),
    Unit(name="has", file=PK, anchor="pub fn has(&self, id: &BlobId) -> bool", within="impl BasicPacker {", ret_name="r", **W,
         functions=["blob::packer::BasicPacker::has"],
         rewrites=[Rw("self.index.blobs.iter().any(|b| &b.id == id)", "vany_blob_id(&self.index.blobs, id)", why="Iterator::any with an id-equality closure")],
         contract="\n    ensures /*@has_iff_in_current_pack*/ r == exists|i: int| 0 <= i < self.index.blobs@.len() && (#[trigger] self.index.blobs@[i]).id == *id,\n"),
    Unit(name="write_data", file=PK, anchor="fn write_data(&mut self, data: Bytes) -> PackerResult<u32>", within="impl BasicPacker {", ret_name="r", **W,
         functions=["blob::packer::BasicPacker::write_data"],
         rewrites=[R_MAPERR, R_TRYINTO],
         contract="""
    requires
        old(self).size as int == old(self).file.all@.len(),
    ensures
        /*@write_data_appends*/ r matches Ok(len) ==> len as int == data.data@.len() && final(self).file.all@ == old(self).file.all@ + data.data@
                                && final(self).size as int == old(self).size + len,
        /*@write_data_frame*/ final(self).index == old(self).index && final(self).count == old(self).count && final(self).blob_type == old(self).blob_type,
        /*@write_data_err_untouched*/ r is Err ==> final(self).file.all@ == old(self).file.all@ && final(self).size == old(self).size,
        /*@write_data_size_tracks_file*/ final(self).size as int == final(self).file.all@.len(),
"""),
]

UNITS += [
    Unit(name="add_raw", file=PK, anchor="pub fn add_raw(", within="impl BasicPacker {", ret_name="r", **W,
         functions=["blob::packer::BasicPacker::add_raw"],
         rewrites=[R_ERR, R_MAPERR, R_TRYINTO],
         contract="""
    requires
        old(self).inv(),
        // statistics counters and the blob count are plain machine integers: no overflow is a precondition
        old(self).stats.blobs < u64::MAX, old(self).stats.data + data_len <= u64::MAX,
        old(self).stats.data_packed + data.data@.len() <= u64::MAX, old(self).count < u32::MAX,
    ensures
        /*@add_raw_inv*/ final(self).inv(),
        /*@add_raw_duplicate_is_noop*/ (exists|i: int| 0 <= i < old(self).index.blobs@.len() && (#[trigger] old(self).index.blobs@[i]).id == *id)
            ==> r is Ok && final(self).file.all@ == old(self).file.all@ && final(self).index == old(self).index && final(self).size == old(self).size,
        /*@add_raw_appends_blob_at_end*/ !(exists|i: int| 0 <= i < old(self).index.blobs@.len() && (#[trigger] old(self).index.blobs@[i]).id == *id) && r is Ok
            ==> final(self).file.all@ == old(self).file.all@ + data.data@
                && final(self).index.blobs@ == old(self).index.blobs@.push(IndexBlob { id: *id, tpe: old(self).blob_type,
                       location: BlobLocation { offset: old(self).size, length: data.data@.len() as u32, uncompressed_length } }),
        /*@add_raw_err_keeps_pack*/ r is Err ==> final(self).file.all@ == old(self).file.all@ && final(self).index == old(self).index,
        /*@add_raw_type_frame*/ final(self).blob_type == old(self).blob_type,
""",
         hints=[("after", ".add(*id", """        proof {
            let b0 = old(self).index.blobs@;
            let nb = self.index.blobs@[b0.len() as int];
            assert(self.index.blobs@ == b0.push(nb));
            lemma_sum_len_push(b0, nb, b0.len() as int);
            assert forall|i: int| 0 <= i < b0.len() implies sum_len(self.index.blobs@, i) == sum_len(b0, i) by { lemma_sum_len_push(b0, nb, i); }
        }""")],
         ),
    Unit(name="write_header", file=PK, anchor="pub fn write_header(&mut self, header: Bytes) -> RusticResult<()>", within="impl BasicPacker {", ret_name="r", **W,
         functions=["blob::packer::BasicPacker::write_header"],
         rewrites=[R_ERR, R_MAPERR, R_TRYINTO, R_DISCARD,
                   Rw(r"PackHeaderLength::from_u32\(headerlen\)\s*\.to_binary\(\)", "vheaderlen_to_binary(headerlen)", regex=True,
                      why="PackHeaderLength (binrw derive, little-endian u32) -> stub returning le32(headerlen)"),
                   Rw("binary_repr.into()", "vbytes_from_vec(binary_repr)", why="Vec<u8> -> Bytes")],
         contract="""
    requires
        old(self).size as int == old(self).file.all@.len(),
    ensures
        /*@trailer_layout*/ r is Ok ==> header.data@.len() <= 0xFFFF_FFFF
              && final(self).file.all@ == old(self).file.all@ + header.data@ + le32(header.data@.len() as u32),
        /*@write_header_index_frame*/ final(self).index == old(self).index && final(self).count == old(self).count && final(self).blob_type == old(self).blob_type,
"""),
    Unit(name="take_data", file=PK, anchor="pub fn take_data(&mut self) -> (BytesList, IndexPack)", within="impl BasicPacker {", ret_name="r", **W,
         functions=["blob::packer::BasicPacker::take_data"],
         rewrites=[Rw("std::mem::take(&mut self.file)", "vtake_byteslist(&mut self.file)", why="std::mem::take on BytesList"),
                   Rw("std::mem::take(&mut self.index)", "vtake_indexpack(&mut self.index)", why="std::mem::take on IndexPack")],
         contract="""
    ensures
        /*@take_data_returns_pack_and_index*/ r.0.all@ == old(self).file.all@ && r.1 == old(self).index,
        /*@take_data_resets*/ final(self).inv() && final(self).index.blobs@.len() == 0 && final(self).file.all@.len() == 0,
        final(self).blob_type == old(self).blob_type,
"""),
]

UNITS += [
    Unit(name="header_bytes", file=PK, anchor="pub fn header_bytes(&self) -> RusticResult<Bytes>", within="impl BasicPacker {", ret_name="r", **W,
         functions=["blob::packer::BasicPacker::header_bytes"],
         rewrites=[Rw(r"PackHeaderRef::from_index_pack\(&self\.index\)\s*\.to_binary\(\)\s*\.map_err\(.*\)\s*\.map\(Into::into\)", "vheader_to_binary(&self.index)", regex=True,
                      why="PackHeaderRef::to_binary (binrw) + error mapping + Vec->Bytes: stub returning the uninterpreted HEADER(blobs)")],
         contract="\n    ensures /*@header_of_current_blobs*/ r matches Ok(b) ==> b.data@ == HEADER(self.index.blobs@),\n"),
    Unit(name="RawPacker", file=PK, kind="type", anchor="pub(crate) struct RawPacker<BE: DecryptWriteBackend> {"),
    Unit(name="raw_save", file=PK, anchor="fn save(&mut self) -> RusticResult<()>", within="impl<BE: DecryptWriteBackend> RawPacker<BE> {", ret_name="r",
         wrap_open="impl<BE: DecryptWriteBackend> RawPacker<BE> {", wrap_close="}",
         functions=["blob::packer::RawPacker::save"],
         rewrites=[
             Rw("self.be.key().encrypt_data(&data)?.into()", "vencrypt_to_bytes(&self.be, &data)?", why="CryptoKey::encrypt_data + Vec->Bytes: uninterpreted ENC"),
             Rw(r"self\.file_writer\s*\.as_ref\(\)\s*\.unwrap\(\)\s*\.send\(\(file, index\)\)\s*\.map_err\(.*?\)\?;", "vsend_pack(&mut self.file_writer, file, index, Ghost(self.basic.blob_type))?;", regex=True,
                why="Actor::send to the writer thread: effectful stub whose PRECONDITION is the sealed-pack property"),
         ],
         contract="""
    requires
        old(self).basic.inv(), old(self).file_writer is Some,
    ensures
        /*@save_leaves_empty_packer*/ r is Ok ==> final(self).basic.inv() && final(self).basic.index.blobs@.len() == 0,
        /*@save_hands_over_exactly_the_open_pack*/ r is Ok ==> sent_of(final(self).file_writer) == sent_of(old(self).file_writer).push(old(self).basic.index.blobs@),
        /*@save_frame*/ final(self).file_writer is Some,
""",
         hints=[("before", "vsend_pack(", """        proof {
            broadcast use axiom_enc_len;
            let blobs = index.blobs@;
            let body = sum_len(blobs, blobs.len() as int);
            assert(file.all@.subrange(0, body) =~= old(self).basic.file.all@);
            assert(file.all@ =~= file.all@.subrange(0, body) + ENC(HEADER(blobs)) + le32(ENC(HEADER(blobs)).len() as u32));
        }""")],
         ),
]

UNITS += [
    Unit(name="packfile_constants", file=PF, kind="type", anchor="pub(super) mod constants {",
         rewrites=[Rw("pub(super)", "pub", count=None, why="visibility only")]),
    Unit(name="PackHeader", file=PF, kind="const", anchor="pub struct PackHeader(pub Vec<IndexBlob>);"),
    Unit(name="from_file", file=PF, anchor="pub(crate) fn from_file(", within="impl PackHeader {", ret_name="r",
         wrap_open="impl PackHeader {", wrap_close="}",
         functions=["repofile::packfile::PackHeader::from_file"],
         rewrites=[
             R_ERR,
             Rw("", "", count=None, kind="log", optional=True, why="logging removed"),
             Rw("be: &impl DecryptReadBackend", "be: &B", sig=True, why="impl Trait argument -> named generic"),
             Rw("fn from_file(", "fn from_file<B: DecryptReadBackend>(", sig=True, why="impl Trait argument -> named generic"),
             Rw(r"PackHeaderLength::from_binary\(&data\.split_off\((?P<at>[^()]*)\)\)\s*\.map_err\(.*?\)\?\s*\.to_u32\(\)", r"vheaderlen_from_binary(&data.split_off(\g<at>))?", regex=True,
                why="PackHeaderLength::from_binary (binrw) + error mapping: stub with the little-endian contract; split_off kept"),
             Rw(r"Self::from_binary\(&be\.decrypt\(&data\)\?\)\.map_err\(.*?\)\?;", "vdecrypt_and_parse_header(be, &data)?;", regex=True,
                why="decrypt + PackHeader::from_binary (binrw) + error mapping: opaque stub"),
         ],
         contract="""
    ensures
        /*@from_file_header_matches_pack*/ r matches Ok(h) ==> hpack_size(h) == pack_size && hsize(h) + 4 <= pack_size
              && be.stored(id).len() >= pack_size
              && be.stored(id).subrange(pack_size - 4, pack_size as int) == le32(hsize(h)),
        // the header that is decoded is exactly the bytes in front of the length field, as long as that field says
        /*@from_file_decodes_the_bytes_before_the_length_field*/ r matches Ok(h) ==> h == HDR_OF(be.stored(id).subrange(pack_size - 4 - hsize(h), pack_size - 4)),
""",
         hints=[("before", "let header = vdecrypt_and_parse_header(be, &data)?;", "        proof { assert(data.data@ =~= be.stored(id).subrange(pack_size - 4 - size_real, pack_size - 4)); }")]),
]

HE = dict(wrap_open="impl HeaderEntry {", wrap_close="}")
UNITS += [
    Unit(name="HeaderEntry", file=PF, kind="type", anchor="pub enum HeaderEntry {", attrs="#[derive(Clone, Copy)]", rewrites=[R_ATTRS]),
    Unit(name="header_entry_consts", file=PF, kind="const", anchor="const ENTRY_LEN: u32 =", **HE),
    Unit(name="header_entry_consts2", file=PF, kind="const", anchor="pub(crate) const ENTRY_LEN_COMPRESSED: u32 =", **HE),
    Unit(name="he_from_blob", file=PF, anchor="fn from_blob(blob: &IndexBlob) -> Self", within="impl HeaderEntry {", ret_name="r", **HE,
         functions=["repofile::packfile::HeaderEntry::from_blob"],
         rewrites=[Rw("*blob.id", "blob.id.vinner()", why="Deref BlobId -> Id"),
                   Rw("len_data.get()", "len_data", count=None, why="NonZeroU32::get (NonZeroU32 modelled as u32)")],
         contract="""
    ensures
        /*@from_blob_kind*/ match (blob.location.uncompressed_length, blob.tpe) {
            (None, BlobType::Data) => r matches HeaderEntry::Data { len, id } && len == blob.location.length && id.0 == blob.id.0,
            (None, BlobType::Tree) => r matches HeaderEntry::Tree { len, id } && len == blob.location.length && id.0 == blob.id.0,
            (Some(u), BlobType::Data) => r matches HeaderEntry::CompData { len, len_data, id } && len == blob.location.length && len_data == u && id.0 == blob.id.0,
            (Some(u), BlobType::Tree) => r matches HeaderEntry::CompTree { len, len_data, id } && len == blob.location.length && len_data == u && id.0 == blob.id.0,
        },
"""),
    Unit(name="he_length", file=PF, anchor="const fn length(&self) -> u32", within="impl HeaderEntry {", ret_name="r", **HE,
         functions=["repofile::packfile::HeaderEntry::length"],
         contract="""
    ensures
        /*@entry_length_37_41*/ r == (match self { HeaderEntry::Data { .. } | HeaderEntry::Tree { .. } => 37u32, _ => 41u32 }),
"""),
    Unit(name="he_into_location", file=PF, anchor="fn into_location(self, offset: u32) -> BlobLocation", within="impl HeaderEntry {", ret_name="r", **HE,
         functions=["repofile::packfile::HeaderEntry::into_location"],
         rewrites=[Rw("NonZeroU32::new(len_data)", "vnonzero_new(len_data)", why="NonZeroU32::new")],
         contract="""
    ensures
        /*@into_location*/ r.offset == offset,
        match self {
            HeaderEntry::Data { len, .. } | HeaderEntry::Tree { len, .. } => r.length == len && r.uncompressed_length is None,
            HeaderEntry::CompData { len, len_data, .. } | HeaderEntry::CompTree { len, len_data, .. } =>
                r.length == len && r.uncompressed_length == (if len_data == 0 { None::<u32> } else { Some(len_data) }),
        },
"""),
    Unit(name="he_into_blob", file=PF, anchor="fn into_blob(self, offset: u32) -> IndexBlob", within="impl HeaderEntry {", ret_name="r", **HE,
         functions=["repofile::packfile::HeaderEntry::into_blob"],
         rewrites=[Rw("id.into()", "vblobid_from(id)", count=2, why="Id -> BlobId")],
         contract="""
    ensures
        /*@into_blob_type*/ r.tpe == (match self { HeaderEntry::Tree { .. } | HeaderEntry::CompTree { .. } => BlobType::Tree, _ => BlobType::Data }),
        /*@into_blob_fields*/ r.location.offset == offset && r.id.0 == (match self { HeaderEntry::Data { id, .. } | HeaderEntry::Tree { id, .. } | HeaderEntry::CompData { id, .. } | HeaderEntry::CompTree { id, .. } => id.0 }),
        match self {
            HeaderEntry::Data { len, .. } | HeaderEntry::Tree { len, .. } => r.location.length == len && r.location.uncompressed_length is None,
            HeaderEntry::CompData { len, len_data, .. } | HeaderEntry::CompTree { len, len_data, .. } =>
                r.location.length == len && r.location.uncompressed_length == (if len_data == 0 { None::<u32> } else { Some(len_data) }),
        },
"""),
]

# ---- RawPacker::{add_raw, finalize, has}: no blob is lost between the open pack and the packs handed to the writer
RP = dict(wrap_open="impl<BE: DecryptWriteBackend> RawPacker<BE> {", wrap_close="}")
UNITS += [
    Unit(name="take_stats", file=PK, anchor="pub fn take_stats(&mut self) -> PackerStats", within="impl BasicPacker {", ret_name="r", **W,
         functions=["blob::packer::BasicPacker::take_stats"],
         rewrites=[Rw("std::mem::take(&mut self.stats)", "vtake_stats(&mut self.stats)", why="std::mem::take on PackerStats")],
         contract="""
    ensures /*@take_stats_frame*/ final(self).index == old(self).index && final(self).file == old(self).file && final(self).size == old(self).size
        && final(self).count == old(self).count && final(self).blob_type == old(self).blob_type,
"""),
    Unit(name="raw_add_raw", file=PK, anchor="fn add_raw(\n        &mut self,", within="impl<BE: DecryptWriteBackend> RawPacker<BE> {", ret_name="r", **RP,
         functions=["blob::packer::RawPacker::add_raw"],
         rewrites=[R_DISCARD],
         contract="""
    requires
        old(self).basic.inv(), old(self).file_writer is Some,
        old(self).basic.stats.blobs < u64::MAX, old(self).basic.stats.data + data_len <= u64::MAX,
        old(self).basic.stats.data_packed + data.data@.len() <= u64::MAX, old(self).basic.count < u32::MAX,
    ensures
        // every blob accepted so far is either in the open pack or in a pack handed to the writer -- nothing is dropped
        /*@blob_is_in_open_pack_or_handed_over*/ r is Ok ==> ({
            let b0 = old(self).basic.index.blobs@;
            let dup = exists|i: int| 0 <= i < b0.len() && (#[trigger] b0[i]).id == *id;
            let nb = if dup { b0 } else { b0.push(IndexBlob { id: *id, tpe: old(self).basic.blob_type,
                         location: BlobLocation { offset: old(self).basic.size, length: data.data@.len() as u32, uncompressed_length } }) };
            ||| (final(self).basic.index.blobs@ == nb && sent_of(final(self).file_writer) == sent_of(old(self).file_writer))
            ||| (final(self).basic.index.blobs@.len() == 0 && sent_of(final(self).file_writer) == sent_of(old(self).file_writer).push(nb))
        }),
        /*@raw_add_raw_inv*/ r is Ok ==> final(self).basic.inv() && final(self).file_writer is Some,
"""),
    Unit(name="raw_finalize", file=PK, anchor="fn finalize(&mut self) -> RusticResult<PackerStats>", within="impl<BE: DecryptWriteBackend> RawPacker<BE> {", ret_name="r", **RP,
         functions=["blob::packer::RawPacker::finalize"],
         rewrites=[R_DISCARD],
         contract="""
    requires
        old(self).basic.inv(), old(self).file_writer is Some,
    ensures
        // nothing stays behind in the open pack when the packer is finalized
        /*@finalize_flushes_open_pack*/ r is Ok ==> final(self).basic.index.blobs@.len() == 0,
        // the writer thread is ALWAYS waited for (its result is where failed pack writes surface), whether or not a pack was open
        /*@finalize_always_waits_for_the_writer*/ r is Ok ==> final(self).file_writer is None && WRITER_JOINED(sent_of(old(self).file_writer).len() as int),
"""),
    Unit(name="raw_has", file=PK, anchor="fn has(&self, id: &BlobId) -> bool", within="impl<BE: DecryptWriteBackend> RawPacker<BE> {", ret_name="r", **RP,
         functions=["blob::packer::RawPacker::has"],
         contract="\n    ensures /*@raw_has_is_open_pack_membership*/ r == (exists|i: int| 0 <= i < self.basic.index.blobs@.len() && (#[trigger] self.basic.index.blobs@[i]).id == *id),\n"),
]

# ---- header / pack size folds of PackHeaderRef: unbounded (the iterator fold is rewritten to its definition, a loop)
R_FOLD = Rw("", "", count=None, kind="fold", why="E.iter().fold(init, |acc, x| body) -> `let mut vacc = init; for x in E.iter() { vacc = { let acc = vacc; body } }` (definition of Iterator::fold)")
PH = dict(wrap_open="impl<'a> PackHeaderRef<'a> {", wrap_close="}")
UNITS += [
    Unit(name="phr_size", file=PF, anchor="pub(crate) fn size(&self) -> u32", within="impl<'a> PackHeaderRef<'a> {", ret_name="r", **PH,
         functions=["repofile::packfile::PackHeaderRef::size"],
         rewrites=[R_FOLD],
         contract="""
    requires
        // the header of a pack file that can exist (< 4 GiB)
        32 + hdr_sum(self.0@, self.0@.len() as int) <= u32::MAX,
    ensures
        /*@header_size_is_overhead_plus_entry_lengths*/ r == 32 + hdr_sum(self.0@, self.0@.len() as int),
""",
         loops={1: """
            invariant
                32 + hdr_sum(self.0@, self.0@.len() as int) <= u32::MAX,
                vacc == 32 + hdr_sum(self.0@, itf.index@),
"""},
         hints=[("loop_start", "1", "            proof { assert(self.0@[itf.index@] == *blob); lemma_hdr_sum_mono(self.0@, itf.index@ + 1, self.0@.len() as int); }")]),
    Unit(name="phr_pack_size", file=PF, anchor="pub(crate) fn pack_size(&self) -> u32", within="impl<'a> PackHeaderRef<'a> {", ret_name="r", **PH,
         functions=["repofile::packfile::PackHeaderRef::pack_size"],
         rewrites=[R_FOLD],
         contract="""
    requires
        36 + sum_len(self.0@, self.0@.len() as int) + hdr_sum(self.0@, self.0@.len() as int) <= u32::MAX,
    ensures
        /*@pack_size_is_blobs_plus_header_plus_length_field*/ r == 36 + sum_len(self.0@, self.0@.len() as int) + hdr_sum(self.0@, self.0@.len() as int),
""",
         loops={1: """
            invariant
                36 + sum_len(self.0@, self.0@.len() as int) + hdr_sum(self.0@, self.0@.len() as int) <= u32::MAX,
                vacc == 36 + sum_len(self.0@, itf.index@) + hdr_sum(self.0@, itf.index@),
"""},
         hints=[("loop_start", "1", "            proof { assert(self.0@[itf.index@] == *blob); lemma_hdr_sum_mono(self.0@, itf.index@ + 1, self.0@.len() as int); }")]),
]

UNITS += [
    Unit(name="header_from_binary", file=PF, anchor="pub(crate) fn from_binary(pack: &[u8]) -> PackFileResult<Self>", within="impl PackHeader {", ret_name="r",
         wrap_open="impl PackHeader {", wrap_close="}",
         functions=["repofile::packfile::PackHeader::from_binary"],
         rewrites=[
             Rw("PackFileResult<Self>", "Result<Self, PackFileErrorKindR>", sig=True, why="error type -> stub"),
             Rw("Cursor::new(pack)", "ventry_cursor(pack)", why="byte cursor + binrw -> ghost sequence of the encoded entries"),
             Rw("HeaderEntry::read(&mut reader)", "vread_entry(&mut reader)", why="binrw-derived HeaderEntry::read -> next entry of the ghost sequence"),
             Rw("PackFileErrorKind::ReadingBinaryRepresentationFailed(err)", "vreading_failed(err)", why="error constructor -> stub"),
             Rw("let mut offset = 0;", "let mut offset: u32 = 0;", why="integer literal type made explicit (inferred u32 from BlobLocation::offset)"),
         ],
         attrs="#[verifier::exec_allows_no_decreases_clause]",
         contract="""
    requires
        // ASSUMED of a header that from_file accepts afterwards (it compares the sizes): the lengths add up to less than 4 GiB
        entries_len(ENTRIES(pack@), ENTRIES(pack@).len() as int) <= u32::MAX,
    ensures
        // the blob list read back has one blob per header entry, in order, each with the entry's id/type/lengths and with the
        // offset at which the blob lies if the blobs are stored back to back (what the index must say for the pack)
        /*@blobs_are_the_entries_in_order*/ r matches Ok(h) ==> h.0@.len() <= ENTRIES(pack@).len() && forall|i: int| 0 <= i < h.0@.len() ==>
            (#[trigger] h.0@[i]).location.offset as int == entries_len(ENTRIES(pack@), i) && h.0@[i].location.length == hentry_len(ENTRIES(pack@)[i])
            && h.0@[i].tpe == (match ENTRIES(pack@)[i] { HeaderEntry::Tree { .. } | HeaderEntry::CompTree { .. } => BlobType::Tree, _ => BlobType::Data }),
        /*@offsets_are_prefix_sums_of_lengths*/ r matches Ok(h) ==> forall|i: int| 0 <= i < h.0@.len() ==> (#[trigger] h.0@[i]).location.offset as int == sum_len(h.0@, i),
""",
         loops={1: """
            invariant
                entries_len(ENTRIES(pack@), ENTRIES(pack@).len() as int) <= u32::MAX,
                blobs@.len() + reader.rest@.len() == ENTRIES(pack@).len(),
                reader.rest@ =~= ENTRIES(pack@).subrange(blobs@.len() as int, ENTRIES(pack@).len() as int),
                offset as int == entries_len(ENTRIES(pack@), blobs@.len() as int), offset as int == sum_len(blobs@, blobs@.len() as int),
                forall|i: int| 0 <= i < blobs@.len() ==> (#[trigger] blobs@[i]).location.offset as int == entries_len(ENTRIES(pack@), i) && blobs@[i].location.length == hentry_len(ENTRIES(pack@)[i])
                    && blobs@[i].tpe == (match ENTRIES(pack@)[i] { HeaderEntry::Tree { .. } | HeaderEntry::CompTree { .. } => BlobType::Tree, _ => BlobType::Data })
                    && blobs@[i].location.offset as int == sum_len(blobs@, i),
"""},
         hints=[("loop_start", "1", "            let ghost b0 = blobs@;"),
                ("before", "offset +=", "            proof { lemma_entries_len_mono(ENTRIES(pack@), b0.len() as int + 1, ENTRIES(pack@).len() as int); }"),
                ("after", "blobs.push(blob);", "            proof { lemma_sum_len_push(b0, blob, b0.len() as int); assert forall|i: int| 0 <= i < b0.len() implies sum_len(blobs@, i) == sum_len(b0, i) by { lemma_sum_len_push(b0, blob, i); } }")],
         ),
]

UNITS += [
    Unit(name="phr_from_index_pack", file=PF, anchor="pub(crate) fn from_index_pack(pack: &'a IndexPack) -> Self", within="impl<'a> PackHeaderRef<'a> {", ret_name="r", **PH,
         functions=["repofile::packfile::PackHeaderRef::from_index_pack"],
         rewrites=[Rw("Self(&pack.blobs)", "PackHeaderRef(pack.blobs.as_slice())", why="&Vec<T> -> &[T] coercion made explicit")],
         contract="\n    ensures /*@header_ref_views_the_packs_blobs*/ r.0@ == pack.blobs@,\n"),
    # the pack size the index reports: the recorded one, else derived from the blob list exactly as the packer lays the pack out
    Unit(name="indexpack_pack_size", file=IF, anchor="pub fn pack_size(&self) -> u32", within="impl IndexPack {", ret_name="r",
         wrap_open="impl IndexPack {", wrap_close="}",
         functions=["repofile::indexfile::IndexPack::pack_size"],
         rewrites=[Rw("pub fn pack_size(&self) -> u32", "pub fn pack_size_checked(&self) -> u32", sig=True, why="renamed in the verified file only: the prelude's stub of the same name (its contract = this unit's postcondition) serves the callers"),
                   Rw(r"self\.size\s*\.unwrap_or_else\(\|\| (?P<b>[^;]*)\)(?=\s*\}?\s*\Z)", r"(match self.size { Some(vs) => vs, None => \g<b> })", regex=True,
                      why="Option::unwrap_or_else(|| body) -> match (definition, body verbatim)")],
         contract="""
    requires
        self.size is None ==> 36 + sum_len(self.blobs@, self.blobs@.len() as int) + hdr_sum(self.blobs@, self.blobs@.len() as int) <= u32::MAX,
    ensures
        /*@index_pack_size_is_recorded_or_derived_from_the_layout*/ r == (match self.size { Some(s) => s as int, None => 36 + sum_len(self.blobs@, self.blobs@.len() as int) + hdr_sum(self.blobs@, self.blobs@.len() as int) }),
        r == pack_size_spec(*self),
"""),
]

UNITS += [
    Unit(name="actor_pack_id", file=PK, kind="block", within="fn new<BE: DecryptWriteBackend>(\n        fwh: FileWriterHandle<BE>,",
         anchor="@closure:.map(|(file, index): (BytesList, IndexPack)|",
         block_sig="fn actor_pack_id(file: BytesList, index: IndexPack) -> (r: (BytesList, PackId, IndexPack))",
         block_tail="",
         functions=["blob::packer::Actor::new (first closure of the writer pipeline: the pack's name)"],
         rewrites=[Rw(r"hash_reader\(file\.clone\(\)\.reader\(\)\)\s*\.expect\(\"reading from memory cannot fail\"\)", "vhash_reader(file.vclone_reader())", regex=True, why="hash_reader over a clone of the byte list + expect -> stub: SHA-256 of these bytes"),
                   Rw("PackId::from(id)", "vpackid_from_id(id)", why="Id -> PackId")],
         contract="""
    ensures
        // the pack's name is the hash of exactly the bytes that are handed on to be written, and the index entry travels with them
        /*@pack_name_is_hash_of_its_bytes*/ r.1.0 == SHA256(file.all@) && r.0.all@ == file.all@ && r.2 == index,
"""),
]

UNITS += [
    Unit(name="packer_process_blob", file=PK, kind="block", within="impl<BE: DecryptWriteBackend> Packer<BE> {",
         anchor="@closure:.parallel_map_scoped(scope, |(data, id): (Bytes, BlobId)|",
         block_sig="fn packer_process_blob(be: &VProcessBe, data: Bytes, id: BlobId) -> (r: RusticResult<(Vec<u8>, BlobId, u64, Option<NonZeroU32>)>)",
         block_tail="",
         functions=["blob::packer::Packer::new (closure of the parallel stage: process one blob)"],
         rewrites=[Rw("u64::from(data_len)", "(data_len as u64)", why="u32 -> u64")],
         contract="""
    ensures
        // the processed bytes travel on under the id of the plaintext they were made from, with the lengths process_data reports
        /*@processed_blob_keeps_its_id*/ r matches Ok(x) ==> x.1 == id && (x.0@, x.2, x.3) == (PROCESSED(data.data@).0, PROCESSED(data.data@).1 as u64, PROCESSED(data.data@).2),
"""),
]

# repair index queues the packs whose headers are re-read with the size PackHeader::from_file is given: the unit lives in C12's
# spec (PackChecker::check_pack) and is verified as part of this check as well
SATELLITES = [("C12", ["NodeAction", "ModifierChange", "ModifierAction", "TreeAction", "RewriteVisitor", "repair_index_check_pack"]),
              # the repacker hands stored blobs to the packer: what it declares about them (lengths, compression) ends up in the new
              # pack's header and index -- the units live in C02's spec (BlobCopier::copy / copy_fast, CopyPackBlobs)
              ("C02", ["blob_constants", "BlobLocation", "BlobLocations", "from_blob_location", "can_coalesce", "append", "coalesce", "PackToDo", "RepackReason", "PackInfo", "PrunePack", "CopyPackBlobs", "RestorePackInfo", "FileLocation", "copy_pack_blobs_coalesce", "copy_fast", "copy_slow"]),
              # the writer side: a pack's index entry is handed on only after its bytes were stored under its id, and the status of the
              # writer threads reaches the caller (units of C03's spec)
              ("C03", ["ModifierChange", "file_writer_process", "actor_writer_status", "packer_writer_status", "packer_finalize", "actor_finalize"]),
              ]

KANI = [
    Harness("repofile::packfile::verif_kani::c08_bounded_header_sizes", kind="bounded",
            bound="blob lists of length 1 or 2; ids, lengths (< 1e6), compressed/uncompressed mix and types symbolic",
            functions=["repofile::packfile::PackHeaderRef::size", "repofile::packfile::PackHeaderRef::pack_size"], timeout=600),
]
KANI_UNWIND = 4
META = {"not_covered": [
    "binary header encoding itself (binrw derive: to_binary / from_binary) - uninterpreted HEADER/PARSE; a Kani round-trip harness did not finish in 20 min",
    "the Actor/FileWriterHandle thread pipeline itself (channels, readahead); its first closure (pack id = SHA-256 of the bytes handed on) IS a unit, FileWriterHandle::process is a unit of C03",
    "repair-index command, Repacker, serde of index files",
    "BasicPacker::new / should_save (SystemTime), PackSizer::add_size",
]}
