// ===== C09: KeepOptions::apply -- how the per-snapshot rule (`matches`, proved with Kani) is driven over a group =====
impl Clone for SnapshotFile {
    #[verifier::external_body]
    fn clone(&self) -> (r: Self) ensures r == *self, { unimplemented!() }
}
// the counters of the keep rules as an abstract value; `matches` is characterised per call by the Kani harness
// c09_matches_rule_table -- here: two uninterpreted functions of its arguments (kept?, counters afterwards)
pub ghost struct KS { pub v: int }
pub uninterp spec fn KEPT(k: KS, sn: SnapshotFile, last: Option<SnapshotFile>, has_next: bool, latest: Zoned) -> bool;
pub uninterp spec fn NEXT(k: KS, sn: SnapshotFile, last: Option<SnapshotFile>, has_next: bool, latest: Zoned) -> KS;
pub struct KeepOptions { pub delete_unchanged: bool, pub counters: Ghost<KS>, pub valid: bool }
impl Clone for KeepOptions {
    #[verifier::external_body]
    fn clone(&self) -> (r: Self) ensures r == *self, { unimplemented!() }
}
pub open spec fn opt_val(o: Option<&SnapshotFile>) -> Option<SnapshotFile> { match o { Some(x) => Some(*x), None => None } }
impl KeepOptions {
    #[verifier::external_body]
    pub fn is_valid(&self) -> (r: bool) ensures r == self.valid, { unimplemented!() }
    #[verifier::external_body]
    pub fn matches(&mut self, sn: &SnapshotFile, last: Option<&SnapshotFile>, has_next: bool, latest_time: &Zoned) -> (r: Vec<&'static str>)
        ensures
            (r@.len() > 0) == KEPT(old(self).counters@, *sn, opt_val(last), has_next, *latest_time),
            final(self).counters@ == NEXT(old(self).counters@, *sn, opt_val(last), has_next, *latest_time),
            final(self).delete_unchanged == old(self).delete_unchanged, final(self).valid == old(self).valid,
    { unimplemented!() }
}
// Ord for SnapshotFile compares the snapshot times (unit snapshot_cmp); sort_unstable_by(cmp.reverse()) = newest first
pub open spec fn snap_le(a: SnapshotFile, b: SnapshotFile) -> bool { TS(a.time) <= TS(b.time) }
pub enum Ordering { Less, Equal, Greater }
impl Zoned {
    // Ord for jiff::Zoned: compares instants
    #[verifier::external_body]
    pub fn cmp(&self, other: &Zoned) -> (r: Ordering)
        ensures r is Less <==> TS(*self) < TS(*other), r is Equal <==> TS(*self) == TS(*other), r is Greater <==> TS(*self) > TS(*other),
    { unimplemented!() }
}
pub open spec fn newest_first(s: Seq<SnapshotFile>) -> bool { forall|i: int, j: int| 0 <= i <= j < s.len() ==> snap_le(s[j], s[i]) }
#[verifier::external_body]
pub fn vsort_newest_first(v: &mut Vec<SnapshotFile>)
    ensures newest_first(final(v)@), final(v)@.to_multiset() == old(v)@.to_multiset(), final(v)@.len() == old(v)@.len(),
{ unimplemented!() }
// snapshots.into_iter().peekable()
pub struct VPeek { pub seq: Ghost<Seq<SnapshotFile>>, pub pos: Ghost<int> }
impl VPeek {
    #[verifier::external_body]
    pub fn new(v: Vec<SnapshotFile>) -> (r: VPeek) ensures r.seq@ == v@, r.pos@ == 0, { unimplemented!() }
    #[verifier::external_body]
    pub fn next(&mut self) -> (r: Option<SnapshotFile>)
        requires 0 <= old(self).pos@ <= old(self).seq@.len(),
        ensures final(self).seq@ == old(self).seq@,
            old(self).pos@ < old(self).seq@.len() ==> r == Some(old(self).seq@[old(self).pos@]) && final(self).pos@ == old(self).pos@ + 1,
            old(self).pos@ >= old(self).seq@.len() ==> r is None && final(self).pos@ == old(self).pos@,
    { unimplemented!() }
    // Peekable::peek (takes &mut self in std; it does not change what the iterator will yield)
    #[verifier::external_body]
    pub fn vpeek(&self) -> (r: Option<&SnapshotFile>)
        requires 0 <= self.pos@ <= self.seq@.len(),
        ensures self.pos@ < self.seq@.len() ==> (r matches Some(x) && *x == self.seq@[self.pos@]), self.pos@ >= self.seq@.len() ==> r is None,
    { unimplemented!() }
}
pub struct ForgetSnapshot { pub snapshot: SnapshotFile, pub keep: bool, pub reasons: Vec<StringR> }
pub struct StringR { pub _opaque: u64 }
#[verifier::external_body]
pub fn vreasons_to_strings(r: &Vec<&'static str>) -> Vec<StringR> { unimplemented!() }
#[verifier::external_body]
pub fn vreason(s: &'static str) -> (r: Vec<&'static str>) ensures r@.len() == 1, { unimplemented!() }

// ---- the group decision as a function of the sorted list ----
pub open spec fn mk(sn: SnapshotFile, now: Zoned) -> bool { sn.delete is Never || (sn.delete matches DeleteOption::After(t) && TS(t) >= TS(now)) }
pub open spec fn md(sn: SnapshotFile, now: Zoned) -> bool { sn.delete matches DeleteOption::After(t) && TS(t) < TS(now) }
pub open spec fn last_of(s: Seq<SnapshotFile>, i: int) -> Option<SnapshotFile> { if i <= 0 { None } else { Some(s[i - 1]) } }
pub open spec fn unchanged_next(du: bool, s: Seq<SnapshotFile>, i: int) -> bool { du && i + 1 < s.len() && s[i + 1].tree == s[i].tree }
// does snapshot i reach the keep rules (and so consume counters)?
pub open spec fn to_rules(du: bool, s: Seq<SnapshotFile>, now: Zoned, i: int) -> bool { !mk(s[i], now) && !md(s[i], now) && !unchanged_next(du, s, i) }
pub open spec fn counters_at(k0: KS, du: bool, s: Seq<SnapshotFile>, now: Zoned, i: int) -> KS
    decreases i
{
    if i <= 0 { k0 } else {
        let prev = counters_at(k0, du, s, now, i - 1);
        if to_rules(du, s, now, i - 1) { NEXT(prev, s[i - 1], last_of(s, i - 1), i < s.len(), s[0].time) } else { prev }
    }
}
pub open spec fn keep_at(k0: KS, du: bool, s: Seq<SnapshotFile>, now: Zoned, i: int) -> bool {
    if mk(s[i], now) { true } else if md(s[i], now) { false } else if unchanged_next(du, s, i) { false }
    else { KEPT(counters_at(k0, du, s, now, i), s[i], last_of(s, i), i + 1 < s.len(), s[0].time) }
}
