// ===== C09 prelude: jiff::Zoned accessors as pure functions of the zoned time (ASSUMED: jiff
// computes calendar fields correctly; only ranges are axiomatised) =====
pub uninterp spec fn Y(z: Zoned) -> i16;     // calendar year
pub uninterp spec fn MO(z: Zoned) -> i8;     // month 1..=12
pub uninterp spec fn DOY(z: Zoned) -> i16;   // day of year 1..=366
pub uninterp spec fn D(z: Zoned) -> i8;      // day of month 1..=31
pub uninterp spec fn S(z: Zoned) -> i8;      // second 0..=59
pub uninterp spec fn H(z: Zoned) -> i8;      // hour 0..=23
pub uninterp spec fn MI(z: Zoned) -> i8;     // minute 0..=59
pub uninterp spec fn IY(z: Zoned) -> i16;    // ISO 8601 week-based year
pub uninterp spec fn IW(z: Zoned) -> i8;     // ISO week 1..=53
pub uninterp spec fn TS(z: Zoned) -> int;    // instant (total order used by PartialOrd for Zoned)

pub struct Zoned { pub _opaque: u64 }
// calendar fact (ASSUMED): within one year the day of the year is determined by, and determines, month and day of month
#[verifier::external_body]
pub proof fn axiom_doy_is_month_and_day(a: Zoned, b: Zoned)
    ensures Y(a) == Y(b) ==> ((DOY(a) == DOY(b)) <==> (MO(a) == MO(b) && D(a) == D(b))),
{}
pub struct ISOWeekDate { pub of: Ghost<Zoned> }

impl Clone for Zoned {
    #[verifier::external_body]
    fn clone(&self) -> (r: Self)
        ensures r == *self,
    { unimplemented!() }
}

impl Zoned {
    #[verifier::external_body]
    pub fn year(&self) -> (r: i16) ensures r == Y(*self), { unimplemented!() }
    #[verifier::external_body]
    pub fn month(&self) -> (r: i8) ensures r == MO(*self), 1 <= r <= 12, { unimplemented!() }
    #[verifier::external_body]
    pub fn day_of_year(&self) -> (r: i16) ensures r == DOY(*self), 1 <= r <= 366, { unimplemented!() }
    #[verifier::external_body]
    pub fn day(&self) -> (r: i8) ensures r == D(*self), 1 <= r <= 31, { unimplemented!() }
    #[verifier::external_body]
    pub fn second(&self) -> (r: i8) ensures r == S(*self), 0 <= r <= 59, { unimplemented!() }
    #[verifier::external_body]
    pub fn hour(&self) -> (r: i8) ensures r == H(*self), 0 <= r <= 23, { unimplemented!() }
    #[verifier::external_body]
    pub fn minute(&self) -> (r: i8) ensures r == MI(*self), 0 <= r <= 59, { unimplemented!() }
    #[verifier::external_body]
    pub fn iso_week_date(self) -> (r: ISOWeekDate) ensures r.of@ == self, { unimplemented!() }
}

impl ISOWeekDate {
    #[verifier::external_body]
    pub fn week(&self) -> (r: i8) ensures r == IW(self.of@), 1 <= r <= 53, { unimplemented!() }
    #[verifier::external_body]
    pub fn year(&self) -> (r: i16) ensures r == IY(self.of@), { unimplemented!() }
}

#[verifier::external_body]
pub fn vz_lt(a: &Zoned, b: &Zoned) -> (r: bool) ensures r == (TS(*a) < TS(*b)), { unimplemented!() }
#[verifier::external_body]
pub fn vz_ge(a: &Zoned, b: &Zoned) -> (r: bool) ensures r == (TS(*a) >= TS(*b)), { unimplemented!() }

// the two fields of SnapshotFile the retention kernel reads
pub enum DeleteOption { NotSet, Never, After(Zoned) }
pub struct SnapshotFile { pub time: Zoned, pub delete: DeleteOption, pub tree: TreeIdR }
#[derive(Clone, Copy, PartialEq, Eq, Structural)]
pub struct TreeIdR(pub u64);

// ---- "same period" as the property states it (calendar periods; ISO weeks for the weekly rule) ----
pub open spec fn same_year(a: Zoned, b: Zoned) -> bool { Y(a) == Y(b) }
pub open spec fn same_half_year(a: Zoned, b: Zoned) -> bool { same_year(a, b) && (MO(a) - 1) / 6 == (MO(b) - 1) / 6 }
pub open spec fn same_quarter(a: Zoned, b: Zoned) -> bool { same_year(a, b) && (MO(a) - 1) / 3 == (MO(b) - 1) / 3 }
pub open spec fn same_month(a: Zoned, b: Zoned) -> bool { same_year(a, b) && MO(a) == MO(b) }
pub open spec fn same_iso_week(a: Zoned, b: Zoned) -> bool { IY(a) == IY(b) && IW(a) == IW(b) }
pub open spec fn same_day(a: Zoned, b: Zoned) -> bool { same_year(a, b) && DOY(a) == DOY(b) }
pub open spec fn same_hour(a: Zoned, b: Zoned) -> bool { same_day(a, b) && H(a) == H(b) }
pub open spec fn same_minute(a: Zoned, b: Zoned) -> bool { same_hour(a, b) && MI(a) == MI(b) }

// periods nest: finer periods refine coarser ones (sanity of the spec itself)
pub proof fn lemma_periods_nest(a: Zoned, b: Zoned)
    requires 1 <= MO(a) <= 12, 1 <= MO(b) <= 12,
    ensures
        same_minute(a, b) ==> same_hour(a, b),
        same_hour(a, b) ==> same_day(a, b),
        same_month(a, b) ==> same_quarter(a, b),
        same_quarter(a, b) ==> same_half_year(a, b),
        same_half_year(a, b) ==> same_year(a, b),
{
}

// ---- L09: raising a keep count never removes a snapshot that was kept before ----
// One rule, processed newest-first over k snapshots.  `fired[k]` (is snapshot k the newest of its
// period / any snapshot for keep-last) does not depend on the counter.  The one-step relation below
// (kept iff fired with a counter != 0; a positive counter is used up; negative = unlimited) is exactly
// the contract the Kani harness c09_matches_rule_table proves for KeepOptions::matches.
pub open spec fn step_counter(c: int, fired: bool) -> int { if fired && c > 0 { c - 1 } else { c } }
pub open spec fn step_kept(c: int, fired: bool) -> bool { fired && c != 0 }

pub open spec fn counter_at(fired: Seq<bool>, c0: int, k: int) -> int
    decreases k
{
    if k <= 0 { c0 } else { step_counter(counter_at(fired, c0, k - 1), fired[k - 1]) }
}

pub open spec fn kept_at(fired: Seq<bool>, c0: int, k: int) -> bool {
    step_kept(counter_at(fired, c0, k), fired[k])
}

// "more generous": a bigger count, or unlimited (negative)
pub open spec fn more_generous(c: int, d: int) -> bool { d < 0 || (0 <= c <= d) }

pub proof fn lemma_counter_monotone(fired: Seq<bool>, c0: int, d0: int, k: int)
    requires more_generous(c0, d0), 0 <= k <= fired.len(),
    ensures more_generous(counter_at(fired, c0, k), counter_at(fired, d0, k)),
    decreases k
{
    if k > 0 {
        lemma_counter_monotone(fired, c0, d0, k - 1);
    }
}

pub proof fn lemma_raising_keep_count_keeps_more(fired: Seq<bool>, c0: int, d0: int, k: int)
    requires more_generous(c0, d0), 0 <= k < fired.len(), kept_at(fired, c0, k),
    ensures kept_at(fired, d0, k),
{
    lemma_counter_monotone(fired, c0, d0, k);
}
