"""C09 — retention decisions follow the documented keep rules."""
from tools.extract import Unit, Rw
from tools.krun import Harness

PROPERTY = "C09"
PRELUDE = ["../common/base.rs", "prelude.rs", "apply_stubs.rs"]
F = "crates/core/src/commands/forget.rs"
S = "crates/core/src/repofile/snapshotfile.rs"


def pred(name, spec):
    return Unit(name=name, file=F, anchor="fn %s(sn1: &SnapshotFile, sn2: &SnapshotFile) -> bool" % name, ret_name="r",
                functions=["commands::forget::%s" % name],
                # calendar fact made available to every predicate (so that an implementation by month + day of month is accepted as well)
                hints=[("before", "equal_", "    proof { axiom_doy_is_month_and_day(sn1.time, sn2.time); }")] if name in ("equal_day", "equal_hour", "equal_minute") else [],
                contract="\n    ensures\n        /*@%s*/ r == %s(sn1.time, sn2.time),\n" % (name, spec))


UNITS = [
    pred("equal_year", "same_year"),
    pred("equal_half_year", "same_half_year"),
    pred("equal_quarter_year", "same_quarter"),
    pred("equal_month", "same_month"),
    pred("equal_week", "same_iso_week"),
    pred("equal_day", "same_day"),
    pred("equal_hour", "same_hour"),
    pred("equal_minute", "same_minute"),
    Unit(name="always_false", file=F, anchor="const fn always_false(_sn1: &SnapshotFile, _sn2: &SnapshotFile) -> bool", ret_name="r",
         functions=["commands::forget::always_false"],
         contract="\n    ensures\n        /*@always_false*/ !r,\n"),
    Unit(name="must_delete", file=S, anchor="pub fn must_delete(&self, now: &Zoned) -> bool", ret_name="r",
         wrap_open="impl SnapshotFile {", wrap_close="}",
         functions=["repofile::snapshotfile::SnapshotFile::must_delete"],
         rewrites=[Rw("time < now", "vz_lt(time, now)", why="PartialOrd for jiff::Zoned (compares instants)")],
         contract="""
    ensures
        /*@must_delete_iff_expired*/ r == (self.delete matches DeleteOption::After(t) && TS(t) < TS(*now)),
"""),
    Unit(name="must_keep", file=S, anchor="pub fn must_keep(&self, now: &Zoned) -> bool", ret_name="r",
         wrap_open="impl SnapshotFile {", wrap_close="}",
         functions=["repofile::snapshotfile::SnapshotFile::must_keep"],
         rewrites=[Rw("time >= now", "vz_ge(time, now)", why="PartialOrd for jiff::Zoned (compares instants)")],
         contract="""
    ensures
        /*@must_keep_iff_protected*/ r == (self.delete is Never || (self.delete matches DeleteOption::After(t) && TS(t) >= TS(*now))),
        /*@never_both*/ !(r && (self.delete matches DeleteOption::After(t) && TS(t) < TS(*now))),
"""),
]

UNITS += [
    Unit(name="keep_apply", file=F, anchor="pub fn apply(", within="impl KeepOptions {", ret_name="r",
         wrap_open="impl KeepOptions {", wrap_close="}",
         functions=["commands::forget::KeepOptions::apply"],
         rewrites=[
             Rw("", "verr()", count=None, kind="err", why="RusticError construction dropped"),
             Rw("snapshots.sort_unstable_by(|sn1, sn2| sn1.cmp(sn2).reverse());", "vsort_newest_first(&mut snapshots);", why="sort_unstable_by(cmp reversed): permutation, newest first (assumed std contract)"),
             Rw("snapshots.into_iter().peekable()", "VPeek::new(snapshots)", why="into_iter().peekable() -> iterator stub (sequence + position)"),
             Rw(r"iter\.peek\(\)\.is_some_and\(\|(?P<x>\w+)\| (?P<body>[^)]*)\)", r"(match iter.vpeek() { Some(\g<x>) => \g<body>, None => false })", regex=True,
                why="Option::is_some_and(|x| body) -> match (definition, body verbatim); Peekable::peek -> vpeek"),
             Rw("iter.peek().is_some()", "iter.vpeek().is_some()", count=None, why="Peekable::peek -> vpeek"),
             Rw('vec!["snapshot"]', 'vreason("snapshot")', count=None, why="vec! of one reason string"),
             Rw('vec!["unchanged"]', 'vreason("unchanged")', count=None, why="vec! of one reason string"),
             Rw("reasons.iter().map(ToString::to_string).collect()", "vreasons_to_strings(&reasons)", why="&str -> String conversion of the reasons (not compared)"),
         ],
         contract="""
    ensures
        /*@invalid_options_refused*/ !self.valid ==> r is Err,
        // the result lists the group's snapshots newest first, one entry each, and every keep flag is the rule of the
        // statement: protected snapshots are kept, expired ones removed, an unchanged predecessor is removed if asked,
        // everything else is decided by the keep rules, driven with the previous snapshot, `has_next` and the latest time
        /*@apply_decides_each_snapshot_by_the_rules*/ r matches Ok(v) ==> exists|s: Seq<SnapshotFile>| #![auto]
            s.to_multiset() == snapshots@.to_multiset() && newest_first(s) && v@.len() == s.len()
            && forall|i: int| 0 <= i < s.len() ==> (#[trigger] v@[i]).snapshot == s[i]
                && v@[i].keep == keep_at(self.counters@, self.delete_unchanged, s, *now, i),
""",
         loops={1: """
            invariant
                0 <= iter.pos@ <= iter.seq@.len(), iter.seq@.len() > 0,
                iter.seq@.to_multiset() == orig.to_multiset(), newest_first(iter.seq@),
                latest_time == iter.seq@[0].time,
                snaps@.len() == iter.pos@,
                last == last_of(iter.seq@, iter.pos@),
                group_keep.delete_unchanged == self.delete_unchanged,
                group_keep.counters@ == counters_at(self.counters@, self.delete_unchanged, iter.seq@, *now, iter.pos@),
                forall|i: int| 0 <= i < iter.pos@ ==> (#[trigger] snaps@[i]).snapshot == iter.seq@[i]
                    && snaps@[i].keep == keep_at(self.counters@, self.delete_unchanged, iter.seq@, *now, i),
            ensures iter.pos@ >= iter.seq@.len(),
            decreases iter.seq@.len() - iter.pos@,
"""},
         hints=[("before", "vsort_newest_first(&mut snapshots);", "        let ghost orig = snapshots@;"),
                ("after_loop", "1", "        proof { let s1 = iter.seq@; assert(s1.to_multiset() == orig.to_multiset()); assert(newest_first(s1)); assert(snaps@.len() == s1.len()); }"),
                ("before", "return Ok(snaps);", "            proof { let s0 = snapshots@; assert(s0.len() == 0); assert(newest_first(s0)); assert(s0.to_multiset() == snapshots@.to_multiset()); }")],
         ),
]

UNITS += [
    Unit(name="snapshot_cmp", file=S, anchor="fn cmp(&self, other: &Self) -> Ordering", within="impl Ord for SnapshotFile {", ret_name="r",
         wrap_open="impl SnapshotFile {", wrap_close="}",
         functions=["<repofile::snapshotfile::SnapshotFile as Ord>::cmp"],
         contract="""
    ensures
        // the order `apply` sorts by is the order of the snapshot times
        /*@snapshots_are_ordered_by_time*/ (r is Less || r is Equal) == snap_le(*self, *other), (r is Greater || r is Equal) == snap_le(*other, *self),
"""),
]

KANI = [
    Harness("commands::forget::verif_kani::c09_matches_rule_table",
            functions=["commands::forget::KeepOptions::matches (counter logic; keep_within*/ids/tags empty)"],
            kind="complete", expect_stubs=8, timeout=1500,
            note="all 9 counters Option<i32> symbolic, all 8 period predicates stubbed by symbolic booleans, has_next and presence of last symbolic; 9-iteration loop fully unwound with unwinding assertions"),
]
KANI_ASSUMPTIONS = [
    "the eight period predicates are replaced by symbolic booleans (their contracts are the Verus units of this property)",
    "keep_within*, keep_ids, keep_tags empty; snapshot fields concrete defaults (they are not read on this path)",
]
META = {
    "not_covered": [
        "grouping (ForgetGroups::from_grouped_snapshots_with_retention); in the apply unit `matches` is two uninterpreted functions (KEPT, NEXT) of its arguments -- its per-call contract is the Kani harness",
        "keep_within* (jiff Span arithmetic)",
        "time-zone handling inside jiff (accessors are assumed pure functions of the Zoned value)",
    ],
}
