"""C09 — retention decisions follow the documented keep rules."""
from tools.extract import Unit, Rw
from tools.krun import Harness

PROPERTY = "C09"
PRELUDE = ["../common/base.rs", "prelude.rs"]
F = "crates/core/src/commands/forget.rs"
S = "crates/core/src/repofile/snapshotfile.rs"


def pred(name, spec):
    return Unit(name=name, file=F, anchor="fn %s(sn1: &SnapshotFile, sn2: &SnapshotFile) -> bool" % name, ret_name="r",
                functions=["commands::forget::%s" % name],
                contract="\n    ensures\n        /*@%s*/ r == %s(sn1.time, sn2.time),\n" % (name, spec))


UNITS = [
    pred("equal_year", "same_year"),
    pred("equal_half_year", "same_half_year"),
    pred("equal_quarter_year", "same_quarter"),
    pred("equal_month", "same_month"),
    pred("equal_week", "same_iso_week"),
    pred("equal_day", "same_day"),
    pred("equal_hour", "same_hour"),
    pred("equal_minute", "same_minute"),
    Unit(name="always_false", file=F, anchor="const fn always_false(_sn1: &SnapshotFile, _sn2: &SnapshotFile) -> bool", ret_name="r",
         functions=["commands::forget::always_false"],
         contract="\n    ensures\n        /*@always_false*/ !r,\n"),
    Unit(name="must_delete", file=S, anchor="pub fn must_delete(&self, now: &Zoned) -> bool", ret_name="r",
         wrap_open="impl SnapshotFile {", wrap_close="}",
         functions=["repofile::snapshotfile::SnapshotFile::must_delete"],
         rewrites=[Rw("time < now", "vz_lt(time, now)", why="PartialOrd for jiff::Zoned (compares instants)")],
         contract="""
    ensures
        /*@must_delete_iff_expired*/ r == (self.delete matches DeleteOption::After(t) && TS(t) < TS(*now)),
"""),
    Unit(name="must_keep", file=S, anchor="pub fn must_keep(&self, now: &Zoned) -> bool", ret_name="r",
         wrap_open="impl SnapshotFile {", wrap_close="}",
         functions=["repofile::snapshotfile::SnapshotFile::must_keep"],
         rewrites=[Rw("time >= now", "vz_ge(time, now)", why="PartialOrd for jiff::Zoned (compares instants)")],
         contract="""
    ensures
        /*@must_keep_iff_protected*/ r == (self.delete is Never || (self.delete matches DeleteOption::After(t) && TS(t) >= TS(*now))),
        /*@never_both*/ !(r && (self.delete matches DeleteOption::After(t) && TS(t) < TS(*now))),
"""),
]

KANI = [
    Harness("commands::forget::verif_kani::c09_matches_rule_table",
            functions=["commands::forget::KeepOptions::matches (counter logic; keep_within*/ids/tags empty)"],
            kind="complete", expect_stubs=8, timeout=1500,
            note="all 9 counters Option<i32> symbolic, all 8 period predicates stubbed by symbolic booleans, has_next and presence of last symbolic; 9-iteration loop fully unwound with unwinding assertions"),
]
KANI_ASSUMPTIONS = [
    "the eight period predicates are replaced by symbolic booleans (their contracts are the Verus units of this property)",
    "keep_within*, keep_ids, keep_tags empty; snapshot fields concrete defaults (they are not read on this path)",
]
META = {
    "not_covered": [
        "KeepOptions::apply (sorting, peekable iteration, delete_unchanged), grouping",
        "keep_within* (jiff Span arithmetic)",
        "time-zone handling inside jiff (accessors are assumed pure functions of the Zoned value)",
    ],
}
