// ===== C11 prelude: the metadata comparison that decides whether a parent node may be reused =====
#[derive(Clone, Copy, PartialEq, Eq, Structural)]
pub struct Timestamp(pub i128);
// node types carry data (link target, device number): compared as a whole
#[derive(Clone, Copy, PartialEq, Eq, Structural)]
pub enum NodeType { File, Dir, Symlink(u64), Dev(u64), Chardev(u64), Fifo, Socket }
pub struct Metadata { pub size: u64, pub mtime: Option<Timestamp>, pub ctime: Option<Timestamp>, pub inode: u64 }
pub struct Node { pub node_type: NodeType, pub meta: Metadata }
impl Node {
    // the type accessors of backend::node::Node (definitions)
    pub fn is_dir(&self) -> (r: bool) ensures r == (self.node_type is Dir), { match self.node_type { NodeType::Dir => true, _ => false } }
    pub fn is_file(&self) -> (r: bool) ensures r == (self.node_type is File), { match self.node_type { NodeType::File => true, _ => false } }
    pub fn is_symlink(&self) -> (r: bool) ensures r == (self.node_type is Symlink), { match self.node_type { NodeType::Symlink(_) => true, _ => false } }
}
// a.zip(b).is_none_or(|(x, y)| x == y): std definitions of Option::zip / Option::is_none_or with THIS closure literal
pub fn vzip_is_none_or_eq(a: Option<Timestamp>, b: Option<Timestamp>) -> (r: bool)
    ensures r == (a is None || b is None || a == b),
{
    match (a, b) { (Some(x), Some(y)) => x == y, _ => true }
}
// the rule of the property statement: a file counts as unchanged only if type, size and mtime agree, and the change
// time too unless it is ignored or unknown on one side
pub open spec fn unchanged_by_statement(p: Node, n: Node, ignore_ctime: bool) -> bool {
    p.node_type == n.node_type && p.meta.size == n.meta.size && p.meta.mtime == n.meta.mtime
    && (ignore_ctime || p.meta.ctime is None || n.meta.ctime is None || p.meta.ctime == n.meta.ctime)
}

// ---- Parent::p_node: the lookup of a name in one (sorted) parent tree ----
pub struct NameR { pub _opaque: u64 }
pub enum Ordering { Less, Equal, Greater }
// Ord of OsStr (byte-wise): an uninterpreted strict total order
pub uninterp spec fn name_lt(a: NameR, b: NameR) -> bool;
impl NameR {
    #[verifier::external_body]
    pub fn cmp(&self, other: &NameR) -> (r: Ordering)
        ensures r is Less <==> name_lt(*self, *other), r is Equal <==> *self == *other, r is Greater <==> name_lt(*other, *self),
    { unimplemented!() }
}
pub struct PNode { pub n: Node, pub name: NameR }
impl PNode {
    // Node::name(): the unescaped name
    #[verifier::external_body]
    pub fn name(&self) -> (r: &NameR) ensures *r == self.name, { unimplemented!() }
}
pub struct PTree { pub nodes: Vec<PNode> }

// ---- wiring of the two comparison switches: ParentOptions -> Parent::new -> Parent ----
pub struct TreeIdW { pub _opaque: u64 }
pub struct SnapshotIdW { pub _opaque: u64 }
// ParentOptions, reduced to the two switches (the remaining fields select the parent snapshots)
pub struct ParentOptionsW { pub ignore_ctime: bool, pub ignore_inode: bool }
pub struct VRepoW { pub _opaque: u64 }
pub struct VDbeW { pub _opaque: u64 }
pub struct VIndexW { pub _opaque: u64 }
impl VRepoW {
    #[verifier::external_body]
    pub fn dbe(&self) -> &VDbeW { unimplemented!() }
    #[verifier::external_body]
    pub fn index(&self) -> &VIndexW { unimplemented!() }
}
pub struct ParentW {
    pub tree_ids: Vec<TreeIdW>,
    pub trees: Vec<(PTree, usize)>,
    pub stack: Vec<Vec<(PTree, usize)>>,
    pub ignore_ctime: bool,
    pub ignore_inode: bool,
}
impl ParentW {
    // Parent::new as seen by its caller: the unit parent_new_fields proves exactly this about the struct literal
    #[verifier::external_body]
    pub fn vnew(be: &VDbeW, index: &VIndexW, tree_id: Vec<TreeIdW>, ignore_ctime: bool, ignore_inode: bool) -> (r: ParentW)
        ensures r.ignore_ctime == ignore_ctime, r.ignore_inode == ignore_inode,
    { unimplemented!() }
}

// ---- Parent::process, file arm: what a matched parent may contribute to the node that is archived ----
#[derive(PartialEq, Eq)]
pub struct DataIdW(pub u64);
// a node as the file arm sees it: its list of content blobs and everything else (name, type, metadata) as one value
pub struct FNode { pub content: Option<Vec<DataIdW>>, pub rest: u64 }
impl FNode {
    #[verifier::external_body]
    pub fn name(&self) -> NameR { unimplemented!() }
    pub open spec fn content_view(&self) -> Option<Seq<DataIdW>> { match self.content { Some(v) => Some(v@), None => None } }
}
pub struct VParentP { pub _opaque: u64 }
// Parent::is_parent (p_node lookup + the metadata comparison, units p_node_lookup / is_parent_predicate): its answer for this node
pub uninterp spec fn IS_PARENT(p: VParentP, node: FNode) -> ParentResult<FNode>;
impl VParentP {
    #[verifier::external_body]
    pub fn vis_parent<'a>(&'a self, node: &FNode, name: &NameR) -> (r: ParentResult<&'a FNode>)
        ensures
            r is Matched <==> IS_PARENT(*self, *node) is Matched,
            r is NotFound <==> IS_PARENT(*self, *node) is NotFound,
            r is NotMatched <==> IS_PARENT(*self, *node) is NotMatched,
            r matches ParentResult::Matched(p) ==> *p == IS_PARENT(*self, *node)->Matched_0,
    { unimplemented!() }
}
pub struct VIndexP { pub _opaque: u64 }
pub uninterp spec fn INDEX_HAS_DATA(index: VIndexP, id: DataIdW) -> bool;
pub open spec fn all_chunks_indexed(c: Option<Seq<DataIdW>>, index: VIndexP) -> bool {
    c matches Some(s) ==> forall|i: int| 0 <= i < s.len() ==> INDEX_HAS_DATA(index, #[trigger] s[i])
}
pub open spec fn some_chunk_indexed(c: Option<Seq<DataIdW>>, index: VIndexP) -> bool {
    c matches Some(s) && exists|i: int| 0 <= i < s.len() && INDEX_HAS_DATA(index, #[trigger] s[i])
}
// content.iter().flatten().all(|id| index.has_data(id)) / .any(..): Option<Vec<_>>::iter().flatten() visits the ids of a
// Some list and nothing of a None; Iterator::all / any by definition
#[verifier::external_body]
pub fn vall_data_in_index(c: &Option<Vec<DataIdW>>, index: &VIndexP) -> (r: bool)
    ensures r == all_chunks_indexed(match *c { Some(v) => Some(v@), None => None }, *index),
{ unimplemented!() }
#[verifier::external_body]
pub fn vany_data_in_index(c: &Option<Vec<DataIdW>>, index: &VIndexP) -> (r: bool)
    ensures r == some_chunk_indexed(match *c { Some(v) => Some(v@), None => None }, *index),
{ unimplemented!() }
// Option<Vec<DataId>>::clone (clone_from assigns a clone)
#[verifier::external_body]
pub fn vclone_content(c: &Option<Vec<DataIdW>>) -> (r: Option<Vec<DataIdW>>)
    ensures (match r { Some(v) => Some(v@), None => None }) == (match *c { Some(v) => Some(v@), None => None }),
{ unimplemented!() }
impl<T> ParentResult<T> {
    // ParentResult::map(|_| ()): the kind of the answer without its node
    pub fn vunit(self) -> (r: ParentResult<()>)
        ensures r is Matched <==> self is Matched, r is NotFound <==> self is NotFound, r is NotMatched <==> self is NotMatched,
    {
        match self { ParentResult::Matched(_) => ParentResult::Matched(()), ParentResult::NotFound => ParentResult::NotFound, ParentResult::NotMatched => ParentResult::NotMatched }
    }
}
pub struct PathR { pub _opaque: u64 }
impl PathR {
    #[verifier::external_body]
    pub fn display(&self) -> u64 { unimplemented!() }
}
pub struct TreeStackEmptyError;

// ---- Parent::set_dir: entering a directory ----
pub struct VBeP { pub _opaque: u64 }
pub struct VIndexQ { pub _opaque: u64 }
// the subtree ids of the entries NAMED `name` in the current parent trees, in tree order (what the chain
// `self.p_node(name).filter_map(|p| p.subtree.or_else(warn; None)).collect()` yields; p_node's per-tree step is unit p_node_lookup)
pub uninterp spec fn NAMED_SUBTREES(trees: Seq<(PTree, usize)>, name: NameR) -> Seq<TreeIdW>;
#[verifier::external_body]
pub fn vsubtree_ids_of_named(trees: &mut Vec<(PTree, usize)>, name: &NameR) -> (r: Vec<TreeIdW>)
    ensures r@ == NAMED_SUBTREES(old(trees)@, *name),
            // p_node only moves the cursors forward: the trees themselves stay
            final(trees)@.len() == old(trees)@.len(), forall|i: int| 0 <= i < old(trees)@.len() ==> (#[trigger] final(trees)@[i]).0 == old(trees)@[i].0,
{ unimplemented!() }
// Vec::sort + Vec::dedup on tree ids: the same set of ids
#[verifier::external_body]
pub fn vsort_ids(v: &mut Vec<TreeIdW>) ensures forall|x: TreeIdW| final(v)@.contains(x) <==> old(v)@.contains(x), { unimplemented!() }
#[verifier::external_body]
pub fn vdedup_ids(v: &mut Vec<TreeIdW>) ensures forall|x: TreeIdW| final(v)@.contains(x) <==> old(v)@.contains(x), { unimplemented!() }
pub uninterp spec fn TREE_OF(id: TreeIdW) -> PTree;
// ids.into_iter().filter_map(|id| match Tree::from_backend(be, index, id) { Ok(tree) => Some((tree, 0)), Err(_) => None }).collect():
// every loaded tree is the tree of one of the ids (a tree that fails to load is skipped with a warning), cursor at its start
#[verifier::external_body]
pub fn vload_trees(be: &VBeP, index: &VIndexQ, ids: Vec<TreeIdW>) -> (r: Vec<(PTree, usize)>)
    ensures forall|i: int| 0 <= i < r@.len() ==> (#[trigger] r@[i]).1 == 0 && exists|j: int| 0 <= j < ids@.len() && r@[i].0 == TREE_OF(#[trigger] ids@[j]),
{ unimplemented!() }
#[verifier::external_body]
pub fn vmem_replace_trees(dest: &mut Vec<(PTree, usize)>, src: Vec<(PTree, usize)>) -> (r: Vec<(PTree, usize)>)
    ensures r == *old(dest), *final(dest) == src,
{ unimplemented!() }
