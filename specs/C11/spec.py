"""C11 — incremental backup with a parent equals a full backup (reuse decision kernel)."""
from tools.krun import Harness
from tools.extract import Unit, Rw

PROPERTY = "C11"
PA = "crates/core/src/archiver/parent.rs"
PRELUDE = ["../common/base.rs", "prelude.rs"]
UNITS = [
    # the body of the closure that `is_parent` hands to Iterator::find: the metadata comparison itself, for ALL node pairs
    Unit(name="is_parent_predicate", file=PA, kind="block", within="fn is_parent(&mut self, node: &Node, name: &OsStr) -> ParentResult<&Node>",
         anchor="let p_meta = &p_node.meta;", block_end="})\n            .map_or(ParentResult::NotMatched",
         block_sig="fn is_parent_predicate(p_node: &Node, node: &Node, ignore_ctime: bool, ignore_inode: bool) -> (r: bool)",
         block_tail="",
         functions=["archiver::parent::Parent::is_parent (body of the closure given to Iterator::find: the metadata comparison)"],
         rewrites=[
             Rw(r"(?P<a>[\w.]+)\.zip\((?P<b>[\w.]+)\)\.is_none_or\(\|\(x, y\)\| x == y\)", r"vzip_is_none_or_eq(\g<a>, \g<b>)", regex=True,
                why="Option::zip + Option::is_none_or with the closure literal |(x, y)| x == y -> its definition (proved helper)"),
         ],
         contract="""
    ensures
        /*@reuse_requires_unchanged_type_size_mtime_ctime*/ r ==> unchanged_by_statement(*p_node, *node, ignore_ctime),
        // strongest postcondition: exactly the implemented rule (the inode clause only ever restricts reuse further)
        /*@is_parent_rule_exact*/ r == (unchanged_by_statement(*p_node, *node, ignore_ctime)
            && (!ignore_inode || p_node.meta.inode == 0 || node.meta.inode == 0 || p_node.meta.inode == node.meta.inode)),
"""),
]
M = "archiver::parent::verif_kani::"
KANI = [
    Harness(M + "c11_is_parent_requires_equal_metadata", kind="bounded",
            bound="one parent tree with one node named 'a', node types file/dir; COMPLETE over size, mtime, ctime (present or not), inode, ignore_ctime, ignore_inode",
            functions=["archiver::parent::Parent::is_parent", "archiver::parent::Parent::p_node"], expect_stubs=1, timeout=900),
    Harness(M + "c11_unknown_name_is_not_found", kind="bounded", bound="one parent tree with one node; queried name differs",
            functions=["archiver::parent::Parent::is_parent"], expect_stubs=1, timeout=900),
    Harness(M + "c11_reuse_only_if_all_chunks_indexed", kind="bounded",
            bound="one matching parent file with two chunks; COMPLETE over which chunks the index still has",
            functions=["archiver::parent::Parent::process (TreeType::Other branch)"], expect_stubs=1, timeout=1200),
]
KANI_UNWIND = 6
KANI_ASSUMPTIONS = [
    "Node::name() stubbed by the identity (exact for names without backslash, which is what the harness uses)",
    "index = mock ReadGlobalIndex answering has() per chunk id; backend unused on these paths",
]
META = {"not_covered": [
    "equality of the resulting tree with a full backup (composition through the archiver)",
    "parent selection (ParentOptions::get_parent), set_dir/finish_dir stack handling, several parent trees",
    "the unchanged-tree short cut in tree_archiver.rs backup_tree",
]}
