"""C11 — incremental backup with a parent equals a full backup (reuse decision kernel)."""
from tools.krun import Harness

PROPERTY = "C11"
LEVEL = "other"   # every check of this property is a bounded stand-in
UNITS = []
PRELUDE = []
M = "archiver::parent::verif_kani::"
KANI = [
    Harness(M + "c11_is_parent_requires_equal_metadata", kind="bounded",
            bound="one parent tree with one node named 'a', node types file/dir; COMPLETE over size, mtime, ctime (present or not), inode, ignore_ctime, ignore_inode",
            functions=["archiver::parent::Parent::is_parent", "archiver::parent::Parent::p_node"], expect_stubs=1, timeout=900),
    Harness(M + "c11_unknown_name_is_not_found", kind="bounded", bound="one parent tree with one node; queried name differs",
            functions=["archiver::parent::Parent::is_parent"], expect_stubs=1, timeout=900),
    Harness(M + "c11_reuse_only_if_all_chunks_indexed", kind="bounded",
            bound="one matching parent file with two chunks; COMPLETE over which chunks the index still has",
            functions=["archiver::parent::Parent::process (TreeType::Other branch)"], expect_stubs=1, timeout=1200),
]
KANI_UNWIND = 6
KANI_ASSUMPTIONS = [
    "Node::name() stubbed by the identity (exact for names without backslash, which is what the harness uses)",
    "index = mock ReadGlobalIndex answering has() per chunk id; backend unused on these paths",
]
META = {"not_covered": [
    "equality of the resulting tree with a full backup (composition through the archiver)",
    "parent selection (ParentOptions::get_parent), set_dir/finish_dir stack handling, several parent trees",
    "the unchanged-tree short cut in tree_archiver.rs backup_tree",
]}
