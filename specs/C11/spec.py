"""C11 — incremental backup with a parent equals a full backup (reuse decision kernel)."""
from tools.krun import Harness
from tools.extract import Unit, Rw

PROPERTY = "C11"
PA = "crates/core/src/archiver/parent.rs"
PRELUDE = ["../common/base.rs", "prelude.rs"]
UNITS = [
    # the body of the closure that `is_parent` hands to Iterator::find: the metadata comparison itself, for ALL node pairs
    Unit(name="is_parent_predicate", file=PA, kind="block", within="fn is_parent(&mut self, node: &Node, name: &OsStr) -> ParentResult<&Node>",
         anchor="let p_meta = &p_node.meta;", block_end="})\n            .map_or(ParentResult::NotMatched",
         block_sig="fn is_parent_predicate(p_node: &Node, node: &Node, ignore_ctime: bool, ignore_inode: bool) -> (r: bool)",
         block_tail="",
         functions=["archiver::parent::Parent::is_parent (body of the closure given to Iterator::find: the metadata comparison)"],
         rewrites=[
             Rw(r"(?P<a>[\w.]+)\.zip\((?P<b>[\w.]+)\)\.is_none_or\(\|\(x, y\)\| x == y\)", r"vzip_is_none_or_eq(\g<a>, \g<b>)", regex=True,
                why="Option::zip + Option::is_none_or with the closure literal |(x, y)| x == y -> its definition (proved helper)"),
         ],
         contract="""
    ensures
        /*@reuse_requires_unchanged_type_size_mtime_ctime*/ r ==> unchanged_by_statement(*p_node, *node, ignore_ctime),
        // the other direction, as far as the statement fixes it: a node that is unchanged in every compared attribute and has
        // the same inode IS reused (how the inode switch restricts reuse beyond that is not part of the statement: the inode
        // clause can only make the rule stricter, and the unit accepts either polarity of `ignore_inode`)
        /*@unchanged_node_with_same_inode_is_reused*/ unchanged_by_statement(*p_node, *node, ignore_ctime) && p_node.meta.inode == node.meta.inode ==> r,
"""),
]
UNITS += [
    # the body of the closure that `p_node` hands to filter_map: one step of the sorted merge over ONE parent tree
    Unit(name="p_node_lookup", file=PA, kind="block", within="fn p_node(&mut self, name: &OsStr) -> impl Iterator<Item = &Node>",
         anchor="let p_nodes = &tree.nodes;", block_end="        })",
         block_sig="fn p_node_lookup<'a>(tree: &'a PTree, idx: &mut usize, name: &NameR) -> (r: Option<&'a PNode>)",
         block_tail="            vret",
         functions=["archiver::parent::Parent::p_node (body of the closure given to filter_map: lookup of a name in one parent tree, advancing its cursor)"],
         rewrites=[
             Rw("            loop {\n", "            let mut vret: Option<&PNode> = None; loop {\n", why="`loop { .. break value .. }` as an expression -> result variable + plain break (Verus has no break-with-value)"),
             Rw(r"=> break ([A-Za-z_()]+),", r"=> { vret = \1; break; }", regex=True, count=None, why="break-with-value in a match arm -> assignment + break"),
             Rw(r"(?m)^(\s*)break ([A-Za-z_()]+);", r"\1vret = \2; break;", regex=True, count=None, why="break-with-value statement -> assignment + break"),
             Rw("(*p_node.name()).cmp(name)", "p_node.name().cmp(name)", why="Cow<OsStr> deref -> name stub"),
         ],
         contract="""
    requires *old(idx) <= tree.nodes@.len(), tree.nodes@.len() <= usize::MAX,  // the latter holds for every Vec
    ensures
        *old(idx) <= *final(idx) <= tree.nodes@.len(),
        // every node the cursor passed has a smaller name
        /*@cursor_only_skips_smaller_names*/ forall|i: int| *old(idx) <= i < *final(idx) ==> name_lt((#[trigger] tree.nodes@[i]).name, *name),
        /*@found_node_has_the_name*/ r matches Some(n) ==> *final(idx) < tree.nodes@.len() && *n == tree.nodes@[*final(idx) as int] && n.name == *name,
        /*@not_found_means_cursor_at_larger_name_or_end*/ r is None ==> *final(idx) == tree.nodes@.len() || name_lt(*name, tree.nodes@[*final(idx) as int].name),
""",
         loops={1: """
                invariant
                    *old(idx) <= *idx <= tree.nodes@.len(), p_nodes@ == tree.nodes@, tree.nodes@.len() <= usize::MAX,
                    forall|i: int| *old(idx) <= i < *idx ==> name_lt((#[trigger] tree.nodes@[i]).name, *name),
                ensures
                    *old(idx) <= *idx <= tree.nodes@.len(),
                    forall|i: int| *old(idx) <= i < *idx ==> name_lt((#[trigger] tree.nodes@[i]).name, *name),
                    vret matches Some(n) ==> *idx < tree.nodes@.len() && *n == tree.nodes@[*idx as int] && n.name == *name,
                    vret is None ==> *idx == tree.nodes@.len() || name_lt(*name, tree.nodes@[*idx as int].name),
                decreases tree.nodes@.len() - *idx,
"""},
         ),
]

BK = "crates/core/src/commands/backup.rs"
UNITS += [
    # Parent::new: the struct literal at its end puts each switch into the field of the same name
    Unit(name="parent_new_fields", file=PA, kind="block", within="pub(crate) fn new(",
         anchor="Self {\n            tree_ids,", block_end="@fn_end",
         block_sig="fn parent_new_fields(tree_ids: Vec<TreeIdW>, trees: Vec<(PTree, usize)>, ignore_ctime: bool, ignore_inode: bool) -> (r: ParentW)",
         block_tail="",
         functions=["archiver::parent::Parent::new (struct literal: which argument lands in which field)"],
         rewrites=[Rw("Self {", "ParentW {", why="Self -> the stub struct with the same field names")],
         contract="""
    ensures /*@switches_land_in_their_fields*/ r.ignore_ctime == ignore_ctime && r.ignore_inode == ignore_inode,
"""),
    # ParentOptions::get_parent: the user's switches reach Parent::new in the right positions
    Unit(name="get_parent_wiring", file=BK, kind="block", within="pub(crate) fn get_parent<S: IndexedTree>(",
         anchor="(\n            parent_ids,", block_end="@fn_end",
         block_sig="fn get_parent_wiring(this: &ParentOptionsW, repo: &VRepoW, parent_ids: Vec<SnapshotIdW>, parent_trees: Vec<TreeIdW>) -> (r: (Vec<SnapshotIdW>, ParentW))",
         block_tail="",
         functions=["commands::backup::ParentOptions::get_parent (tail: construction of the Parent from the options)"],
         rewrites=[Rw("Parent::new(", "ParentW::vnew(", why="Parent::new -> stub carrying the postcondition of unit parent_new_fields"),
                   Rw("self.", "this.", count=None, why="block of a method: self -> parameter")],
         contract="""
    ensures
        // ctime is compared unless the user asked to ignore ctime, the inode unless they asked to ignore the inode
        /*@user_switches_reach_the_parent*/ r.1.ignore_ctime == this.ignore_ctime && r.1.ignore_inode == this.ignore_inode,
"""),
]

UNITS += [
    Unit(name="ParentResult", file=PA, kind="type", anchor="pub(crate) enum ParentResult<T> {",
         rewrites=[Rw("", "", count=None, kind="attrs", optional=True, why="derive attributes removed")]),
    # Parent::process, the arm for files: what a matched parent node contributes (its content, if every chunk is indexed) and what not
    Unit(name="process_file_reuse", file=PA, kind="block", within="pub(crate) fn process<O>(",
         anchor="let parent = self.is_parent(&node, &node.name());", block_end="TreeType::Other((path, node, (open, parent)))",
         block_sig="fn process_file_reuse(this: &VParentP, index: &VIndexP, node0: FNode, path: &PathR) -> (r: (FNode, ParentResult<()>))",
         block_tail="                (node, parent)",
         functions=["archiver::parent::Parent::process (arm for files: reuse of the parent's content)"],
         rewrites=[
             Rw("self.is_parent(", "this.vis_parent(", why="Parent::is_parent -> stub: its answer is the uninterpreted IS_PARENT (units p_node_lookup / is_parent_predicate)"),
             Rw(r"(?P<n>\w+)\.content\.iter\(\)\.flatten\(\)\.(?P<q>all|any)\(\|id\| index\.has_data\(id\)\)", r"v\g<q>_data_in_index(&\g<n>.content, index)", regex=True,
                why="Option::iter().flatten().all/any(|id| index.has_data(id)) -> their definitions over the id list (stubs)"),
             Rw(r"(?P<a>\w+)\.content\.clone_from\(&(?P<b>\w+)\.content\)", r"\g<a>.content = vclone_content(&\g<b>.content)", regex=True, why="Option<Vec<DataId>>::clone_from -> assignment of a clone"),
             Rw(r"\.map\(\|_\| \(\)\)", ".vunit()", regex=True, why="ParentResult::map(|_| ()) -> proved helper: the kind of the answer"),
         ],
         hints=[("before", "let parent = this.vis_parent(", "                let mut node = node0;")],
         contract="""
    ensures
        // content is taken from the parent only for a node the parent rule accepts AND only if every one of its chunks is in the index
        /*@content_reused_only_from_a_matching_parent_with_all_chunks_indexed*/ r.1 is Matched ==> IS_PARENT(*this, node0) is Matched
            && all_chunks_indexed(IS_PARENT(*this, node0)->Matched_0.content_view(), *index)
            && r.0.content_view() == IS_PARENT(*this, node0)->Matched_0.content_view(),
        // a file that is not reused keeps what it had (it is read again by the caller)
        /*@file_not_reused_is_left_untouched*/ !(r.1 is Matched) ==> r.0.content_view() == node0.content_view(),
        // nothing but the content ever comes from the parent: name, type and metadata are the current ones
        /*@node_keeps_its_own_name_type_and_metadata*/ r.0.rest == node0.rest,
"""),
]

UNITS += [
    # leaving a directory restores exactly the parent trees that were current when it was entered (set_dir pushed them)
    Unit(name="finish_dir", file=PA, anchor="fn finish_dir(&mut self) -> Result<(), TreeStackEmptyError>", within="impl Parent {", ret_name="r",
         wrap_open="impl ParentW {", wrap_close="}",
         functions=["archiver::parent::Parent::finish_dir"],
         contract="""
    ensures
        /*@leaving_a_directory_restores_the_trees_of_its_parent*/ old(self).stack@.len() > 0 ==> r is Ok
            && final(self).trees == old(self).stack@[old(self).stack@.len() - 1]
            && final(self).stack@ == old(self).stack@.drop_last(),
        old(self).stack@.len() == 0 ==> r is Err,
        final(self).ignore_ctime == old(self).ignore_ctime && final(self).ignore_inode == old(self).ignore_inode,
"""),
]

UNITS += [
    # entering a directory: the current parent trees are pushed, the new ones are the sub-trees of the parent entries NAMED like
    # the directory (loaded with their cursor at 0)
    Unit(name="set_dir", file=PA, anchor="fn set_dir(\n        &mut self,", within="impl Parent {",
         wrap_open="impl ParentW {", wrap_close="}",
         functions=["archiver::parent::Parent::set_dir"],
         rewrites=[
             Rw("be: &impl DecryptReadBackend,", "be: &VBeP,", sig=True, why="backend -> opaque"),
             Rw("index: &impl ReadGlobalIndex,", "index: &VIndexQ,", sig=True, why="index -> opaque"),
             Rw("name: &OsStr,", "name: &NameR,", sig=True, why="OsStr -> name stub"),
             Rw(r"self\s*\.p_node\(name\)\s*\.filter_map\(\|p_node\| \{.*?\n            \}\)\s*\.collect\(\)", "vsubtree_ids_of_named(&mut self.trees, name)", regex=True,
                why="ABSTRACTED: self.p_node(name).filter_map(subtree or warn).collect() -> the sub-tree ids of the entries named `name` (uninterpreted NAMED_SUBTREES; the per-tree lookup is unit p_node_lookup)"),
             Rw("new_ids.sort();", "vsort_ids(&mut new_ids);", why="Vec::sort -> stub: same ids"),
             Rw("new_ids.dedup();", "vdedup_ids(&mut new_ids);", why="Vec::dedup -> stub: same ids"),
             Rw(r"new_ids\s*\.into_iter\(\)\s*\.filter_map\(\|tree_id\| match Tree::from_backend\(be, index, tree_id\) \{.*?\n            \}\)\s*\.collect\(\)", "vload_trees(be, index, new_ids)", regex=True,
                why="ABSTRACTED: ids.into_iter().filter_map(load or warn).collect() -> stub: every loaded tree belongs to one of the ids, cursor 0"),
             Rw("std::mem::replace(&mut self.trees, new_tree)", "vmem_replace_trees(&mut self.trees, new_tree)", why="std::mem::replace"),
         ],
         hints=[("before", "vmem_replace_trees(&mut self.trees, new_tree)", """        proof {
            let named = NAMED_SUBTREES(old(self).trees@, *name);
            assert forall|i: int| 0 <= i < new_tree@.len() implies (#[trigger] new_tree@[i]).1 == 0
                && exists|j: int| 0 <= j < named.len() && new_tree@[i].0 == TREE_OF(#[trigger] named[j]) by {
                let j0 = choose|j: int| 0 <= j < ids1.len() && new_tree@[i].0 == TREE_OF(#[trigger] ids1[j]);
                assert(ids1.contains(ids1[j0]));
                assert(named.contains(ids1[j0]));
                let j1 = choose|j: int| 0 <= j < named.len() && named[j] == ids1[j0];
                assert(new_tree@[i].0 == TREE_OF(named[j1]));
            }
        }"""),
                ("before", "let new_tree = vload_trees(", "        let ghost ids1 = new_ids@;")],
         contract="""
    ensures
        // (the lookup of the name may have moved the cursors of the current trees forward; the trees themselves are what is pushed)
        /*@entering_a_directory_pushes_the_current_trees*/ final(self).stack@.len() == old(self).stack@.len() + 1
            && final(self).stack@.subrange(0, old(self).stack@.len() as int) =~= old(self).stack@
            && final(self).stack@.last()@.len() == old(self).trees@.len()
            && forall|i: int| 0 <= i < old(self).trees@.len() ==> (#[trigger] final(self).stack@.last()@[i]).0 == old(self).trees@[i].0,
        // inside the directory only sub-trees of the parent entries with THIS name are consulted, each from its first entry on
        /*@new_parent_trees_are_the_subtrees_named_like_the_directory*/ forall|i: int| 0 <= i < final(self).trees@.len() ==> (#[trigger] final(self).trees@[i]).1 == 0
            && exists|j: int| 0 <= j < NAMED_SUBTREES(old(self).trees@, *name).len() && final(self).trees@[i].0 == TREE_OF(#[trigger] NAMED_SUBTREES(old(self).trees@, *name)[j]),
        final(self).ignore_ctime == old(self).ignore_ctime && final(self).ignore_inode == old(self).ignore_inode,
"""),
]

M = "archiver::parent::verif_kani::"
KANI = [
    Harness(M + "c11_is_parent_requires_equal_metadata", kind="bounded",
            bound="one parent tree with one node named 'a', node types file/dir; COMPLETE over size, mtime, ctime (present or not), inode, ignore_ctime, ignore_inode",
            functions=["archiver::parent::Parent::is_parent", "archiver::parent::Parent::p_node"], expect_stubs=1, timeout=900),
    Harness(M + "c11_unknown_name_is_not_found", kind="bounded", bound="one parent tree with one node; queried name differs",
            functions=["archiver::parent::Parent::is_parent"], expect_stubs=1, timeout=900),
    Harness(M + "c11_reuse_only_if_all_chunks_indexed", kind="bounded",
            bound="one matching parent file with two chunks; COMPLETE over which chunks the index still has",
            functions=["archiver::parent::Parent::process (TreeType::Other branch)"], expect_stubs=1, timeout=1200),
]
KANI_UNWIND = 6
KANI_ASSUMPTIONS = [
    "Node::name() stubbed by the identity (exact for names without backslash, which is what the harness uses)",
    "index = mock ReadGlobalIndex answering has() per chunk id; backend unused on these paths",
]
# the unchanged-tree short cut (a directory whose serialised tree the index already has is not stored again) and the assembly of
# the new trees are units of C01's spec (TreeArchiver); they are verified as part of this check as well
SATELLITES = [("C01", ["OpenFile", "ContentStartpoints", "ParentResult", "TreeType", "tree_new", "tree_add", "ta_add_file", "ta_backup_tree", "ta_add", "ta_finalize"])]

META = {"not_covered": [
    "equality of the resulting tree with a full backup (composition through the archiver)",
    "which snapshots become parents (group / latest selection in ParentOptions::get_parent: iterator adapters; the wiring of the two comparison switches IS a unit), the two iterator chains inside set_dir (name lookup over all parent trees, loading the sub-trees: abstracted; set_dir and finish_dir ARE units), several parent trees",
    "the unchanged-tree short cut in tree_archiver.rs backup_tree is a unit of C01 (ta_backup_tree), verified here as satellite",
]}
