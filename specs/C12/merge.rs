// ===== C12 (merge): the k-way merge of sorted trees in blob::tree::merge_trees =====
// A node of a tree has its name in two forms: the STORED string (escaped, field `name`) and the file name it stands
// for (`name()`, unescaped).  The nodes of a tree are sorted by the file name (archiver, restic format; Parent::p_node
// and restore's merge walk rely on it).  The two orders differ (e.g. `x"` < `x#` as file names, but the stored `x\"` > `x#`).
pub struct EscName { pub _opaque: u64 }     // String: the stored, escaped name
pub struct FileName { pub _opaque: u64 }    // Cow<OsStr>: the unescaped name
pub uninterp spec fn esc_lt(a: EscName, b: EscName) -> bool;        // Ord of String (byte-wise on the escaped form)
pub uninterp spec fn fname_lt(a: FileName, b: FileName) -> bool;    // Ord of OsStr (byte-wise on the unescaped form)
pub uninterp spec fn unesc(e: EscName) -> FileName;                 // unescape_filename
pub enum Ordering { Less, Equal, Greater }
impl Ordering {
    pub fn reverse(self) -> (r: Ordering)
        ensures r == (match self { Ordering::Less => Ordering::Greater, Ordering::Equal => Ordering::Equal, Ordering::Greater => Ordering::Less }),
    { match self { Ordering::Less => Ordering::Greater, Ordering::Equal => Ordering::Equal, Ordering::Greater => Ordering::Less } }
}
impl EscName {
    #[verifier::external_body]
    pub fn cmp(&self, other: &EscName) -> (r: Ordering)
        ensures r is Less <==> esc_lt(*self, *other), r is Equal <==> *self == *other, r is Greater <==> esc_lt(*other, *self),
    { unimplemented!() }
}
impl FileName {
    #[verifier::external_body]
    pub fn cmp(&self, other: &FileName) -> (r: Ordering)
        ensures r is Less <==> fname_lt(*self, *other), r is Equal <==> *self == *other, r is Greater <==> fname_lt(*other, *self),
    { unimplemented!() }
}
pub struct MNode { pub name: EscName, pub subtree: Option<TreeId>, pub meta: MMeta, pub dir: bool, pub rest: u64 }
pub struct MMeta { pub size: u64 }
impl MNode {
    #[verifier::external_body]
    pub fn name(&self) -> (r: FileName) ensures r == unesc(self.name), { unimplemented!() }
    pub fn is_dir(&self) -> (r: bool) ensures r == self.dir, { self.dir }
}
pub struct SortedNode(pub MNode, pub usize);

// ---- the k-way merge loop of blob::tree::merge_trees ----
#[verifier::external_body]
pub proof fn axiom_fname_total_order()
    ensures
        forall|a: FileName| !#[trigger] fname_lt(a, a),
        forall|a: FileName, b: FileName, c: FileName| #![trigger fname_lt(a, b), fname_lt(b, c)] fname_lt(a, b) && fname_lt(b, c) ==> fname_lt(a, c),
        forall|a: FileName, b: FileName| #![trigger fname_lt(a, b)] a == b || fname_lt(a, b) || fname_lt(b, a),
{}
// stored names are canonical escapes (what escape_filename produces): two stored names stand for the same file name
// only if they are the same string (ASSUMED; a foreign writer could store non-canonical escapes)
#[verifier::external_body]
pub proof fn axiom_unesc_injective()
    ensures forall|a: EscName, b: EscName| #![trigger unesc(a), unesc(b)] unesc(a) == unesc(b) ==> a == b,
{}
pub open spec fn fn_of(n: MNode) -> FileName { unesc(n.name) }
pub open spec fn strictly_sorted(s: Seq<MNode>) -> bool { forall|a: int, b: int| 0 <= a < b < s.len() ==> fname_lt(fn_of(s[a]), fn_of(s[b])) }
#[verifier::external_body]
pub fn vname_ne(a: &EscName, b: &EscName) -> (r: bool) ensures r == (*a != *b), { unimplemented!() }
// vec::IntoIter<Node> of one input tree: the nodes not yet taken
pub struct VNodeIter { pub rem: Ghost<Seq<MNode>> }
// tree_iters[num].next()
#[verifier::external_body]
pub fn vnext_of(iters: &mut Vec<VNodeIter>, num: usize) -> (r: Option<MNode>)
    requires num < old(iters)@.len(),
    ensures
        final(iters)@.len() == old(iters)@.len(),
        forall|j: int| 0 <= j < old(iters)@.len() && j != num ==> final(iters)@[j] == old(iters)@[j],
        old(iters)@[num as int].rem@.len() == 0 ==> r is None && final(iters)@[num as int].rem@ == old(iters)@[num as int].rem@,
        old(iters)@[num as int].rem@.len() > 0 ==> r == Some(old(iters)@[num as int].rem@[0]) && final(iters)@[num as int].rem@ == old(iters)@[num as int].rem@.drop_first(),
{ unimplemented!() }
// BinaryHeap<SortedNode>: a max-heap by SortedNode::cmp.  The unit merge_heap_order proves that cmp is the REVERSE of the
// file-name order, so pop returns an element with the SMALLEST file name (BinaryHeap semantics ASSUMED)
pub struct VHeap { pub items: Ghost<Seq<(MNode, usize)>> }
impl VHeap {
    #[verifier::external_body]
    pub fn push(&mut self, e: SortedNode) ensures final(self).items@ == old(self).items@.push((e.0, e.1)), { unimplemented!() }
    #[verifier::external_body]
    pub fn len(&self) -> (r: usize) ensures r == self.items@.len(), { unimplemented!() }
    #[verifier::external_body]
    pub fn pop(&mut self) -> (r: Option<SortedNode>)
        ensures
            old(self).items@.len() == 0 ==> r is None && final(self).items@ == old(self).items@,
            old(self).items@.len() > 0 ==> r is Some,
            r matches Some(sn) ==> exists|k: int| 0 <= k < old(self).items@.len() && #[trigger] old(self).items@[k] == (sn.0, sn.1)
                && final(self).items@ == old(self).items@.remove(k),
            r matches Some(sn) ==> forall|j: int| 0 <= j < old(self).items@.len() ==> !fname_lt(fn_of((#[trigger] old(self).items@[j]).0), fn_of(sn.0)),
    { unimplemented!() }
}
pub struct MTree { pub nodes: Vec<MNode> }
impl MTree {
    pub fn add(&mut self, node: MNode) ensures final(self).nodes@ == old(self).nodes@.push(node), { self.nodes.push(node); }
}
pub struct SummaryM { pub files_unmodified: u64, pub total_files_processed: u64, pub total_bytes_processed: u64 }
// merge_nodes (unit merge_nodes_winner): the winner is one of the given nodes (all have the same file name), only its subtree changes
#[verifier::external_body]
pub fn vmerge_nodes(nodes: Vec<MNode>, summary: &mut SummaryM) -> (r: RusticResult<MNode>)
    requires nodes@.len() > 0,
    ensures r matches Ok(n) ==> exists|i: int| 0 <= i < nodes@.len() && n.name == (#[trigger] nodes@[i]).name,
{ unimplemented!() }
// does file name f occur among the pending inputs / in the output?
pub open spec fn in_seq(s: Seq<MNode>, f: FileName) -> bool { exists|i: int| 0 <= i < s.len() && fn_of(#[trigger] s[i]) == f }
pub open spec fn in_heap(h: Seq<(MNode, usize)>, f: FileName) -> bool { exists|i: int| 0 <= i < h.len() && fn_of((#[trigger] h[i]).0) == f }
pub open spec fn in_iters(it: Seq<VNodeIter>, f: FileName) -> bool { exists|j: int| 0 <= j < it.len() && in_seq((#[trigger] it[j]).rem@, f) }
// the heap holds, per input tree, at most its current head: an element of tree j smaller than everything left of tree j
pub open spec fn heap_ok(h: Seq<(MNode, usize)>, it: Seq<VNodeIter>, num: int) -> bool {
    &&& forall|i: int| 0 <= i < h.len() ==> 0 <= (#[trigger] h[i]).1 < it.len() && h[i].1 != num
            && forall|a: int| 0 <= a < it[h[i].1 as int].rem@.len() ==> fname_lt(fn_of(h[i].0), fn_of(#[trigger] it[h[i].1 as int].rem@[a]))
    &&& forall|i: int, k: int| 0 <= i < k < h.len() ==> (#[trigger] h[i]).1 != (#[trigger] h[k]).1
}
// every input other than `num` that still has nodes has its head in the heap
pub open spec fn heads_present(h: Seq<(MNode, usize)>, it: Seq<VNodeIter>, num: int) -> bool {
    forall|j: int| 0 <= j < it.len() && j != num && (#[trigger] it[j]).rem@.len() > 0 ==> exists|i: int| 0 <= i < h.len() && (#[trigger] h[i]).1 == j
}

pub proof fn lemma_after_pop(h1: Seq<(MNode, usize)>, h2: Seq<(MNode, usize)>, it: Seq<VNodeIter>, nn: MNode, nnum: usize)
    requires heap_ok(h1, it, -1), heads_present(h1, it, -1),
        exists|k: int| 0 <= k < h1.len() && #[trigger] h1[k] == (nn, nnum) && h2 == h1.remove(k),
        forall|j: int| 0 <= j < h1.len() ==> !fname_lt(fn_of((#[trigger] h1[j]).0), fn_of(nn)),
    ensures heap_ok(h2, it, nnum as int), heads_present(h2, it, nnum as int), nnum < it.len(),
        forall|a: int| 0 <= a < it[nnum as int].rem@.len() ==> fname_lt(fn_of(nn), fn_of(#[trigger] it[nnum as int].rem@[a])),
        forall|i: int| 0 <= i < h2.len() ==> !fname_lt(fn_of((#[trigger] h2[i]).0), fn_of(nn)),
        forall|f: FileName| in_heap(h1, f) ==> f == fn_of(nn) || in_heap(h2, f),
        exists|k: int| 0 <= k < h1.len() && (#[trigger] h1[k]).0 == nn,
{
    let k = choose|k: int| 0 <= k < h1.len() && #[trigger] h1[k] == (nn, nnum) && h2 == h1.remove(k);
    assert forall|i: int| 0 <= i < h2.len() implies h2[i] == h1[if i < k { i } else { i + 1 }] by {}
    assert forall|i: int| 0 <= i < h2.len() implies 0 <= (#[trigger] h2[i]).1 < it.len() && h2[i].1 != nnum as int
        && forall|a: int| 0 <= a < it[h2[i].1 as int].rem@.len() ==> fname_lt(fn_of(h2[i].0), fn_of(#[trigger] it[h2[i].1 as int].rem@[a])) by {
        let i1 = if i < k { i } else { i + 1 }; assert(h2[i] == h1[i1]); if i1 < k { assert(h1[i1].1 != h1[k].1); } else { assert(h1[k].1 != h1[i1].1); }
    }
    assert forall|i: int, m: int| 0 <= i < m < h2.len() implies (#[trigger] h2[i]).1 != (#[trigger] h2[m]).1 by {
        let i1 = if i < k { i } else { i + 1 }; let m1 = if m < k { m } else { m + 1 }; assert(h2[i] == h1[i1] && h2[m] == h1[m1]);
    }
    assert forall|j: int| 0 <= j < it.len() && j != nnum as int && (#[trigger] it[j]).rem@.len() > 0 implies exists|i: int| 0 <= i < h2.len() && (#[trigger] h2[i]).1 == j by {
        let i1 = choose|i1: int| 0 <= i1 < h1.len() && (#[trigger] h1[i1]).1 == j; assert(i1 != k);
        let i = if i1 < k { i1 } else { i1 - 1 }; assert(h2[i] == h1[i1]);
    }
    assert forall|i: int| 0 <= i < h2.len() implies !fname_lt(fn_of((#[trigger] h2[i]).0), fn_of(nn)) by { let i1 = if i < k { i } else { i + 1 }; assert(h2[i] == h1[i1]); }
    assert forall|f: FileName| in_heap(h1, f) implies f == fn_of(nn) || in_heap(h2, f) by {
        let i1 = choose|i1: int| 0 <= i1 < h1.len() && fn_of((#[trigger] h1[i1]).0) == f;
        if i1 != k { let i = if i1 < k { i1 } else { i1 - 1 }; assert(h2[i] == h1[i1]); }
    }
}
pub proof fn lemma_group_name(grp0: Seq<MNode>, nd: MNode, grp1: Seq<MNode>, w: MNode)
    requires grp1 == grp0.push(nd), forall|i: int| 0 <= i < grp0.len() ==> fn_of(#[trigger] grp0[i]) == fn_of(nd),
        exists|i: int| 0 <= i < grp1.len() && w.name == (#[trigger] grp1[i]).name,
    ensures fn_of(w) == fn_of(nd),
{
    let i = choose|i: int| 0 <= i < grp1.len() && w.name == (#[trigger] grp1[i]).name;
    if i < grp0.len() { assert(grp1[i] == grp0[i]); }
}

// nodes.into_iter().max_by(|n1, n2| cmp(n1, n2)).unwrap(): one of the nodes (the last maximal one by the caller's ordering)
#[verifier::external_body]
pub fn vmax_by_cmp(nodes: Vec<MNode>) -> (r: MNode)
    requires nodes@.len() > 0,
    ensures exists|i: int| 0 <= i < nodes@.len() && r == #[trigger] nodes@[i],
{ unimplemented!() }
// the sub-directories of ALL directory entries of a group, in order
pub open spec fn dir_subtrees(nodes: Seq<MNode>) -> Seq<TreeId>
    decreases nodes.len()
{
    if nodes.len() == 0 { Seq::empty() }
    else if nodes.last().dir && nodes.last().subtree is Some { dir_subtrees(nodes.drop_last()).push(nodes.last().subtree->0) }
    else { dir_subtrees(nodes.drop_last()) }
}
// nodes.iter().filter(|node| node.is_dir()).map(|node| node.subtree.unwrap()).collect()  (unwrap: a directory entry has a subtree)
#[verifier::external_body]
pub fn vsubtrees_of_dirs(nodes: &Vec<MNode>) -> (r: Vec<TreeId>)
    requires forall|i: int| 0 <= i < nodes@.len() && (#[trigger] nodes@[i]).dir ==> nodes@[i].subtree is Some,
    ensures r@ == dir_subtrees(nodes@),
{ unimplemented!() }
// recursion: merge_trees on the given sub-directories.  PRECONDITION (what the property asks of the caller): they are the
// sub-directories of ALL directory entries of the group -- a sub-directory left out is content lost by the merge
#[verifier::external_body]
pub fn vmerge_subtrees(trees: &Vec<TreeId>, summary: &mut SummaryM, Ghost(group): Ghost<Seq<MNode>>) -> RusticResult<TreeId>
    requires trees@ == dir_subtrees(group),
{ unimplemented!() }

// ---- copy: which blobs of a tree are collected for copying ----
#[derive(Clone, Copy, PartialEq, Eq, Structural)]
pub struct DataIdC(pub u64);
#[derive(Clone, Copy, PartialEq, Eq, Structural)]
pub struct TreeIdC(pub u64);
pub enum NodeTypeC { File, Dir, Symlink, Dev, Chardev, Fifo, Socket }
pub struct NodeC { pub node_type: NodeTypeC, pub content: Option<Vec<DataIdC>>, pub subtree: Option<TreeIdC> }
pub struct TreeC { pub nodes: Vec<NodeC> }
// the destination's index (ids are enough): what it already has
pub struct VDestIndex { pub _opaque: u64 }
impl VDestIndex {
    pub uninterp spec fn data(&self) -> Set<DataIdC>;
    pub uninterp spec fn trees(&self) -> Set<TreeIdC>;
}
pub struct VIdSet<K> { pub s: Ghost<Set<K>> }
pub open spec fn content_c(c: Option<Vec<DataIdC>>) -> Seq<DataIdC> { match c { Some(v) => v@, None => Seq::empty() } }
// data_ids.extend(node.content.into_iter().flatten().filter(filter_data)) with filter_data = |id| !index_dest.has_data(id)
#[verifier::external_body]
pub fn vextend_missing_data(set: &mut VIdSet<DataIdC>, content: &Option<Vec<DataIdC>>, dest: &VDestIndex)
    ensures forall|k: DataIdC| #![trigger final(set).s@.contains(k)] final(set).s@.contains(k) <==> old(set).s@.contains(k)
        || (!dest.data().contains(k) && exists|i: int| 0 <= i < content_c(*content).len() && #[trigger] content_c(*content)[i] == k),
        forall|k: DataIdC| #![trigger old(set).s@.contains(k)] old(set).s@.contains(k) ==> final(set).s@.contains(k),
{ unimplemented!() }
// tree_ids.extend(node.subtree.into_iter().filter(filter_tree)) with filter_tree = |id| !index_dest.has_tree(id)
#[verifier::external_body]
pub fn vextend_missing_tree(set: &mut VIdSet<TreeIdC>, subtree: &Option<TreeIdC>, dest: &VDestIndex)
    ensures forall|k: TreeIdC| #![trigger final(set).s@.contains(k)] final(set).s@.contains(k) <==> old(set).s@.contains(k) || (!dest.trees().contains(k) && *subtree == Some(k)),
        forall|k: TreeIdC| #![trigger old(set).s@.contains(k)] old(set).s@.contains(k) ==> final(set).s@.contains(k),
{ unimplemented!() }

// BinaryHeap::new()
#[verifier::external_body]
pub fn vheap_new() -> (r: VHeap) ensures r.items@.len() == 0, { unimplemented!() }

// ---- copy: the walk that finds the blobs to copy ----
pub struct VBeCW { pub _opaque: u64 }
pub struct VSrcIndexCW { pub _opaque: u64 }
pub struct ProgressCW { pub _opaque: u64 }
pub struct PathCW { pub _opaque: u64 }
pub struct VTreeWalkC { pub left: Ghost<nat> }   // `left`: trees still to come (the stream is finite)
impl VTreeWalkC {
    // TreeStreamerOnce::new(be, index, roots, p): streams every tree reachable from `roots` once.  PRECONDITION (copy): the
    // walk starts from the root trees of ALL snapshots that are copied -- a root the destination already has says nothing
    // about the blobs below it
    #[verifier::external_body]
    pub fn vnew(be: &VBeCW, index: &VSrcIndexCW, roots: Vec<TreeIdC>, p: ProgressCW, all_roots: Ghost<Seq<TreeIdC>>) -> (r: RusticResult<VTreeWalkC>)
        requires roots@ == all_roots@,
    { unimplemented!() }
    #[verifier::external_body]
    pub fn next(&mut self) -> (r: Option<RusticResult<(PathCW, TreeC)>>)
        ensures r is Some ==> old(self).left@ > 0 && final(self).left@ == old(self).left@ - 1, r is None ==> final(self).left@ == old(self).left@,
    { unimplemented!() }
}
pub fn vtranspose_c<T>(o: Option<RusticResult<T>>) -> (r: RusticResult<Option<T>>)
    ensures r == (match o { Some(Ok(x)) => Ok::<Option<T>, Box<RusticError>>(Some(x)), Some(Err(e)) => Err::<Option<T>, Box<RusticError>>(e), None => Ok::<Option<T>, Box<RusticError>>(None) }),
{ match o { Some(Ok(x)) => Ok(Some(x)), Some(Err(e)) => Err(e), None => Ok(None) } }
// the per-tree node loop (unit copy_collect_nodes), seen as one call
#[verifier::external_body]
pub fn vcollect_nodes(tree: TreeC, data_ids: &mut VIdSet<DataIdC>, tree_ids: &mut VIdSet<TreeIdC>, index_dest: &VDestIndex) { unimplemented!() }
