// ===== C12 (merge): the k-way merge of sorted trees in blob::tree::merge_trees =====
// A node of a tree has its name in two forms: the STORED string (escaped, field `name`) and the file name it stands
// for (`name()`, unescaped).  The nodes of a tree are sorted by the file name (archiver, restic format; Parent::p_node
// and restore's merge walk rely on it).  The two orders differ (e.g. `x"` < `x#` as file names, but the stored `x\"` > `x#`).
pub struct EscName { pub _opaque: u64 }     // String: the stored, escaped name
pub struct FileName { pub _opaque: u64 }    // Cow<OsStr>: the unescaped name
pub uninterp spec fn esc_lt(a: EscName, b: EscName) -> bool;        // Ord of String (byte-wise on the escaped form)
pub uninterp spec fn fname_lt(a: FileName, b: FileName) -> bool;    // Ord of OsStr (byte-wise on the unescaped form)
pub uninterp spec fn unesc(e: EscName) -> FileName;                 // unescape_filename
pub enum Ordering { Less, Equal, Greater }
impl Ordering {
    pub fn reverse(self) -> (r: Ordering)
        ensures r == (match self { Ordering::Less => Ordering::Greater, Ordering::Equal => Ordering::Equal, Ordering::Greater => Ordering::Less }),
    { match self { Ordering::Less => Ordering::Greater, Ordering::Equal => Ordering::Equal, Ordering::Greater => Ordering::Less } }
}
impl EscName {
    #[verifier::external_body]
    pub fn cmp(&self, other: &EscName) -> (r: Ordering)
        ensures r is Less <==> esc_lt(*self, *other), r is Equal <==> *self == *other, r is Greater <==> esc_lt(*other, *self),
    { unimplemented!() }
}
impl FileName {
    #[verifier::external_body]
    pub fn cmp(&self, other: &FileName) -> (r: Ordering)
        ensures r is Less <==> fname_lt(*self, *other), r is Equal <==> *self == *other, r is Greater <==> fname_lt(*other, *self),
    { unimplemented!() }
}
pub struct MNode { pub name: EscName, pub rest: u64 }
impl MNode {
    #[verifier::external_body]
    pub fn name(&self) -> (r: FileName) ensures r == unesc(self.name), { unimplemented!() }
}
pub struct SortedNode(pub MNode, pub usize);
