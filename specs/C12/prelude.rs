// ===== C12 prelude: repair / rewrite kernels =====
#[derive(Clone, Copy, PartialEq, Eq, Structural)]
pub struct TreeId(pub u64);
#[derive(Clone, Copy, PartialEq, Eq, Structural)]
pub struct DataId(pub u64);
pub struct PathBuf { pub _opaque: u64 }
pub struct NameR { pub s: Ghost<Seq<char>> }
#[derive(Clone, Copy, PartialEq, Eq, Structural)]
pub enum NodeType { File, Dir, Symlink, Dev, Chardev, Fifo, Socket }
pub struct Metadata { pub size: u64, pub rest: u64 }
pub struct Node { pub name: NameR, pub node_type: NodeType, pub meta: Metadata, pub content: Option<Vec<DataId>>, pub subtree: Option<TreeId> }
pub struct RepairSnapshotsOptions { pub suffix: NameR }
// node.name += &self.opts.suffix
#[verifier::external_body]
pub fn vappend_suffix(name: &mut NameR, suffix: &NameR)
    ensures final(name).s@ == old(name).s@ + suffix.s@,
{ unimplemented!() }
pub struct IndexEntry { pub len: u32 }
impl IndexEntry {
    #[verifier::external_body]
    pub fn data_length(&self) -> (r: u32) ensures r == self.len, { unimplemented!() }
}
// the index as a partial map from data ids to plaintext lengths
pub struct VIndex { pub _opaque: u64 }
impl VIndex {
    pub uninterp spec fn data(&self) -> Map<DataId, u32>;
    #[verifier::external_body]
    pub fn get_data(&self, id: &DataId) -> (r: Option<IndexEntry>)
        ensures r matches Some(e) ==> self.data().dom().contains(*id) && e.len == self.data()[*id],
                r is None ==> !self.data().dom().contains(*id),
    { unimplemented!() }
}
pub struct RepairState<'a> { pub opts: &'a RepairSnapshotsOptions, pub index: &'a VIndex }
// the blobs of `c[0..n)` that the index still has, in order, and their total plaintext length
pub open spec fn kept(ix: VIndex, c: Seq<DataId>, n: int) -> Seq<DataId>
    decreases n
{
    if n <= 0 { Seq::empty() } else if ix.data().dom().contains(c[n - 1]) { kept(ix, c, n - 1).push(c[n - 1]) } else { kept(ix, c, n - 1) }
}
pub open spec fn kept_size(ix: VIndex, c: Seq<DataId>, n: int) -> int
    decreases n
{
    if n <= 0 { 0 } else if ix.data().dom().contains(c[n - 1]) { kept_size(ix, c, n - 1) + ix.data()[c[n - 1]] as int } else { kept_size(ix, c, n - 1) }
}
pub open spec fn all_present(ix: VIndex, c: Seq<DataId>, n: int) -> bool { forall|k: int| 0 <= k < n ==> ix.data().dom().contains(#[trigger] c[k]) }
pub proof fn lemma_kept_all(ix: VIndex, c: Seq<DataId>, n: int)
    requires 0 <= n <= c.len(), all_present(ix, c, n),
    ensures kept(ix, c, n) =~= c.subrange(0, n),
    decreases n
{
    if n > 0 { lemma_kept_all(ix, c, n - 1); assert(c.subrange(0, n) =~= c.subrange(0, n - 1).push(c[n - 1])); }
}
pub proof fn lemma_kept_size_bound(ix: VIndex, c: Seq<DataId>, n: int)
    requires 0 <= n <= c.len(),
    ensures 0 <= kept_size(ix, c, n) <= n * 0xFFFF_FFFF, kept(ix, c, n).len() <= n,
    decreases n
{
    if n > 0 { lemma_kept_size_bound(ix, c, n - 1); assert((n - 1) * 0xFFFF_FFFF + 0xFFFF_FFFF == n * 0xFFFF_FFFF) by (nonlinear_arith); }
}

// ---- TreeModifier::modify_tree: the bottom-up rewriting engine of rewrite and repair ----
pub struct Tree { pub nodes: Vec<Node> }
impl Tree {
    pub fn new() -> (r: Tree) ensures r.nodes@ == Seq::<Node>::empty(), { Tree { nodes: Vec::new() } }
    pub fn add(&mut self, node: Node) ensures final(self).nodes@ == old(self).nodes@.push(node), { self.nodes.push(node); }
}
#[verifier::external_body]
pub fn vclone_node(n: &Node) -> (r: Node) ensures r == *n, { unimplemented!() }
impl Node {
    #[verifier::external_body]
    pub fn name(&self) -> NameR { unimplemented!() }
}
impl PathBuf {
    #[verifier::external_body]
    pub fn new() -> PathBuf { unimplemented!() }
    #[verifier::external_body]
    pub fn join(&self, n: NameR) -> PathBuf { unimplemented!() }
    #[verifier::external_body]
    pub fn clone(&self) -> (r: PathBuf) ensures r == *self, { unimplemented!() }
}
// a visitor (RepairState, the rewrite visitor ...): arbitrary answers.  Ghost bookkeeping: `reported` remembers whether it
// ever asked for a change; `levels` is a stack with one record per tree level being processed:
//   dirty   -- an answer at that level demands that the tree be rewritten (a node changed / removed / created, a subtree
//              changed or removed)
//   expect  -- the nodes the rebuilt tree of that level must consist of, in order, as the answers so far dictate
//   pending -- the directory node whose subtree is being visited right now (between process_node and post_process_tree)
pub ghost struct Level { pub dirty: bool, pub expect: Seq<Node>, pub pending: Option<Node> }
pub struct VVisitor { pub reported: Ghost<bool>, pub levels: Ghost<Seq<Level>> }
pub uninterp spec fn TREE_ID(nodes: Seq<Node>) -> TreeId;   // id of the serialized tree
pub open spec fn with_subtree(n: Node, t: TreeId) -> Node { Node { subtree: Some(t), ..n } }
pub open spec fn upd_top(s: Seq<Level>, l: Level) -> Seq<Level> { if s.len() == 0 { s } else { s.update(s.len() - 1, l) } }
pub open spec fn after_answer(l: Level, r: NodeAction) -> Level {
    match r {
        NodeAction::Node(n, ch) => Level { dirty: l.dirty || ch, expect: l.expect.push(n), pending: None },
        NodeAction::Removed => Level { dirty: true, expect: l.expect, pending: None },
        NodeAction::CreateTree(n) => Level { dirty: true, expect: l.expect.push(with_subtree(n, TREE_ID(Seq::empty()))), pending: None },
        NodeAction::VisitTree(_, n, ch) => Level { dirty: l.dirty || ch, expect: l.expect, pending: Some(n) },
    }
}
pub open spec fn after_subtree(l: Level, r: ModifierChange) -> Level {
    match (r, l.pending) {
        (ModifierChange::Removed, _) => Level { dirty: true, expect: l.expect, pending: None },
        (ModifierChange::Unchanged, Some(n)) => Level { dirty: l.dirty, expect: l.expect.push(n), pending: None },
        (ModifierChange::Changed(t), Some(n)) => Level { dirty: true, expect: l.expect.push(with_subtree(n, t)), pending: None },
        (_, None) => Level { dirty: l.dirty || !(r is Unchanged), expect: l.expect, pending: None },
    }
}
impl VVisitor {
    #[verifier::external_body]
    pub fn pre_process(&self, path: &PathBuf, id: TreeId) -> (r: ModifierAction)
        ensures r matches ModifierAction::Change(c) ==> (!(c is Unchanged) ==> self.reported@),   // memoised answers stem from earlier reports
    { unimplemented!() }
    // called once per tree level that is processed: opens the level
    #[verifier::external_body]
    pub fn pre_process_tree(&mut self, tree: RusticResult<Tree>) -> (r: RusticResult<TreeAction>)
        ensures final(self).reported@ == (old(self).reported@ || (r matches Ok(TreeAction::ProcessChangedTree(_)))),
            r is Ok ==> final(self).levels@ == old(self).levels@.push(Level { dirty: r matches Ok(TreeAction::ProcessChangedTree(_)), expect: Seq::empty(), pending: None }),
    { unimplemented!() }
    #[verifier::external_body]
    pub fn process_node(&mut self, path: &PathBuf, node: Node, id: TreeId) -> (r: NodeAction)
        ensures ({ let ch = match r { NodeAction::Node(_, ch) => ch, NodeAction::Removed => true, NodeAction::CreateTree(_) => true, NodeAction::VisitTree(_, _, ch) => ch };
            final(self).reported@ == (old(self).reported@ || ch) }),
            old(self).levels@.len() > 0 ==> final(self).levels@ == upd_top(old(self).levels@, after_answer(old(self).levels@.last(), r)),
            old(self).levels@.len() == 0 ==> final(self).levels@ == old(self).levels@,
    { unimplemented!() }
    #[verifier::external_body]
    pub fn post_process_tree(&mut self, path: PathBuf, tree: TreeId, parent_tree: TreeId, modify_result: ModifierChange) -> (r: ModifierChange)
        ensures final(self).reported@ == (old(self).reported@ || !(r is Unchanged)),
            old(self).levels@.len() > 0 ==> final(self).levels@ == upd_top(old(self).levels@, after_subtree(old(self).levels@.last(), r)),
            old(self).levels@.len() == 0 ==> final(self).levels@ == old(self).levels@,
    { unimplemented!() }
    // called once at the end of a processed level: closes it.  OBLIGATIONS: the rebuilt tree consists of exactly the nodes
    // the answers of this level dictate, in order; and if an answer demanded a rewrite, the tree was rebuilt and saved
    // (`rewritten` = the local `changed` flag that guards save_tree)
    #[verifier::external_body]
    pub fn post_process(&mut self, path: PathBuf, id: TreeId, new_id: Option<TreeId>, tree: &Tree, Ghost(rewritten): Ghost<bool>)
        requires old(self).levels@.len() > 0, old(self).levels@.last().dirty ==> rewritten,
            tree.nodes@ == old(self).levels@.last().expect,
        ensures final(self).reported@ == old(self).reported@, final(self).levels@ == old(self).levels@.drop_last(),
    { unimplemented!() }
}
pub struct VBeM { pub _opaque: u64 }
pub struct TreeModifier<'a> { pub be: &'a VBeM, pub index: &'a VIndex, pub dry_run: bool }
#[verifier::external_body]
pub fn vtree_from_backend(be: &VBeM, index: &VIndex, id: TreeId) -> RusticResult<Tree> { unimplemented!() }
impl<'a> TreeModifier<'a> {
    // save_tree (C15 unit).  EFFECT AS PRECONDITION: a tree is written only when a change was flagged
    #[verifier::external_body]
    pub fn vsave_tree(&self, changed: bool, t: &Tree) -> (r: RusticResult<TreeId>)
        requires changed,
        ensures r matches Ok(id) ==> id == TREE_ID(t.nodes@),
    { unimplemented!() }
}

// ---- RewriteVisitor::process_node: a node is removed iff the exclude globs match its path ----
pub enum Match { None, Ignore(u64), Whitelist(u64) }
// the `ignore` crate's glob override set: uninterpreted decision per (path, is_dir)
pub uninterp spec fn EXCLUDED(p: PathBuf, is_dir: bool) -> bool;
pub struct Override { pub _opaque: u64 }
impl Override {
    #[verifier::external_body]
    pub fn matched(&self, path: &PathBuf, is_dir: bool) -> (r: Match) ensures (r is Ignore) == EXCLUDED(*path, is_dir), { unimplemented!() }
}
// NodeModification::modify_node (metadata edits such as uid/gid overrides): uninterpreted result
pub uninterp spec fn MODIFIED(n: Node) -> Node;
pub uninterp spec fn WAS_MODIFIED(n: Node) -> bool;
pub struct NodeModification { pub _opaque: u64 }
impl NodeModification {
    #[verifier::external_body]
    pub fn modify_node(&self, node: &mut Node) -> (r: bool)
        ensures *final(node) == MODIFIED(*old(node)), r == WAS_MODIFIED(*old(node)),
            // it edits metadata only: kind and links to content stay
            final(node).node_type == old(node).node_type && final(node).subtree == old(node).subtree && final(node).content == old(node).content,
    { unimplemented!() }
}
pub uninterp spec fn n_is_dir(n: Node) -> bool;
impl Node {
    #[verifier::external_body]
    pub fn is_dir(&self) -> (r: bool) ensures r == (self.node_type is Dir), { unimplemented!() }
}

// ---- repair index: PackChecker::check_pack (what happens to the entries of one index file) ----
#[derive(Clone, Copy, PartialEq, Eq, Structural)]
pub struct PackId(pub u64);
pub struct IndexPack { pub id: PackId, pub rest: u64 }
pub uninterp spec fn PSIZE(p: IndexPack) -> u32;   // IndexPack::pack_size()
pub uninterp spec fn HSIZE(p: IndexPack) -> u32;   // PackHeaderRef::from_index_pack(&p).size()
impl IndexPack {
    #[verifier::external_body]
    pub fn pack_size(&self) -> (r: u32) ensures r == PSIZE(*self), { unimplemented!() }
}
#[verifier::external_body]
pub fn vheader_size_of(p: &IndexPack) -> (r: u32) ensures r == HSIZE(*p), { unimplemented!() }
pub struct IndexFile { pub packs: Vec<IndexPack>, pub packs_to_delete: Vec<IndexPack> }
pub open spec fn all_packs_spec(f: IndexFile) -> Seq<(IndexPack, bool)> {
    Seq::new(f.packs@.len() + f.packs_to_delete@.len(), |i: int| if i < f.packs@.len() { (f.packs@[i], false) } else { (f.packs_to_delete@[i - f.packs@.len()], true) })
}
impl IndexFile {
    #[verifier::external_body]
    pub fn default() -> (r: IndexFile) ensures r.packs@.len() == 0 && r.packs_to_delete@.len() == 0, { unimplemented!() }
    // ASSUMED (iterator adapters): live packs tagged false, then marked packs tagged true
    #[verifier::external_body]
    pub fn all_packs(self) -> (r: Vec<(IndexPack, bool)>) ensures r@ == all_packs_spec(self), { unimplemented!() }
    // IndexFile::add (unit of C07)
    #[verifier::external_body]
    pub fn add(&mut self, p: IndexPack, delete: bool)
        ensures delete ==> final(self).packs_to_delete@ == old(self).packs_to_delete@.push(p) && final(self).packs@ == old(self).packs@,
                !delete ==> final(self).packs@ == old(self).packs@.push(p) && final(self).packs_to_delete@ == old(self).packs_to_delete@,
    { unimplemented!() }
}
pub struct VPackSizes { pub m: Ghost<Map<PackId, u32>> }
impl VPackSizes {
    pub open spec fn view(&self) -> Map<PackId, u32> { self.m@ }
    #[verifier::external_body]
    pub fn remove(&mut self, id: &PackId) -> (r: Option<u32>)
        ensures final(self)@ == old(self)@.remove(*id),
            old(self)@.dom().contains(*id) ==> r == Some(old(self)@[*id]), !old(self)@.dom().contains(*id) ==> r is None,
    { unimplemented!() }
}
pub struct PackChecker { pub packs: VPackSizes, pub packs_to_read: Vec<(PackId, Option<u32>, u32)> }
// an index file is "sound w.r.t. the pack listing": its packs are distinct, exist, and have the indexed size
pub open spec fn file_is_sound(f: IndexFile, listing: Map<PackId, u32>) -> bool {
    let a = all_packs_spec(f);
    &&& forall|i: int| 0 <= i < a.len() ==> listing.dom().contains((#[trigger] a[i]).0.id) && listing[a[i].0.id] == PSIZE(a[i].0)
    &&& forall|i: int, j: int| 0 <= i < j < a.len() ==> (#[trigger] a[i]).0.id != (#[trigger] a[j]).0.id
}
#[verifier::external_body]
pub fn vclone_ipack(p: &IndexPack) -> (r: IndexPack) ensures r == *p, { unimplemented!() }

// ---- the memo tables of RewriteVisitor (std BTreeMap / BTreeSet as map / set) ----
pub struct BTreeMap<K, V> { pub m: Ghost<Map<K, V>> }
impl<K, V> BTreeMap<K, V> {
    pub open spec fn view(&self) -> Map<K, V> { self.m@ }
    #[verifier::external_body]
    pub fn get(&self, k: &K) -> (r: Option<&V>)
        ensures self@.dom().contains(*k) ==> (r matches Some(v) && *v == self@[*k]), !self@.dom().contains(*k) ==> r is None,
    { unimplemented!() }
    #[verifier::external_body]
    pub fn insert(&mut self, k: K, v: V) -> (r: Option<V>) ensures final(self)@ == old(self)@.insert(k, v), { unimplemented!() }
}
pub struct BTreeSet<K> { pub s: Ghost<Set<K>> }
impl<K> BTreeSet<K> {
    pub open spec fn view(&self) -> Set<K> { self.s@ }
    #[verifier::external_body]
    pub fn contains(&self, k: &K) -> (r: bool) ensures r == self@.contains(*k), { unimplemented!() }
    #[verifier::external_body]
    pub fn insert(&mut self, k: K) -> (r: bool) ensures final(self)@ == old(self)@.insert(k), { unimplemented!() }
}
pub struct Summary { pub _opaque: u64 }
// statistics of the rewritten trees (files / dirs / size per tree id): not part of the property
#[verifier::external_body]
pub fn vsummary_update(m: &mut BTreeMap<TreeId, Summary>, id: TreeId, node: &Node) { unimplemented!() }
#[verifier::external_body]
pub fn vsummary_record(m: &mut BTreeMap<TreeId, Summary>, id: TreeId, new_id: Option<TreeId>, tree: &Tree) { unimplemented!() }
// what the memo tables answer for (path, id): a result is reused only for the very path it was computed for
pub open spec fn memo_answer(u: Set<(PathBuf, TreeId)>, c: Map<(PathBuf, TreeId), TreeId>, p: PathBuf, id: TreeId) -> ModifierAction {
    if u.contains((p, id)) { ModifierAction::Change(ModifierChange::Unchanged) }
    else if c.dom().contains((p, id)) { ModifierAction::Change(ModifierChange::Changed(c[(p, id)])) }
    else { ModifierAction::Process(id) }
}
