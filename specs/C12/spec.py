"""C12 — copy, merge, rewrite and repair preserve all content they keep (per-node / per-tree kernels)."""
from tools.extract import Unit, Rw
from tools.krun import Harness

PROPERTY = "C12"
PRELUDE = ["../common/base.rs", "prelude.rs", "merge.rs"]
RSN = "crates/core/src/commands/repair/snapshots.rs"
MOD = "crates/core/src/blob/tree/modify.rs"
R_LOG = Rw("", "", count=None, kind="log", why="logging removed")
R_ATTRS = Rw("", "", count=None, kind="attrs", optional=True, why="derive helper attributes removed")

UNITS = [
    Unit(name="NodeAction", file=MOD, kind="type", anchor="pub enum NodeAction {", rewrites=[R_ATTRS]),
    Unit(name="repair_process_node", file=RSN, anchor="fn process_node(&mut self, _path: &PathBuf, mut node: Node, _id: TreeId) -> NodeAction", within="impl<I: ReadGlobalIndex> Visitor for RepairState<'_, I> {", ret_name="r",
         wrap_open="impl<'a> RepairState<'a> {", wrap_close="}",
         functions=["<commands::repair::snapshots::RepairState as Visitor>::process_node"],
         rewrites=[
             R_LOG,
             Rw("for blob in node.content.take().unwrap() {", "let vcontent = node.content.take().unwrap(); let ghost c0 = vcontent@; for b in it: vcontent.iter() { let blob = *b;", why="by-value iteration of the taken content -> by reference; Verus for-loop syntax"),
             Rw(r"self\.index\.get_data\(&blob\)\.map_or_else\(\s*\|\| \{(?P<none>.*?)\},\s*\|ie\| \{(?P<some>.*?)\},\s*\);", r"match self.index.get_data(&blob) { None => {\g<none>}, Some(ie) => {\g<some>}, }", regex=True,
                why="Option::map_or_else(|| A, |ie| B) -> match { None => A, Some(ie) => B } (definition; both closures mutate captured locals)"),
             Rw("node.name += &self.opts.suffix;", "vappend_suffix(&mut node.name, &self.opts.suffix);", why="String += &str -> stub"),
         ],
         contract="""
    requires
        node.node_type is File ==> node.content is Some,   // `.take().unwrap()`: files carry a content list (check reports FileHasNoContent otherwise)
        node.content matches Some(c) ==> c@.len() <= 0x1_0000_0000,   // the u64 size sum cannot wrap: at most 2^32 blobs of < 4 GiB
    ensures
        // a file keeps exactly those of its blobs the index still has, in order; it is flagged (and renamed with the suffix)
        // iff at least one is missing -- so a file that is kept UNMARKED has its original content, and on an undamaged
        // repository nothing changes
        /*@repaired_file_keeps_exactly_the_indexed_blobs*/ node.node_type is File ==> (r matches NodeAction::Node(n, changed) && ({
            let c = node.content->Some_0@;
            &&& n.content is Some && n.content->Some_0@ == kept(*old(self).index, c, c.len() as int)
            &&& changed == !all_present(*old(self).index, c, c.len() as int)
            &&& n.meta.size as int == kept_size(*old(self).index, c, c.len() as int)
            &&& (!changed ==> n.content->Some_0@ == c && n.name == node.name)
            &&& (changed ==> n.name.s@ == node.name.s@ + old(self).opts.suffix.s@)
            &&& n.node_type == node.node_type && n.subtree == node.subtree && n.meta.rest == node.meta.rest
        })),
        /*@directories_are_visited_or_created*/ node.node_type is Dir ==> (match node.subtree { Some(t) => r matches NodeAction::VisitTree(t2, n, ch) && t2 == t && n == node && !ch,
                                                                                   None => r matches NodeAction::CreateTree(n) && n == node }),
        /*@other_nodes_untouched*/ !(node.node_type is File) && !(node.node_type is Dir) ==> (r matches NodeAction::Node(n, ch) && n == node && !ch),
""",
         loops={1: """
                    invariant
                        vcontent@ == c0, c0.len() <= 0x1_0000_0000,
                        new_content@ == kept(*self.index, c0, it.index@),
                        new_size as int == kept_size(*self.index, c0, it.index@),
                        file_changed == !all_present(*self.index, c0, it.index@),
"""},
         hints=[("loop_start", "1", "                    proof { assert(c0[it.index@] == *b); lemma_kept_size_bound(*self.index, c0, it.index@); lemma_kept_size_bound(*self.index, c0, it.index@ + 1); assert(c0.len() * 0xFFFF_FFFF <= u64::MAX) by (nonlinear_arith) requires c0.len() <= 0x1_0000_0000; assert((it.index@ + 1) * 0xFFFF_FFFF <= c0.len() * 0xFFFF_FFFF) by (nonlinear_arith) requires it.index@ + 1 <= c0.len(); }"),
                ("after_loop", "1", "                proof { if !file_changed { lemma_kept_all(*self.index, c0, c0.len() as int); assert(c0.subrange(0, c0.len() as int) =~= c0); } }")],
         ),
]

UNITS += [
    Unit(name="ModifierChange", file=MOD, kind="type", anchor="pub enum ModifierChange {", rewrites=[R_ATTRS]),
    Unit(name="ModifierAction", file=MOD, kind="type", anchor="pub enum ModifierAction {", rewrites=[R_ATTRS]),
    Unit(name="TreeAction", file=MOD, kind="type", anchor="pub enum TreeAction {", rewrites=[R_ATTRS]),
    Unit(name="modify_tree", file=MOD, anchor="pub fn modify_tree<V: Visitor>(", within="impl<'a, BE: DecryptFullBackend, I: ReadGlobalIndex> TreeModifier<'a, BE, I> {", ret_name="r",
         wrap_open="impl<'a> TreeModifier<'a> {", wrap_close="}", attrs="#[verifier::exec_allows_no_decreases_clause]",
         functions=["blob::tree::modify::TreeModifier::modify_tree"],
         rewrites=[
             Rw("pub fn modify_tree<V: Visitor>(", "pub fn modify_tree(", sig=True, why="generic visitor -> visitor stub with arbitrary answers"),
             Rw("visitor: &mut V,", "visitor: &mut VVisitor,", sig=True, why="generic visitor -> visitor stub"),
             Rw("Tree::from_backend(self.be, self.index, id)", "vtree_from_backend(self.be, self.index, id)", why="Tree::from_backend (index lookup, read, decrypt, parse) -> stub"),
             Rw("for node in tree {", "for n in it: tree.nodes.iter() { let node = vclone_node(n);", why="by-value iteration of the tree's nodes -> by reference + clone; Verus for-loop syntax"),
             Rw(r"changed \|= (?P<e>\w+);", r"changed = changed || \g<e>;", regex=True, count=None, why="`|=` on bool -> `||` (same value; Verus rejects `|` on bool)"),
             Rw("self.save_tree(", "self.vsave_tree(changed, ", count=None, why="save_tree -> effectful stub: PRECONDITION 'a change was flagged'"),
             Rw("visitor.post_process(path, id, new_id, &new_tree);", "visitor.post_process(path, id, new_id, &new_tree, Ghost(changed));", why="ghost argument: the flag that guarded save_tree"),
             Rw("Ok(new_id.map_or_else(|| ModifierChange::Unchanged, ModifierChange::Changed))", "Ok(match new_id { None => ModifierChange::Unchanged, Some(i) => ModifierChange::Changed(i) })", why="Option::map_or_else with closure/constructor -> match (definition)"),
         ],
         contract="""
    ensures
        // a tree is reported as changed (and any tree blob is written at all: precondition of save_tree) only if the visitor
        // asked for a change somewhere below it -- a visitor that changes nothing leaves every snapshot as it is
        /*@changed_result_only_if_the_visitor_reported_a_change*/ r matches Ok(c) ==> (!(c is Unchanged) ==> final(visitor).reported@),
        /*@reports_are_only_accumulated*/ old(visitor).reported@ ==> final(visitor).reported@,
        // (implicit obligation, precondition of post_process: whenever an answer at a level demanded a rewrite -- a node changed,
        //  was removed or created, a subtree changed or was removed -- the level's tree is rebuilt and saved)
        // (second implicit obligation of post_process: the rebuilt tree of a level consists of exactly the nodes the visitor's
        //  answers dictate, in order -- kept nodes as returned, removed ones absent, visited directories with the id of their
        //  rewritten subtree, created directories with the id of the empty tree)
        /*@levels_are_balanced*/ r is Ok ==> final(visitor).levels@ =~= old(visitor).levels@,
""",
         loops={1: """
            invariant
                changed ==> visitor.reported@,
                old(visitor).reported@ ==> visitor.reported@,
                visitor.levels@.len() == old(visitor).levels@.len() + 1, visitor.levels@.drop_last() =~= old(visitor).levels@,
                visitor.levels@.last().dirty ==> changed,
                visitor.levels@.last().pending is None,
                new_tree.nodes@ == visitor.levels@.last().expect,
"""},
         ),
]

RWT = "crates/core/src/blob/tree/rewrite.rs"
UNITS += [
    Unit(name="rewrite_process_node", file=RWT, anchor="fn process_node(&mut self, path: &PathBuf, mut node: Node, id: TreeId) -> NodeAction", within="impl Visitor for RewriteVisitor {", ret_name="r",
         wrap_open="impl RewriteVisitor {", wrap_close="}",
         functions=["<blob::tree::rewrite::RewriteVisitor as Visitor>::process_node"],
         rewrites=[
             Rw("self.summary.entry(id).or_default().update(&node);", "vsummary_update(&mut self.summary, id, &node);", why="BTreeMap entry API + statistics -> stub"),
             Rw("self.node_modification.modify_node(&mut node) | self.all_trees", "{ let vm = self.node_modification.modify_node(&mut node); vm || self.all_trees }", why="non-short-circuit `|` on bool -> evaluate the call first, then `||` (same value and effects)"),
             Rw(r"if node\.is_dir\(\)\s*&& let Some\(subtree\) = node\.subtree\s*\{(?P<a>.*?)\} else \{(?P<b>.*?)\}\n        \}", r"match (node.is_dir(), node.subtree) { (true, Some(subtree)) => {\g<a>}, _ => {\g<b>} }\n        }", regex=True,
                why="let chain with else -> match on the pair (definition)"),
         ],
         contract="""
    ensures
        // rewriting removes exactly the excluded paths ...
        /*@removed_iff_excluded*/ (r is Removed) == EXCLUDED(*path, node.node_type is Dir),
        // ... and otherwise hands on the node with at most its metadata edited; directories are descended into
        /*@kept_node_is_the_metadata_edited_node*/ !EXCLUDED(*path, node.node_type is Dir) ==> ({
            let m = MODIFIED(node);
            let ch = WAS_MODIFIED(node) || old(self).all_trees;
            match (node.node_type is Dir, node.subtree) {
                (true, Some(t)) => r matches NodeAction::VisitTree(t2, n, c) && t2 == t && n == m && c == ch,
                _ => r matches NodeAction::Node(n, c) && n == m && c == ch,
            }
        }),
"""),
]

UNITS += [
    Unit(name="RewriteVisitor", file=RWT, kind="type", anchor="pub struct RewriteVisitor {", rewrites=[R_ATTRS]),
    Unit(name="rewrite_pre_process", file=RWT, anchor="fn pre_process(", within="impl Visitor for RewriteVisitor {", ret_name="r",
         wrap_open="impl RewriteVisitor {", wrap_close="}",
         functions=["<blob::tree::rewrite::RewriteVisitor as Visitor>::pre_process"],
         contract="""
    ensures
        // a memoised result is reused only for the very (path, tree) it was computed for: excludes are matched against full
        // paths, so the same tree at another path may rewrite differently
        /*@memo_is_per_path_and_tree*/ r == memo_answer(self.unchanged@, self.changed@, *path, id),
"""),
    Unit(name="rewrite_post_process", file=RWT, anchor="fn post_process(", within="impl Visitor for RewriteVisitor {",
         wrap_open="impl RewriteVisitor {", wrap_close="}",
         functions=["<blob::tree::rewrite::RewriteVisitor as Visitor>::post_process"],
         rewrites=[Rw(r"let mut summary = Summary::default\(\);.*?let _ = self\.summary\.insert\(new_id\.unwrap_or\(id\), summary\);", "vsummary_record(&mut self.summary, id, new_id, tree);", regex=True,
                      why="ELIDED: per-tree statistics (files / dirs / size), not part of the property")],
         contract="""
    ensures
        /*@result_recorded_under_its_path_and_tree*/ match new_id {
            Some(n) => final(self).changed@ == old(self).changed@.insert((path, id), n) && final(self).unchanged@ == old(self).unchanged@,
            None => final(self).unchanged@ == old(self).unchanged@.insert((path, id)) && final(self).changed@ == old(self).changed@,
        },
"""),
]

RIX = "crates/core/src/commands/repair/index.rs"
UNITS += [
    Unit(name="repair_index_check_pack", file=RIX, anchor="fn check_pack(&mut self, indexfile: IndexFile, read_all: bool) -> (IndexFile, bool)", within="impl PackChecker {", ret_name="r",
         wrap_open="impl PackChecker {", wrap_close="}",
         functions=["commands::repair::index::PackChecker::check_pack"],
         rewrites=[R_LOG,
                   Rw("for (p, to_delete) in indexfile.all_packs() {", "let ghost f0 = indexfile; let ghost pk0 = self.packs@; let vall = indexfile.all_packs(); for e in it: vall.iter() { let (p, to_delete) = (vclone_ipack(&e.0), e.1);", why="iterator chain -> vector; by-value items -> clone; Verus for-loop syntax"),
                   Rw("Some(PackHeaderRef::from_index_pack(&p).size()),", "Some(vheader_size_of(&p)),", why="PackHeaderRef::size (unit of C08) -> stub"),
         ],
         contract="""
    ensures
        // repairing the index of an undamaged repository changes nothing: a file all of whose packs exist (once) with the
        // indexed size is returned unchanged -- same packs, same sections, same order -- and nothing is queued for re-reading
        /*@sound_index_file_is_left_alone*/ !read_all && file_is_sound(indexfile, old(self).packs@) ==> !r.1 && r.0.packs@ == indexfile.packs@ && r.0.packs_to_delete@ == indexfile.packs_to_delete@
            && final(self).packs_to_read@ == old(self).packs_to_read@,
        // in general entries are only dropped, never invented, and each section only keeps its own packs
        /*@only_drops_entries*/ r.0.packs@.len() <= indexfile.packs@.len() && r.0.packs_to_delete@.len() <= indexfile.packs_to_delete@.len(),
        /*@unchanged_means_identical*/ !r.1 ==> r.0.packs@ == indexfile.packs@ && r.0.packs_to_delete@ == indexfile.packs_to_delete@,
        // a pack queued for re-reading its header is queued with the REAL size of its file (the listing's), which is where
        // PackHeader::from_file looks for the trailer -- and it is one of the listed packs
        /*@queued_with_the_real_file_size*/ old(self).packs_to_read@.len() <= final(self).packs_to_read@.len()
            && (forall|k: int| 0 <= k < old(self).packs_to_read@.len() ==> final(self).packs_to_read@[k] == old(self).packs_to_read@[k])
            && forall|k: int| old(self).packs_to_read@.len() <= k < final(self).packs_to_read@.len() ==>
                old(self).packs@.dom().contains((#[trigger] final(self).packs_to_read@[k]).0) && final(self).packs_to_read@[k].2 == old(self).packs@[final(self).packs_to_read@[k].0],
""",
         loops={1: """
            invariant
                old(self).packs_to_read@.len() <= self.packs_to_read@.len(),
                forall|k: int| 0 <= k < old(self).packs_to_read@.len() ==> self.packs_to_read@[k] == old(self).packs_to_read@[k],
                forall|k: int| old(self).packs_to_read@.len() <= k < self.packs_to_read@.len() ==>
                    pk0.dom().contains((#[trigger] self.packs_to_read@[k]).0) && self.packs_to_read@[k].2 == pk0[self.packs_to_read@[k].0],
                pk0 == old(self).packs@,
                vall@ == all_packs_spec(f0), f0 == indexfile,
                // the packs still in the listing are those of the start minus the ids seen so far
                forall|id: PackId| #![trigger self.packs@.dom().contains(id)] self.packs@.dom().contains(id) ==> pk0.dom().contains(id) && self.packs@[id] == pk0[id],
                forall|id: PackId| #![trigger pk0.dom().contains(id)] pk0.dom().contains(id) && !self.packs@.dom().contains(id) ==> exists|j: int| 0 <= j < it.index@ && (#[trigger] vall@[j]).0.id == id,
                forall|id: PackId| #![trigger pk0.dom().contains(id)] pk0.dom().contains(id) && (forall|j: int| 0 <= j < it.index@ ==> (#[trigger] vall@[j]).0.id != id) ==> self.packs@.dom().contains(id),
                // nothing dropped so far <=> new_index is exactly the prefix, split by section
                !changed ==> new_index.packs@ == f0.packs@.subrange(0, if it.index@ <= f0.packs@.len() { it.index@ } else { f0.packs@.len() as int })
                    && new_index.packs_to_delete@ == f0.packs_to_delete@.subrange(0, if it.index@ <= f0.packs@.len() { 0 } else { it.index@ - f0.packs@.len() })
                    && self.packs_to_read@ == old(self).packs_to_read@,
                new_index.packs@.len() <= (if it.index@ <= f0.packs@.len() { it.index@ } else { f0.packs@.len() as int }),
                new_index.packs_to_delete@.len() <= (if it.index@ <= f0.packs@.len() { 0 } else { it.index@ - f0.packs@.len() }),
                !read_all && file_is_sound(f0, pk0) ==> !changed,
"""},
         hints=[("loop_start", "1", """            proof {
                let k = it.index@;
                assert(vall@[k] == *e);
                if k < f0.packs@.len() { assert(f0.packs@.subrange(0, k + 1) =~= f0.packs@.subrange(0, k).push(f0.packs@[k])); }
                if k >= f0.packs@.len() {
                    let m = k - f0.packs@.len();
                    assert(f0.packs_to_delete@.subrange(0, m + 1) =~= f0.packs_to_delete@.subrange(0, m).push(f0.packs_to_delete@[m]));
                    assert(f0.packs@.subrange(0, f0.packs@.len() as int) =~= f0.packs@);
                }
            }"""),
                ("after_loop", "1", """        proof {
            assert(f0.packs@.subrange(0, f0.packs@.len() as int) =~= f0.packs@);
            assert(f0.packs_to_delete@.subrange(0, f0.packs_to_delete@.len() as int) =~= f0.packs_to_delete@);
        }""")],
         ),
]
TR = "crates/core/src/blob/tree.rs"
UNITS += [
    # the order of merge_trees' heap: it must be the order the nodes of a tree are sorted in (the unescaped name),
    # otherwise equal names of different trees are not adjacent in the merge and are emitted more than once
    Unit(name="merge_heap_order", file=TR, anchor="fn cmp(&self, other: &Self) -> Ordering", within="impl Ord for SortedNode {", ret_name="r",
         wrap_open="impl SortedNode {", wrap_close="}",
         functions=["blob::tree::merge_trees::SortedNode::cmp (order of the merge heap)"],
         contract="""
    ensures
        // BinaryHeap is a max-heap: the node popped first is the GREATEST by this cmp, so cmp is the reverse of the tree order
        /*@heap_pops_smallest_file_name_first*/ r is Greater <==> fname_lt(unesc(self.0.name), unesc(other.0.name)),
        /*@heap_pops_smallest_file_name_first_b*/ r is Less <==> fname_lt(unesc(other.0.name), unesc(self.0.name)),
        /*@heap_equal_means_same_file_name*/ r is Equal <==> unesc(self.0.name) == unesc(other.0.name),
"""),
]

UNITS += [
    # the merge loop itself: k sorted inputs, one heap; groups of equal names are handed to merge_nodes in name order
    Unit(name="merge_loop", file=TR, kind="block", within="pub(crate) fn merge_trees(",
         anchor="let mut nodes = Vec::new();\n    loop {", block_end="    let (id, size) = save(tree)?;\n    if trees.contains(&id) {",
         attrs="#[verifier::exec_allows_no_decreases_clause]",
         block_sig="fn merge_loop(tree_iters: &mut Vec<VNodeIter>, elems: &mut VHeap, tree0: MTree, node0: MNode, num0: usize, summary: &mut SummaryM) -> (r: RusticResult<MTree>)",
         block_tail="    Ok(tree)",
         functions=["blob::tree::merge_trees (the k-way merge loop: heap of the inputs' heads, groups of equal names)"],
         rewrites=[
             Rw(r"tree_iters\[(\w+)\]\.next\(\)", r"vnext_of(tree_iters, \1)", regex=True, why="IndexMut + Iterator::next on the num-th input -> stub: head of its remaining nodes"),
             Rw("merge_nodes(be, index, nodes, cmp, save, summary)?", "vmerge_nodes(nodes, summary)?", count=None, why="merge_nodes (recursion into sub-directories) -> stub carrying the postcondition of unit merge_nodes_winner"),
             Rw("node.name != new_node.name", "vname_ne(&node.name, &new_node.name)", why="String inequality -> stub"),
             Rw(r"\((\w+), (\w+)\) = \((\w+), (\w+)\);", r"\1 = \3; \2 = \4;", regex=True, count=None, why="destructuring assignment -> two assignments"),
         ],
         contract="""
    requires
        num0 < old(tree_iters)@.len(),
        tree0.nodes@.len() == 0,
        // every input tree is sorted by file name (strictly: a tree lists a name once) -- ASSUMED of stored trees
        forall|j: int| 0 <= j < old(tree_iters)@.len() ==> strictly_sorted((#[trigger] old(tree_iters)@[j]).rem@),
        // state after the initial fill + pop: `node` is the smallest head and comes from input `num`; the heap holds the other heads
        forall|a: int| 0 <= a < old(tree_iters)@[num0 as int].rem@.len() ==> fname_lt(fn_of(node0), fn_of(#[trigger] old(tree_iters)@[num0 as int].rem@[a])),
        heap_ok(old(elems).items@, old(tree_iters)@, num0 as int), heads_present(old(elems).items@, old(tree_iters)@, num0 as int),
        forall|i: int| 0 <= i < old(elems).items@.len() ==> !fname_lt(fn_of((#[trigger] old(elems).items@[i]).0), fn_of(node0)),
    ensures
        // the merged directory lists every name ONCE, in file-name order ...
        /*@merged_names_strictly_increasing*/ r matches Ok(t) ==> strictly_sorted(t.nodes@),
        // ... and every name of every input is in it (union)
        /*@every_input_name_is_listed*/ r matches Ok(t) ==> forall|f: FileName| (f == fn_of(node0) || in_heap(old(elems).items@, f) || in_iters(old(tree_iters)@, f)) ==> in_seq(t.nodes@, f),
""",
         loops={1: """
        invariant_except_break
            forall|i: int| 0 <= i < nodes@.len() ==> fn_of(#[trigger] nodes@[i]) == fn_of(node),
            forall|i: int| 0 <= i < tree.nodes@.len() ==> fname_lt(fn_of(#[trigger] tree.nodes@[i]), fn_of(node)),
            forall|f: FileName| (f == fn_of(node0) || in_heap(old(elems).items@, f) || in_iters(old(tree_iters)@, f))
                ==> (in_seq(tree.nodes@, f) || f == fn_of(node) || in_heap(elems.items@, f) || in_iters(tree_iters@, f)),
        invariant
            num < tree_iters@.len(), tree_iters@.len() == old(tree_iters)@.len(),
            forall|j: int| 0 <= j < tree_iters@.len() ==> strictly_sorted((#[trigger] tree_iters@[j]).rem@),
            forall|a: int| 0 <= a < tree_iters@[num as int].rem@.len() ==> fname_lt(fn_of(node), fn_of(#[trigger] tree_iters@[num as int].rem@[a])),
            heap_ok(elems.items@, tree_iters@, num as int), heads_present(elems.items@, tree_iters@, num as int),
            forall|i: int| 0 <= i < elems.items@.len() ==> !fname_lt(fn_of((#[trigger] elems.items@[i]).0), fn_of(node)),
            strictly_sorted(tree.nodes@),
        ensures
            strictly_sorted(tree.nodes@),
            forall|f: FileName| (f == fn_of(node0) || in_heap(old(elems).items@, f) || in_iters(old(tree_iters)@, f)) ==> in_seq(tree.nodes@, f),
"""},
         hints=[("before", "let mut nodes = Vec::new();", "    let mut tree = tree0; let mut node = node0; let mut num = num0; proof { axiom_fname_total_order(); axiom_unesc_injective(); }"),
                ("loop_start", "1", '        proof { axiom_fname_total_order(); axiom_unesc_injective(); }\n        let ghost it0 = tree_iters@; let ghost h0 = elems.items@; let ghost out0 = tree.nodes@; let ghost nd0 = node; let ghost grp0 = nodes@;'),
                ("after", "elems.push(SortedNode(next_node, num));", '            proof {\n                assert(it0[num as int].rem@[0] == next_node);\n                assert forall|a: int| 0 <= a < tree_iters@[num as int].rem@.len() implies fname_lt(fn_of(next_node), fn_of(#[trigger] tree_iters@[num as int].rem@[a])) by {\n                    assert(tree_iters@[num as int].rem@[a] == it0[num as int].rem@[a + 1]);\n                }\n                assert(elems.items@[h0.len() as int] == (next_node, num));\n                assert(fname_lt(fn_of(node), fn_of(it0[num as int].rem@[0])));\n                assert(!fname_lt(fn_of(next_node), fn_of(node)));\n                assert forall|i: int| 0 <= i < elems.items@.len() implies !fname_lt(fn_of((#[trigger] elems.items@[i]).0), fn_of(node)) by {\n                    if i < h0.len() { assert(elems.items@[i] == h0[i]); }\n                }\n            }'),
                ("before", "match elems.pop() {", '        let ghost it1 = tree_iters@; let ghost h1 = elems.items@;\n        proof {\n            assert forall|j: int| 0 <= j < it1.len() implies strictly_sorted((#[trigger] it1[j]).rem@) by {\n                if j == num { assert forall|a: int, b: int| 0 <= a < b < it1[j].rem@.len() implies fname_lt(fn_of(it1[j].rem@[a]), fn_of(it1[j].rem@[b])) by {\n                    if it0[j].rem@.len() > 0 { assert(it1[j].rem@[a] == it0[j].rem@[a + 1]); assert(it1[j].rem@[b] == it0[j].rem@[b + 1]); }\n                } } else { assert(it1[j] == it0[j]); }\n            }\n            assert(heap_ok(h1, it1, -1)) by {\n                assert forall|i: int| 0 <= i < h1.len() implies 0 <= (#[trigger] h1[i]).1 < it1.len() && h1[i].1 != -1\n                    && forall|a: int| 0 <= a < it1[h1[i].1 as int].rem@.len() ==> fname_lt(fn_of(h1[i].0), fn_of(#[trigger] it1[h1[i].1 as int].rem@[a])) by {\n                    if i < h0.len() { assert(h1[i] == h0[i]); assert(it1[h0[i].1 as int] == it0[h0[i].1 as int]); }\n                }\n                assert forall|i: int, k: int| 0 <= i < k < h1.len() implies (#[trigger] h1[i]).1 != (#[trigger] h1[k]).1 by {\n                    if k < h0.len() { assert(h1[i] == h0[i]); assert(h1[k] == h0[k]); } else { assert(h1[i] == h0[i]); }\n                }\n            }\n            assert(heads_present(h1, it1, -1)) by {\n                assert forall|j: int| 0 <= j < it1.len() && j != -1 && (#[trigger] it1[j]).rem@.len() > 0 implies exists|i: int| 0 <= i < h1.len() && (#[trigger] h1[i]).1 == j by {\n                    if j == num { assert(h1[h0.len() as int].1 == j); }\n                    else { assert(it1[j] == it0[j]); let i = choose|i: int| 0 <= i < h0.len() && (#[trigger] h0[i]).1 == j; assert(h1[i] == h0[i]); }\n                }\n            }\n            assert forall|f: FileName| in_heap(h0, f) || in_iters(it0, f) implies in_heap(h1, f) || in_iters(it1, f) by {\n                if in_heap(h0, f) { let i = choose|i: int| 0 <= i < h0.len() && fn_of((#[trigger] h0[i]).0) == f; assert(h1[i] == h0[i]); }\n                else {\n                    let j = choose|j: int| 0 <= j < it0.len() && in_seq((#[trigger] it0[j]).rem@, f);\n                    let a = choose|a: int| 0 <= a < it0[j].rem@.len() && fn_of(#[trigger] it0[j].rem@[a]) == f;\n                    if j == num {\n                        if a == 0 { assert(fn_of(h1[h0.len() as int].0) == f); }\n                        else { assert(it1[j].rem@[a - 1] == it0[j].rem@[a]); assert(in_seq(it1[j].rem@, f)); }\n                    } else { assert(it1[j] == it0[j]); assert(in_seq(it1[j].rem@, f)); }\n                }\n            }\n        }'),
                ("before", "break;", '                proof {\n                    lemma_group_name(grp0, nd0, grp0.push(nd0), tree.nodes@[out0.len() as int]);\n                    assert forall|a: int, b: int| 0 <= a < b < tree.nodes@.len() implies fname_lt(fn_of(tree.nodes@[a]), fn_of(tree.nodes@[b])) by {\n                        if b < out0.len() { assert(tree.nodes@[a] == out0[a] && tree.nodes@[b] == out0[b]); } else { assert(tree.nodes@[a] == out0[a]); }\n                    }\n                    assert forall|f: FileName| (f == fn_of(node0) || in_heap(old(elems).items@, f) || in_iters(old(tree_iters)@, f)) implies in_seq(tree.nodes@, f) by {\n                        assert(!in_heap(h1, f));\n                        assert(!in_iters(it1, f)) by { if in_iters(it1, f) { let j = choose|j: int| 0 <= j < it1.len() && in_seq((#[trigger] it1[j]).rem@, f); assert(it1[j].rem@.len() > 0); } }\n                        if in_seq(out0, f) { let i = choose|i: int| 0 <= i < out0.len() && fn_of(#[trigger] out0[i]) == f; assert(tree.nodes@[i] == out0[i]); }\n                        else { assert(fn_of(tree.nodes@[out0.len() as int]) == f); }\n                    }\n                }'),
                ("after", "                nodes = Vec::new();", '                proof { lemma_after_pop(h1, elems.items@, it1, new_node, new_num);\n                    lemma_group_name(grp0, nd0, grp0.push(nd0), tree.nodes@[out0.len() as int]);\n                    assert(fn_of(nd0) != fn_of(new_node));\n                    assert(fname_lt(fn_of(nd0), fn_of(new_node)));\n                    assert forall|a: int, b: int| 0 <= a < b < tree.nodes@.len() implies fname_lt(fn_of(tree.nodes@[a]), fn_of(tree.nodes@[b])) by {\n                        if b < out0.len() { assert(tree.nodes@[a] == out0[a] && tree.nodes@[b] == out0[b]); } else { assert(tree.nodes@[a] == out0[a]); }\n                    }\n                    assert forall|i: int| 0 <= i < tree.nodes@.len() implies fname_lt(fn_of(#[trigger] tree.nodes@[i]), fn_of(new_node)) by {\n                        if i < out0.len() { assert(tree.nodes@[i] == out0[i]); }\n                    }\n                    assert forall|f: FileName| (f == fn_of(node0) || in_heap(old(elems).items@, f) || in_iters(old(tree_iters)@, f))\n                        implies (in_seq(tree.nodes@, f) || f == fn_of(new_node) || in_heap(elems.items@, f) || in_iters(tree_iters@, f)) by {\n                        if in_seq(out0, f) { let i = choose|i: int| 0 <= i < out0.len() && fn_of(#[trigger] out0[i]) == f; assert(tree.nodes@[i] == out0[i]); }\n                        else if f == fn_of(nd0) { assert(fn_of(tree.nodes@[out0.len() as int]) == f); }\n                    }\n                }'),
                ("after", "Some(SortedNode(new_node, new_num)) => {", '                proof { lemma_after_pop(h1, elems.items@, it1, new_node, new_num);\n                    assert(fn_of(new_node) == fn_of(nd0));\n                    assert forall|i: int| 0 <= i < grp0.push(nd0).len() implies fn_of(#[trigger] grp0.push(nd0)[i]) == fn_of(new_node) by { if i < grp0.len() { assert(grp0.push(nd0)[i] == grp0[i]); } }\n                }'),
         ],
         ),
]

UNITS += [
    Unit(name="merge_nodes_winner", file=TR, kind="block", within="pub(crate) fn merge_nodes(",
         anchor="let trees: Vec<_> = nodes", block_end="@fn_end",
         block_sig="fn merge_nodes_winner(nodes: Vec<MNode>, summary: &mut SummaryM) -> (r: RusticResult<MNode>)",
         block_tail="",
         functions=["blob::tree::merge_nodes (whole body: sub-directories of the group, winner of the group, its subtree replaced by the merge)"],
         rewrites=[
             Rw(r"let trees: Vec<_> = nodes\s*\.iter\(\)\s*\.filter\(\|node\| node\.is_dir\(\)\)\s*\.map\(\|node\| node\.subtree\.unwrap\(\)\)\s*\.collect\(\);", "let trees = vsubtrees_of_dirs(&nodes);" + "\n" * 4, regex=True,
                why="iterator filter/map/collect with these closure literals -> stub: the sub-directories of all directory entries"),
             Rw("nodes.into_iter().max_by(|n1, n2| cmp(n1, n2)).unwrap()", "vmax_by_cmp(nodes)", why="Iterator::max_by with the caller's ordering -> stub: one of the nodes"),
             Rw("merge_trees(be, index, &trees, cmp, save, summary)?", "vmerge_subtrees(&trees, summary, Ghost(group))?", why="recursion into the sub-directories -> effectful stub: PRECONDITION 'all sub-directories of the group'"),
         ],
         contract="""
    requires nodes@.len() > 0, old(summary).files_unmodified < u64::MAX, old(summary).total_files_processed < u64::MAX,
        forall|i: int| 0 <= i < nodes@.len() ==> old(summary).total_bytes_processed + (#[trigger] nodes@[i]).meta.size <= u64::MAX,
        forall|i: int| 0 <= i < nodes@.len() && (#[trigger] nodes@[i]).dir ==> nodes@[i].subtree is Some,   // ASSUMED of stored trees
    ensures
        // the merged entry is one of the conflicting entries; only a directory's subtree is replaced (by the merge of the sub-directories)
        /*@winner_is_one_of_the_group*/ r matches Ok(n) ==> exists|i: int| 0 <= i < nodes@.len() && n.name == (#[trigger] nodes@[i]).name && n.meta == nodes@[i].meta && n.dir == nodes@[i].dir
            && (!n.dir ==> n == nodes@[i]),
""",
         hints=[("before", "let trees", "    let ghost group = nodes@;")]),
]

CPYF = "crates/core/src/commands/copy.rs"
UNITS += [
    Unit(name="copy_collect_nodes", file=CPYF, kind="block", within="pub(crate) fn copy<'a, R: IndexedFull, S: IndexedIds>(",
         anchor="for node in tree.nodes {", block_end="@for_end",
         block_sig="fn copy_collect_nodes(tree: &TreeC, data_ids: &mut VIdSet<DataIdC>, tree_ids: &mut VIdSet<TreeIdC>, index_dest: &VDestIndex)",
         block_tail="",
         functions=["commands::copy::copy (per-tree node loop: which blobs are collected for copying)"],
         rewrites=[
             Rw("for node in tree.nodes {", "for node in it: tree.nodes.iter() {", why="by-value iteration -> by reference; Verus for-loop syntax"),
             Rw("NodeType::", "NodeTypeC::", count=None, why="NodeType -> stub enum"),
             Rw("data_ids.extend(node.content.into_iter().flatten().filter(filter_data));", "vextend_missing_data(data_ids, &node.content, index_dest);", why="Extend + filter with the closure filter_data (= not in the destination index) -> stub"),
             Rw("tree_ids.extend(node.subtree.into_iter().filter(filter_tree));", "vextend_missing_tree(tree_ids, &node.subtree, index_dest);", why="Extend + filter with the closure filter_tree (= not in the destination index) -> stub"),
         ],
         contract="""
    ensures
        /*@nothing_dropped_from_the_copy_lists*/ (forall|k: DataIdC| old(data_ids).s@.contains(k) ==> final(data_ids).s@.contains(k)) && (forall|k: TreeIdC| old(tree_ids).s@.contains(k) ==> final(tree_ids).s@.contains(k)),
        // every chunk of every file and every sub-directory that the destination does not have yet is put on the copy lists
        /*@missing_file_chunks_are_collected*/ forall|i: int, j: int| 0 <= i < tree.nodes@.len() && tree.nodes@[i].node_type is File && 0 <= j < content_c(tree.nodes@[i].content).len()
            && !index_dest.data().contains(#[trigger] content_c(tree.nodes@[i].content)[j]) ==> final(data_ids).s@.contains(content_c(tree.nodes@[i].content)[j]),
        /*@missing_subtrees_are_collected*/ forall|i: int| 0 <= i < tree.nodes@.len() && (#[trigger] tree.nodes@[i]).node_type is Dir && tree.nodes@[i].subtree is Some
            && !index_dest.trees().contains(tree.nodes@[i].subtree->0) ==> final(tree_ids).s@.contains(tree.nodes@[i].subtree->0),
        // and nothing the destination already has is copied again
        /*@present_blobs_are_not_copied_again*/ forall|k: DataIdC| final(data_ids).s@.contains(k) && !old(data_ids).s@.contains(k) ==> !index_dest.data().contains(k),
""",
         loops={1: """
        invariant
            forall|k: DataIdC| old(data_ids).s@.contains(k) ==> data_ids.s@.contains(k), forall|k: TreeIdC| old(tree_ids).s@.contains(k) ==> tree_ids.s@.contains(k),
            forall|i: int, j: int| 0 <= i < it.index@ && tree.nodes@[i].node_type is File && 0 <= j < content_c(tree.nodes@[i].content).len()
                && !index_dest.data().contains(#[trigger] content_c(tree.nodes@[i].content)[j]) ==> data_ids.s@.contains(content_c(tree.nodes@[i].content)[j]),
            forall|i: int| 0 <= i < it.index@ && (#[trigger] tree.nodes@[i]).node_type is Dir && tree.nodes@[i].subtree is Some
                && !index_dest.trees().contains(tree.nodes@[i].subtree->0) ==> tree_ids.s@.contains(tree.nodes@[i].subtree->0),
            forall|k: DataIdC| data_ids.s@.contains(k) && !old(data_ids).s@.contains(k) ==> !index_dest.data().contains(k),
"""},
         hints=[("loop_start", "1", "        proof { assert(tree.nodes@[it.index@] == *node); }")],
         ),
]

UNITS += [
    # copy: the walk that collects the blobs to copy starts from the root trees of ALL copied snapshots
    Unit(name="copy_walk", file=CPYF, kind="block", within="pub(crate) fn copy<'a, R: IndexedFull, S: IndexedIds>(",
         anchor="let mut tree_streamer = TreeStreamerOnce::new(", block_end="let indexer = Indexer::new(be_dest.clone()).into_shared();",
         block_sig="fn copy_walk(be: &VBeCW, index: &VSrcIndexCW, snap_trees: Vec<TreeIdC>, p: ProgressCW, data_ids: &mut VIdSet<DataIdC>, tree_ids: &mut VIdSet<TreeIdC>, index_dest: &VDestIndex) -> (r: RusticResult<()>)",
         block_tail="    Ok(())",
         functions=["commands::copy::copy (the walk over the trees of the copied snapshots)"],
         rewrites=[
             Rw(r"TreeStreamerOnce::new\(be, index, (?P<r>[\w.():]+), p\)\?", r"VTreeWalkC::vnew(be, index, \g<r>, p, Ghost(snap_trees@))?", regex=True, why="TreeStreamerOnce (threads) -> stub: REQUIRES the roots of all copied snapshots"),
             Rw("tree_streamer.next().transpose()", "vtranspose_c(tree_streamer.next())", why="Option<Result>::transpose -> helper (definition)", optional=True),
             Rw(r"(?s)for node in tree\.nodes \{.*?\n        \}\n(?=    \})", "vcollect_nodes(tree, data_ids, tree_ids, index_dest);\n", regex=True, why="ELIDED here: the per-tree loop over the nodes (it is the unit copy_collect_nodes)"),
         ],
         contract="\n    // (implicit obligation: the precondition of the walk -- it starts from the root trees of all copied snapshots)\n",
         loops={1: "\n        invariant true,\n        decreases tree_streamer.left@,\n"},
         ),
]

UNITS += [
    # the fill phase in front of the merge loop: the head of every non-empty input goes into the heap under ITS input's number
    Unit(name="merge_fill_heap", file=TR, kind="block", within="pub(crate) fn merge_trees(",
         anchor="let mut elems = BinaryHeap::new();", block_end="let mut tree = Tree::new();",
         block_sig="fn merge_fill_heap(tree_iters: &mut Vec<VNodeIter>) -> (r: VHeap)",
         block_tail="    elems",
         functions=["blob::tree::merge_trees (fill phase: first node of every input into the heap)"],
         rewrites=[
             Rw("BinaryHeap::new()", "vheap_new()", why="BinaryHeap -> bag stub"),
             Rw(r"for (?:\(num, iter\) in tree_iters\.iter_mut\(\)\.enumerate\(\)|iter in &mut tree_iters|iter in tree_iters\.iter_mut\(\)) \{", "for num in itf: 0..tree_iters.len() {", regex=True, why="iter_mut() (with or without enumerate) over the inputs -> index loop over the same range"),
             Rw("iter.next()", "vnext_of(tree_iters, num)", why="Iterator::next on the num-th input -> stub: head of its remaining nodes"),
         ],
         contract="""
    requires forall|j: int| 0 <= j < old(tree_iters)@.len() ==> strictly_sorted((#[trigger] old(tree_iters)@[j]).rem@),
    ensures
        final(tree_iters)@.len() == old(tree_iters)@.len(),
        forall|j: int| 0 <= j < final(tree_iters)@.len() ==> strictly_sorted((#[trigger] final(tree_iters)@[j]).rem@),
        // exactly the state the merge loop starts from (after its first pop: lemma_after_pop): every heap item is the head of
        // the input whose number it carries and smaller than everything left of that input; every non-empty input has its head there
        /*@heap_holds_the_head_of_each_input_under_its_number*/ heap_ok(r.items@, final(tree_iters)@, -1) && heads_present(r.items@, final(tree_iters)@, -1),
        // nothing is lost: every name of every input is in the heap or still in its input
        /*@fill_loses_no_name*/ forall|f: FileName| in_iters(old(tree_iters)@, f) ==> in_heap(r.items@, f) || in_iters(final(tree_iters)@, f),
""",
         loops={1: """
        invariant
            tree_iters@.len() == old(tree_iters)@.len(),
            forall|j: int| 0 <= j < tree_iters@.len() ==> strictly_sorted((#[trigger] tree_iters@[j]).rem@),
            forall|j: int| num <= j < tree_iters@.len() ==> (#[trigger] tree_iters@[j]) == old(tree_iters)@[j],
            forall|i: int| 0 <= i < elems.items@.len() ==> 0 <= (#[trigger] elems.items@[i]).1 < num
                && forall|a: int| 0 <= a < tree_iters@[elems.items@[i].1 as int].rem@.len() ==> fname_lt(fn_of(elems.items@[i].0), fn_of(#[trigger] tree_iters@[elems.items@[i].1 as int].rem@[a])),
            forall|i: int, k: int| 0 <= i < k < elems.items@.len() ==> (#[trigger] elems.items@[i]).1 != (#[trigger] elems.items@[k]).1,
            forall|j: int| 0 <= j < num && (#[trigger] tree_iters@[j]).rem@.len() > 0 ==> exists|i: int| 0 <= i < elems.items@.len() && (#[trigger] elems.items@[i]).1 == j,
            forall|j: int, f: FileName| #![trigger in_seq(old(tree_iters)@[j].rem@, f)] 0 <= j < tree_iters@.len() && in_seq(old(tree_iters)@[j].rem@, f) ==> in_heap(elems.items@, f) || in_seq(tree_iters@[j].rem@, f),
"""},
         hints=[("loop_start", "1", "        let ghost it0 = tree_iters@; let ghost h0 = elems.items@; proof { axiom_fname_total_order(); }"),
                ("after", "elems.push(SortedNode(node,", """            proof {
                assert(it0[num as int].rem@[0] == node);
                assert forall|a: int| 0 <= a < tree_iters@[num as int].rem@.len() implies fname_lt(fn_of(node), fn_of(#[trigger] tree_iters@[num as int].rem@[a])) by {
                    assert(tree_iters@[num as int].rem@[a] == it0[num as int].rem@[a + 1]);
                }
                assert(elems.items@[h0.len() as int] == (node, num));
                assert forall|i: int| 0 <= i < h0.len() implies elems.items@[i] == h0[i] by {}
                assert forall|j: int, f: FileName| #![trigger in_seq(old(tree_iters)@[j].rem@, f)] 0 <= j < tree_iters@.len() && in_seq(old(tree_iters)@[j].rem@, f)
                    implies in_heap(elems.items@, f) || in_seq(tree_iters@[j].rem@, f) by {
                    if in_heap(h0, f) { let i = choose|i: int| 0 <= i < h0.len() && fn_of((#[trigger] h0[i]).0) == f; assert(elems.items@[i] == h0[i]); }
                    else if j == num {
                        assert(it0[j] == old(tree_iters)@[j]);
                        let a = choose|a: int| 0 <= a < it0[j].rem@.len() && fn_of(#[trigger] it0[j].rem@[a]) == f;
                        if a == 0 { assert(fn_of(elems.items@[h0.len() as int].0) == f); }
                        else { assert(tree_iters@[j].rem@[a - 1] == it0[j].rem@[a]); }
                    } else { assert(tree_iters@[j] == it0[j]); }
                }
            }"""),
                ("after_loop", "1", "    proof { assert(heap_ok(elems.items@, tree_iters@, -1)); assert(heads_present(elems.items@, tree_iters@, -1)); assert forall|f: FileName| in_iters(old(tree_iters)@, f) implies in_heap(elems.items@, f) || in_iters(tree_iters@, f) by { let j = choose|j: int| 0 <= j < old(tree_iters)@.len() && in_seq((#[trigger] old(tree_iters)@[j]).rem@, f); if !in_heap(elems.items@, f) { assert(in_seq(tree_iters@[j].rem@, f)); } } }")],
         ),
]

KANI = []
# the ordering kernels of copy / merge / rewrite / repair live in C03's spec
SATELLITES = [("C03", ["ModifierChange", "repair_snapshots", "copy_tail", "copy_blobs_reports_failed_writes", "rewrite_save_then_forget", "merge_trees_tail", "merge_snapshots_tail", "repair_index_order"]),
              # the byte-exact copy of every collected blob: BlobCopier::copy / copy_fast and the coalescing of the read ranges (units of C02's spec)
              ("C02", ["blob_constants", "BlobLocation", "BlobLocations", "from_blob_location", "can_coalesce", "append", "coalesce", "PackToDo", "RepackReason", "PackInfo", "PrunePack", "CopyPackBlobs", "RestorePackInfo", "FileLocation", "copy_pack_blobs_coalesce", "copy_fast", "copy_slow"])]

META = {"not_covered": [
    "merge: Tree::from_backend of the inputs (iterator adapters; the fill loop of the heap IS unit merge_fill_heap), which conflicting entry wins beyond 'one of the group' (the caller's cmp closure), the recursion into sub-directories (stub), BinaryHeap semantics (assumed); the heap order, the merge loop and merge_nodes ARE units",
    "what the visitors answer for trees as a whole (pre_process_tree: unreadable trees replaced by empty ones) -- in modify_tree the visitor is a stub with arbitrary answers",
    "copy: TreeStreamerOnce itself (threads; its use IS unit copy_walk: it must start from all roots), the two filter closures (stubs: 'not in the destination index') and the lookup of the collected ids in the source index; the per-tree node loop IS a unit, the byte-exact copy is C02's BlobCopier units, the ordering C03's copy_tail",
    "'restores identically' / 'union of paths' as whole-command statements",
]}
