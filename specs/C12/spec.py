"""C12 — copy, merge, rewrite and repair preserve all content they keep (per-node / per-tree kernels)."""
from tools.extract import Unit, Rw
from tools.krun import Harness

PROPERTY = "C12"
PRELUDE = ["../common/base.rs", "prelude.rs", "merge.rs"]
RSN = "crates/core/src/commands/repair/snapshots.rs"
MOD = "crates/core/src/blob/tree/modify.rs"
R_LOG = Rw("", "", count=None, kind="log", why="logging removed")
R_ATTRS = Rw("", "", count=None, kind="attrs", optional=True, why="derive helper attributes removed")

UNITS = [
    Unit(name="NodeAction", file=MOD, kind="type", anchor="pub enum NodeAction {", rewrites=[R_ATTRS]),
    Unit(name="repair_process_node", file=RSN, anchor="fn process_node(&mut self, _path: &PathBuf, mut node: Node, _id: TreeId) -> NodeAction", within="impl<I: ReadGlobalIndex> Visitor for RepairState<'_, I> {", ret_name="r",
         wrap_open="impl<'a> RepairState<'a> {", wrap_close="}",
         functions=["<commands::repair::snapshots::RepairState as Visitor>::process_node"],
         rewrites=[
             R_LOG,
             Rw("for blob in node.content.take().unwrap() {", "let vcontent = node.content.take().unwrap(); let ghost c0 = vcontent@; for b in it: vcontent.iter() { let blob = *b;", why="by-value iteration of the taken content -> by reference; Verus for-loop syntax"),
             Rw(r"self\.index\.get_data\(&blob\)\.map_or_else\(\s*\|\| \{(?P<none>.*?)\},\s*\|ie\| \{(?P<some>.*?)\},\s*\);", r"match self.index.get_data(&blob) { None => {\g<none>}, Some(ie) => {\g<some>}, }", regex=True,
                why="Option::map_or_else(|| A, |ie| B) -> match { None => A, Some(ie) => B } (definition; both closures mutate captured locals)"),
             Rw("node.name += &self.opts.suffix;", "vappend_suffix(&mut node.name, &self.opts.suffix);", why="String += &str -> stub"),
         ],
         contract="""
    requires
        node.node_type is File ==> node.content is Some,   // `.take().unwrap()`: files carry a content list (check reports FileHasNoContent otherwise)
        node.content matches Some(c) ==> c@.len() <= 0x1_0000_0000,   // the u64 size sum cannot wrap: at most 2^32 blobs of < 4 GiB
    ensures
        // a file keeps exactly those of its blobs the index still has, in order; it is flagged (and renamed with the suffix)
        // iff at least one is missing -- so a file that is kept UNMARKED has its original content, and on an undamaged
        // repository nothing changes
        /*@repaired_file_keeps_exactly_the_indexed_blobs*/ node.node_type is File ==> (r matches NodeAction::Node(n, changed) && ({
            let c = node.content->Some_0@;
            &&& n.content is Some && n.content->Some_0@ == kept(*old(self).index, c, c.len() as int)
            &&& changed == !all_present(*old(self).index, c, c.len() as int)
            &&& n.meta.size as int == kept_size(*old(self).index, c, c.len() as int)
            &&& (!changed ==> n.content->Some_0@ == c && n.name == node.name)
            &&& (changed ==> n.name.s@ == node.name.s@ + old(self).opts.suffix.s@)
            &&& n.node_type == node.node_type && n.subtree == node.subtree && n.meta.rest == node.meta.rest
        })),
        /*@directories_are_visited_or_created*/ node.node_type is Dir ==> (match node.subtree { Some(t) => r matches NodeAction::VisitTree(t2, n, ch) && t2 == t && n == node && !ch,
                                                                                   None => r matches NodeAction::CreateTree(n) && n == node }),
        /*@other_nodes_untouched*/ !(node.node_type is File) && !(node.node_type is Dir) ==> (r matches NodeAction::Node(n, ch) && n == node && !ch),
""",
         loops={1: """
                    invariant
                        vcontent@ == c0, c0.len() <= 0x1_0000_0000,
                        new_content@ == kept(*self.index, c0, it.index@),
                        new_size as int == kept_size(*self.index, c0, it.index@),
                        file_changed == !all_present(*self.index, c0, it.index@),
"""},
         hints=[("loop_start", "1", "                    proof { assert(c0[it.index@] == *b); lemma_kept_size_bound(*self.index, c0, it.index@); lemma_kept_size_bound(*self.index, c0, it.index@ + 1); assert(c0.len() * 0xFFFF_FFFF <= u64::MAX) by (nonlinear_arith) requires c0.len() <= 0x1_0000_0000; assert((it.index@ + 1) * 0xFFFF_FFFF <= c0.len() * 0xFFFF_FFFF) by (nonlinear_arith) requires it.index@ + 1 <= c0.len(); }"),
                ("after_loop", "1", "                proof { if !file_changed { lemma_kept_all(*self.index, c0, c0.len() as int); assert(c0.subrange(0, c0.len() as int) =~= c0); } }")],
         ),
]

UNITS += [
    Unit(name="ModifierChange", file=MOD, kind="type", anchor="pub enum ModifierChange {", rewrites=[R_ATTRS]),
    Unit(name="ModifierAction", file=MOD, kind="type", anchor="pub enum ModifierAction {", rewrites=[R_ATTRS]),
    Unit(name="TreeAction", file=MOD, kind="type", anchor="pub enum TreeAction {", rewrites=[R_ATTRS]),
    Unit(name="modify_tree", file=MOD, anchor="pub fn modify_tree<V: Visitor>(", within="impl<'a, BE: DecryptFullBackend, I: ReadGlobalIndex> TreeModifier<'a, BE, I> {", ret_name="r",
         wrap_open="impl<'a> TreeModifier<'a> {", wrap_close="}", attrs="#[verifier::exec_allows_no_decreases_clause]",
         functions=["blob::tree::modify::TreeModifier::modify_tree"],
         rewrites=[
             Rw("pub fn modify_tree<V: Visitor>(", "pub fn modify_tree(", sig=True, why="generic visitor -> visitor stub with arbitrary answers"),
             Rw("visitor: &mut V,", "visitor: &mut VVisitor,", sig=True, why="generic visitor -> visitor stub"),
             Rw("Tree::from_backend(self.be, self.index, id)", "vtree_from_backend(self.be, self.index, id)", why="Tree::from_backend (index lookup, read, decrypt, parse) -> stub"),
             Rw("for node in tree {", "for n in it: tree.nodes.iter() { let node = vclone_node(n);", why="by-value iteration of the tree's nodes -> by reference + clone; Verus for-loop syntax"),
             Rw(r"changed \|= (?P<e>\w+);", r"changed = changed || \g<e>;", regex=True, count=None, why="`|=` on bool -> `||` (same value; Verus rejects `|` on bool)"),
             Rw("self.save_tree(", "self.vsave_tree(changed, ", count=None, why="save_tree -> effectful stub: PRECONDITION 'a change was flagged'"),
             Rw("visitor.post_process(path, id, new_id, &new_tree);", "visitor.post_process(path, id, new_id, &new_tree, Ghost(changed));", why="ghost argument: the flag that guarded save_tree"),
             Rw("Ok(new_id.map_or_else(|| ModifierChange::Unchanged, ModifierChange::Changed))", "Ok(match new_id { None => ModifierChange::Unchanged, Some(i) => ModifierChange::Changed(i) })", why="Option::map_or_else with closure/constructor -> match (definition)"),
         ],
         contract="""
    ensures
        // a tree is reported as changed (and any tree blob is written at all: precondition of save_tree) only if the visitor
        // asked for a change somewhere below it -- a visitor that changes nothing leaves every snapshot as it is
        /*@changed_result_only_if_the_visitor_reported_a_change*/ r matches Ok(c) ==> (!(c is Unchanged) ==> final(visitor).reported@),
        /*@reports_are_only_accumulated*/ old(visitor).reported@ ==> final(visitor).reported@,
        // (implicit obligation, precondition of post_process: whenever an answer at a level demanded a rewrite -- a node changed,
        //  was removed or created, a subtree changed or was removed -- the level's tree is rebuilt and saved)
        // (second implicit obligation of post_process: the rebuilt tree of a level consists of exactly the nodes the visitor's
        //  answers dictate, in order -- kept nodes as returned, removed ones absent, visited directories with the id of their
        //  rewritten subtree, created directories with the id of the empty tree)
        /*@levels_are_balanced*/ r is Ok ==> final(visitor).levels@ =~= old(visitor).levels@,
""",
         loops={1: """
            invariant
                changed ==> visitor.reported@,
                old(visitor).reported@ ==> visitor.reported@,
                visitor.levels@.len() == old(visitor).levels@.len() + 1, visitor.levels@.drop_last() =~= old(visitor).levels@,
                visitor.levels@.last().dirty ==> changed,
                visitor.levels@.last().pending is None,
                new_tree.nodes@ == visitor.levels@.last().expect,
"""},
         ),
]

RWT = "crates/core/src/blob/tree/rewrite.rs"
UNITS += [
    Unit(name="rewrite_process_node", file=RWT, anchor="fn process_node(&mut self, path: &PathBuf, mut node: Node, id: TreeId) -> NodeAction", within="impl Visitor for RewriteVisitor {", ret_name="r",
         wrap_open="impl RewriteVisitor {", wrap_close="}",
         functions=["<blob::tree::rewrite::RewriteVisitor as Visitor>::process_node"],
         rewrites=[
             Rw("self.summary.entry(id).or_default().update(&node);", "vsummary_update(&mut self.summary, id, &node);", why="BTreeMap entry API + statistics -> stub"),
             Rw("self.node_modification.modify_node(&mut node) | self.all_trees", "{ let vm = self.node_modification.modify_node(&mut node); vm || self.all_trees }", why="non-short-circuit `|` on bool -> evaluate the call first, then `||` (same value and effects)"),
             Rw(r"if node\.is_dir\(\)\s*&& let Some\(subtree\) = node\.subtree\s*\{(?P<a>.*?)\} else \{(?P<b>.*?)\}\n        \}", r"match (node.is_dir(), node.subtree) { (true, Some(subtree)) => {\g<a>}, _ => {\g<b>} }\n        }", regex=True,
                why="let chain with else -> match on the pair (definition)"),
         ],
         contract="""
    ensures
        // rewriting removes exactly the excluded paths ...
        /*@removed_iff_excluded*/ (r is Removed) == EXCLUDED(*path, node.node_type is Dir),
        // ... and otherwise hands on the node with at most its metadata edited; directories are descended into
        /*@kept_node_is_the_metadata_edited_node*/ !EXCLUDED(*path, node.node_type is Dir) ==> ({
            let m = MODIFIED(node);
            let ch = WAS_MODIFIED(node) || old(self).all_trees;
            match (node.node_type is Dir, node.subtree) {
                (true, Some(t)) => r matches NodeAction::VisitTree(t2, n, c) && t2 == t && n == m && c == ch,
                _ => r matches NodeAction::Node(n, c) && n == m && c == ch,
            }
        }),
"""),
]

UNITS += [
    Unit(name="RewriteVisitor", file=RWT, kind="type", anchor="pub struct RewriteVisitor {", rewrites=[R_ATTRS]),
    Unit(name="rewrite_pre_process", file=RWT, anchor="fn pre_process(", within="impl Visitor for RewriteVisitor {", ret_name="r",
         wrap_open="impl RewriteVisitor {", wrap_close="}",
         functions=["<blob::tree::rewrite::RewriteVisitor as Visitor>::pre_process"],
         contract="""
    ensures
        // a memoised result is reused only for the very (path, tree) it was computed for: excludes are matched against full
        // paths, so the same tree at another path may rewrite differently
        /*@memo_is_per_path_and_tree*/ r == memo_answer(self.unchanged@, self.changed@, *path, id),
"""),
    Unit(name="rewrite_post_process", file=RWT, anchor="fn post_process(", within="impl Visitor for RewriteVisitor {",
         wrap_open="impl RewriteVisitor {", wrap_close="}",
         functions=["<blob::tree::rewrite::RewriteVisitor as Visitor>::post_process"],
         rewrites=[Rw(r"let mut summary = Summary::default\(\);.*?let _ = self\.summary\.insert\(new_id\.unwrap_or\(id\), summary\);", "vsummary_record(&mut self.summary, id, new_id, tree);", regex=True,
                      why="ELIDED: per-tree statistics (files / dirs / size), not part of the property")],
         contract="""
    ensures
        /*@result_recorded_under_its_path_and_tree*/ match new_id {
            Some(n) => final(self).changed@ == old(self).changed@.insert((path, id), n) && final(self).unchanged@ == old(self).unchanged@,
            None => final(self).unchanged@ == old(self).unchanged@.insert((path, id)) && final(self).changed@ == old(self).changed@,
        },
"""),
]

RIX = "crates/core/src/commands/repair/index.rs"
UNITS += [
    Unit(name="repair_index_check_pack", file=RIX, anchor="fn check_pack(&mut self, indexfile: IndexFile, read_all: bool) -> (IndexFile, bool)", within="impl PackChecker {", ret_name="r",
         wrap_open="impl PackChecker {", wrap_close="}",
         functions=["commands::repair::index::PackChecker::check_pack"],
         rewrites=[R_LOG,
                   Rw("for (p, to_delete) in indexfile.all_packs() {", "let ghost f0 = indexfile; let ghost pk0 = self.packs@; let vall = indexfile.all_packs(); for e in it: vall.iter() { let (p, to_delete) = (vclone_ipack(&e.0), e.1);", why="iterator chain -> vector; by-value items -> clone; Verus for-loop syntax"),
                   Rw("Some(PackHeaderRef::from_index_pack(&p).size()),", "Some(vheader_size_of(&p)),", why="PackHeaderRef::size (unit of C08) -> stub"),
         ],
         contract="""
    ensures
        // repairing the index of an undamaged repository changes nothing: a file all of whose packs exist (once) with the
        // indexed size is returned unchanged -- same packs, same sections, same order -- and nothing is queued for re-reading
        /*@sound_index_file_is_left_alone*/ !read_all && file_is_sound(indexfile, old(self).packs@) ==> !r.1 && r.0.packs@ == indexfile.packs@ && r.0.packs_to_delete@ == indexfile.packs_to_delete@
            && final(self).packs_to_read@ == old(self).packs_to_read@,
        // in general entries are only dropped, never invented, and each section only keeps its own packs
        /*@only_drops_entries*/ r.0.packs@.len() <= indexfile.packs@.len() && r.0.packs_to_delete@.len() <= indexfile.packs_to_delete@.len(),
        /*@unchanged_means_identical*/ !r.1 ==> r.0.packs@ == indexfile.packs@ && r.0.packs_to_delete@ == indexfile.packs_to_delete@,
""",
         loops={1: """
            invariant
                vall@ == all_packs_spec(f0), f0 == indexfile,
                // the packs still in the listing are those of the start minus the ids seen so far
                forall|id: PackId| #![trigger self.packs@.dom().contains(id)] self.packs@.dom().contains(id) ==> pk0.dom().contains(id) && self.packs@[id] == pk0[id],
                forall|id: PackId| #![trigger pk0.dom().contains(id)] pk0.dom().contains(id) && !self.packs@.dom().contains(id) ==> exists|j: int| 0 <= j < it.index@ && (#[trigger] vall@[j]).0.id == id,
                forall|id: PackId| #![trigger pk0.dom().contains(id)] pk0.dom().contains(id) && (forall|j: int| 0 <= j < it.index@ ==> (#[trigger] vall@[j]).0.id != id) ==> self.packs@.dom().contains(id),
                // nothing dropped so far <=> new_index is exactly the prefix, split by section
                !changed ==> new_index.packs@ == f0.packs@.subrange(0, if it.index@ <= f0.packs@.len() { it.index@ } else { f0.packs@.len() as int })
                    && new_index.packs_to_delete@ == f0.packs_to_delete@.subrange(0, if it.index@ <= f0.packs@.len() { 0 } else { it.index@ - f0.packs@.len() })
                    && self.packs_to_read@ == old(self).packs_to_read@,
                new_index.packs@.len() <= (if it.index@ <= f0.packs@.len() { it.index@ } else { f0.packs@.len() as int }),
                new_index.packs_to_delete@.len() <= (if it.index@ <= f0.packs@.len() { 0 } else { it.index@ - f0.packs@.len() }),
                !read_all && file_is_sound(f0, pk0) ==> !changed,
"""},
         hints=[("loop_start", "1", """            proof {
                let k = it.index@;
                assert(vall@[k] == *e);
                if k < f0.packs@.len() { assert(f0.packs@.subrange(0, k + 1) =~= f0.packs@.subrange(0, k).push(f0.packs@[k])); }
                if k >= f0.packs@.len() {
                    let m = k - f0.packs@.len();
                    assert(f0.packs_to_delete@.subrange(0, m + 1) =~= f0.packs_to_delete@.subrange(0, m).push(f0.packs_to_delete@[m]));
                    assert(f0.packs@.subrange(0, f0.packs@.len() as int) =~= f0.packs@);
                }
            }"""),
                ("after_loop", "1", """        proof {
            assert(f0.packs@.subrange(0, f0.packs@.len() as int) =~= f0.packs@);
            assert(f0.packs_to_delete@.subrange(0, f0.packs_to_delete@.len() as int) =~= f0.packs_to_delete@);
        }""")],
         ),
]
TR = "crates/core/src/blob/tree.rs"
UNITS += [
    # the order of merge_trees' heap: it must be the order the nodes of a tree are sorted in (the unescaped name),
    # otherwise equal names of different trees are not adjacent in the merge and are emitted more than once
    Unit(name="merge_heap_order", file=TR, anchor="fn cmp(&self, other: &Self) -> Ordering", within="impl Ord for SortedNode {", ret_name="r",
         wrap_open="impl SortedNode {", wrap_close="}",
         functions=["blob::tree::merge_trees::SortedNode::cmp (order of the merge heap)"],
         contract="""
    ensures
        // BinaryHeap is a max-heap: the node popped first is the GREATEST by this cmp, so cmp is the reverse of the tree order
        /*@heap_pops_smallest_file_name_first*/ r is Greater <==> fname_lt(unesc(self.0.name), unesc(other.0.name)),
        /*@heap_pops_smallest_file_name_first_b*/ r is Less <==> fname_lt(unesc(other.0.name), unesc(self.0.name)),
        /*@heap_equal_means_same_file_name*/ r is Equal <==> unesc(self.0.name) == unesc(other.0.name),
"""),
]

KANI = []
META = {"not_covered": [
    "merge (blob::tree::merge_trees / merge_nodes): local trait impls, BinaryHeap, `&impl Fn` parameters, mutual recursion",
    "what the visitors answer for trees as a whole (pre_process_tree: unreadable trees replaced by empty ones) -- in modify_tree the visitor is a stub with arbitrary answers",
    "copy: selection of the blobs to copy (closures, TreeStreamerOnce); the byte-exact copy itself is C02's BlobCopier units, the ordering C03's copy_tail",
    "'restores identically' / 'union of paths' as whole-command statements",
]}
