// ===== C14: the merge walk of collect_and_prepare (destination directory against the snapshot's node stream) =====
pub enum Ordering { Less, Equal, Greater }
// std Ord of Path: component-wise.  An uninterpreted strict total order (ASSUMED axioms below)
pub uninterp spec fn plt(a: PathBufR, b: PathBufR) -> bool;
// byte order of the underlying OsStr: ANOTHER total order (differs from plt e.g. for "data/x" vs "data.txt")
pub uninterp spec fn blt(a: PathBufR, b: PathBufR) -> bool;
#[verifier::external_body]
pub proof fn axiom_plt_total_order()
    ensures
        forall|a: PathBufR| !#[trigger] plt(a, a),
        forall|a: PathBufR, b: PathBufR, c: PathBufR| #![trigger plt(a, b), plt(b, c)] plt(a, b) && plt(b, c) ==> plt(a, c),
        forall|a: PathBufR, b: PathBufR| #![trigger plt(a, b)] a == b || plt(a, b) || plt(b, a),
{}
pub struct OsStrR { pub of: Ghost<PathBufR> }
impl OsStrR {
    #[verifier::external_body]
    pub fn cmp(&self, other: &OsStrR) -> (r: Ordering)
        ensures r is Less <==> blt(self.of@, other.of@), r is Greater <==> blt(other.of@, self.of@),
    { unimplemented!() }
}
impl PathBufR {
    #[verifier::external_body]
    pub fn cmp(&self, other: &PathBufR) -> (r: Ordering)
        ensures r is Less <==> plt(*self, *other), r is Equal <==> *self == *other, r is Greater <==> plt(*other, *self),
    { unimplemented!() }
    #[verifier::external_body]
    pub fn as_os_str(&self) -> (r: &OsStrR) ensures r.of@ == *self, { unimplemented!() }
}
// a destination entry: its path (already inside the destination) and what kind of entry it is
pub uninterp spec fn dpath(e: DirEntry) -> PathBufR;
pub uninterp spec fn d_is_dir(e: DirEntry) -> bool;
pub uninterp spec fn d_is_file(e: DirEntry) -> bool;
pub struct FileTypeM { pub of: Ghost<DirEntry> }
impl FileTypeM {
    #[verifier::external_body]
    pub fn is_dir(&self) -> (r: bool) ensures r == d_is_dir(self.of@), { unimplemented!() }
    #[verifier::external_body]
    pub fn is_file(&self) -> (r: bool) ensures r == d_is_file(self.of@), { unimplemented!() }
}
pub struct DirEntryM { pub e: DirEntry }
impl DirEntryM {
    #[verifier::external_body]
    pub fn path(&self) -> (r: &PathBufR) ensures *r == dpath(self.e), { unimplemented!() }
    #[verifier::external_body]
    pub fn file_type(&self) -> (r: FileTypeM) ensures r.of@ == self.e, { unimplemented!() }
}
pub uninterp spec fn n_is_dir(n: Node) -> bool;
pub uninterp spec fn n_is_file(n: Node) -> bool;
pub uninterp spec fn n_is_special(n: Node) -> bool;
impl Node {
    #[verifier::external_body]
    pub fn is_dir(&self) -> (r: bool) ensures r == n_is_dir(*self), { unimplemented!() }
    #[verifier::external_body]
    pub fn is_file(&self) -> (r: bool) ensures r == n_is_file(*self), { unimplemented!() }
    #[verifier::external_body]
    pub fn is_special(&self) -> (r: bool) ensures r == n_is_special(*self), { unimplemented!() }
}
// LocalDestination::path(rel): the path inside the destination
pub uninterp spec fn dest_of(rel: PathBufR) -> PathBufR;
pub struct LocalDestinationM { pub _opaque: u64 }
impl LocalDestinationM {
    #[verifier::external_body]
    pub fn path(&self, rel: &PathBufR) -> (r: PathBufR) ensures r == dest_of(*rel), { unimplemented!() }
}
// an existing entry may be treated as "not in the snapshot" (reported / removed) only if no snapshot path equals it,
// or if it is the current node's path but of the wrong kind (then it is replaced)
pub open spec fn kind_mismatch(n: Node, e: DirEntry) -> bool {
    (n_is_dir(n) && !d_is_dir(e)) || (n_is_file(n) && !d_is_file(e)) || n_is_special(n)
}
pub open spec fn not_a_snapshot_path(p: PathBufR, nodes: Seq<(PathBufR, Node)>) -> bool {
    forall|j: int| 0 <= j < nodes.len() ==> dest_of((#[trigger] nodes[j]).0) != p
}
// WalkDir::new(dest).sort_by_file_name(): the entries in ascending path order (ASSUMED); pos = entries consumed so far
pub struct WalkerM { pub seq: Ghost<Seq<DirEntry>>, pub pos: Ghost<int> }
pub open spec fn walker_sorted(s: Seq<DirEntry>) -> bool { forall|i: int, j: int| #![trigger s[i], s[j]] 0 <= i < j < s.len() ==> plt(dpath(s[i]), dpath(s[j])) }
pub open spec fn nodes_sorted(s: Seq<(PathBufR, Node)>) -> bool { forall|i: int, j: int| #![trigger s[i], s[j]] 0 <= i < j < s.len() ==> plt(dest_of(s[i].0), dest_of(s[j].0)) }
#[verifier::external_body]
pub fn vnext_entry_m(walker: &mut WalkerM) -> (r: Option<DirEntryM>)
    requires 0 <= old(walker).pos@ <= old(walker).seq@.len(),
    ensures final(walker).seq@ == old(walker).seq@,
        old(walker).pos@ < old(walker).seq@.len() ==> (r matches Some(d) && d.e == old(walker).seq@[old(walker).pos@]) && final(walker).pos@ == old(walker).pos@ + 1,
        old(walker).pos@ >= old(walker).seq@.len() ==> r is None && final(walker).pos@ == old(walker).pos@,
{ unimplemented!() }
// the snapshot's nodes in stream order (ASSUMED ascending by path); `pending` = a node was fetched and not processed yet
pub struct NodeStreamM { pub seq: Ghost<Seq<(PathBufR, Node)>>, pub pos: Ghost<int>, pub pending: Ghost<bool> }
impl NodeStreamM {
    // node_streamer.next().transpose()?
    #[verifier::external_body]
    pub fn vnext(&mut self) -> (r: RusticResult<Option<(PathBufR, Node)>>)
        requires !old(self).pending@, 0 <= old(self).pos@ <= old(self).seq@.len(),   // EVERY fetched node is processed before the next is fetched
        ensures final(self).seq@ == old(self).seq@,
            r matches Ok(Some(x)) ==> old(self).pos@ < old(self).seq@.len() && x == old(self).seq@[old(self).pos@] && final(self).pos@ == old(self).pos@ + 1 && final(self).pending@,
            r matches Ok(None) ==> old(self).pos@ == old(self).seq@.len() && final(self).pos@ == old(self).pos@ && !final(self).pending@,
    { unimplemented!() }
}
// the closure process_node(path, node, exists): EFFECT AS PRECONDITION -- it is the node fetched last, processed once,
// and `exists` is claimed only for an entry found at exactly that path
#[verifier::external_body]
pub fn vprocess_node_m(path: &PathBufR, node: &Node, exists: bool, stream: &mut NodeStreamM, Ghost(found_here): Ghost<bool>) -> (r: RusticResult<()>)
    requires old(stream).pending@, old(stream).pos@ >= 1, old(stream).pos@ <= old(stream).seq@.len(),
        (*path, *node) == old(stream).seq@[old(stream).pos@ - 1], exists ==> found_here,
    ensures final(stream).seq@ == old(stream).seq@, final(stream).pos@ == old(stream).pos@, !final(stream).pending@,
{ unimplemented!() }
// the closure process_existing(walker, entry) (its body is the unit process_existing): EFFECT AS PRECONDITION -- the entry
// is no snapshot path, or it sits at the current node's path with the wrong kind.  It may skip the entry's descendants.
#[verifier::external_body]
pub fn vprocess_existing_m(walker: &mut WalkerM, entry: &DirEntryM, stream: &NodeStreamM) -> (r: RusticResult<Option<DirEntryM>>)
    requires 0 <= old(walker).pos@ <= old(walker).seq@.len(),
        not_a_snapshot_path(dpath(entry.e), stream.seq@)
        || (stream.pending@ && 1 <= stream.pos@ <= stream.seq@.len() && dest_of(stream.seq@[stream.pos@ - 1].0) == dpath(entry.e) && kind_mismatch(stream.seq@[stream.pos@ - 1].1, entry.e)),
    ensures final(walker).seq@ == old(walker).seq@,
        r is Ok ==> old(walker).pos@ <= final(walker).pos@ <= final(walker).seq@.len(),
        r matches Ok(Some(d)) ==> final(walker).pos@ > old(walker).pos@ && d.e == final(walker).seq@[final(walker).pos@ - 1],
        r matches Ok(None) ==> final(walker).pos@ == final(walker).seq@.len(),
{ unimplemented!() }
// state relation between the two look-ahead variables and the two streams
pub open spec fn dst_in_sync(next_dst: Option<DirEntryM>, w: WalkerM) -> bool {
    &&& 0 <= w.pos@ <= w.seq@.len()
    &&& (next_dst matches Some(d) ==> w.pos@ >= 1 && d.e == w.seq@[w.pos@ - 1])
    &&& (next_dst is None ==> w.pos@ == w.seq@.len())
}
pub open spec fn node_in_sync(next_node: Option<(PathBufR, Node)>, s: NodeStreamM) -> bool {
    &&& 0 <= s.pos@ <= s.seq@.len()
    &&& (next_node matches Some(x) ==> s.pending@ && s.pos@ >= 1 && x == s.seq@[s.pos@ - 1])
    &&& (next_node is None ==> !s.pending@ && s.pos@ == s.seq@.len())
}
// every node fetched and already processed lies strictly before the current destination entry and all later ones
pub open spec fn processed_nodes_before_dst(next_dst: Option<DirEntryM>, next_node: Option<(PathBufR, Node)>, s: NodeStreamM, w: WalkerM) -> bool {
    forall|i: int, k: int| #![trigger s.seq@[i], w.seq@[k]]
        0 <= i < s.pos@ - (if next_node is Some { 1int } else { 0int })
        && (if next_dst is Some { w.pos@ - 1 } else { w.seq@.len() as int }) <= k < w.seq@.len() && 0 <= k
        ==> plt(dest_of(s.seq@[i].0), dpath(w.seq@[k]))
}
