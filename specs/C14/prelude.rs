// ===== C14 prelude: paths as sequences of components =====
// A node name as stored in a tree (arbitrary bytes).  `plain(name)` = it is exactly one normal path
// component (no separator, not "." or "..", not absolute, not empty).
pub struct Name { pub bytes: Vec<u8> } // keep-vis
pub uninterp spec fn plain(n: Name) -> bool;

// the repo's own guard `is_plain_name` (blob/tree.rs); ASSUMED to decide `plain` (std::path::Path::components semantics)
#[verifier::external_body]
pub fn is_plain_name(name: &Name) -> (r: bool) ensures r == plain(*name), { unimplemented!() }

// std::path::PathBuf, RELATIVE to the streamer's base, as the sequence of components pushed so far.
// ASSUMED std contract: joining/pushing ONE PLAIN component appends it; for anything else (absolute path:
// replaces the base; "..": climbs; "a/b": several components) the result is unspecified -- therefore
// `plain` is a PRECONDITION of these stubs, i.e. an obligation on every call site.
pub struct PathBuf { pub comps: Ghost<Seq<Name>> }
// `impl AsRef<Path>` arguments: a name by value or by reference
pub trait AsName: Sized { // keep-vis
    spec fn as_name(self) -> Name;
}
impl AsName for Name { open spec fn as_name(self) -> Name { self } }
impl AsName for &Name { open spec fn as_name(self) -> Name { *self } }
impl PathBuf {
    #[verifier::external_body]
    pub fn join<P: AsName>(&self, name: P) -> (r: PathBuf)
        requires plain(name.as_name()),
        ensures r.comps@ == self.comps@.push(name.as_name()),
    { unimplemented!() }
    #[verifier::external_body]
    pub fn push<P: AsName>(&mut self, name: P)
        requires plain(name.as_name()),
        ensures final(self).comps@ == old(self).comps@.push(name.as_name()),
    { unimplemented!() }
    #[verifier::external_body]
    pub fn pop(&mut self) -> (r: bool)
        ensures final(self).comps@ == (if old(self).comps@.len() > 0 { old(self).comps@.drop_last() } else { old(self).comps@ }),
    { unimplemented!() }
}
pub open spec fn confined(p: PathBuf) -> bool { forall|i: int| 0 <= i < p.comps@.len() ==> plain(#[trigger] p.comps@[i]) }

#[derive(Clone, Copy)]
pub struct TreeId { pub _opaque: u64 }
// `Node.name` is the STORED (escaped) name; `Node::name()` decodes it (\\xNN, \\uNNNN ... escapes): an arbitrary,
// uninterpreted function of the stored text -- so plain-ness of the stored text says nothing about the decoded name
pub uninterp spec fn decode_name(stored: Name) -> Name;
pub struct Node { pub name: Name, pub subtree: Option<TreeId>, pub content: Option<Vec<DataId>> }
impl Node {
    #[verifier::external_body]
    pub fn name(&self) -> (r: Name) ensures r == decode_name(self.name), { unimplemented!() }
}
pub struct OsStr { pub _opaque: u8 }
impl OsStr {
    pub fn new(n: &Name) -> (r: &Name) ensures *r == *n, { n }   // OsStr::new(&string): same text
}
pub struct NodeIter { pub _opaque: u64 }   // std::vec::IntoIter<Node>
impl NodeIter {
    #[verifier::external_body]
    pub fn next(&mut self) -> (r: Option<Node>) { unimplemented!() }
}
#[verifier::external_body]
pub fn vreplace_iter(slot: &mut NodeIter, new: NodeIter) -> (r: NodeIter) { unimplemented!() }

pub trait DecryptReadBackend {}
pub trait ReadGlobalIndex {}
pub struct Tree { pub nodes: Vec<Node> }
impl Tree {
    #[verifier::external_body]
    pub fn from_backend<BE: DecryptReadBackend, I: ReadGlobalIndex>(be: &BE, index: &I, id: TreeId) -> (r: RusticResult<Tree>) { unimplemented!() }
}
#[verifier::external_body]
pub fn vnodes_into_iter(v: Vec<Node>) -> (r: NodeIter) { unimplemented!() }

// ignore::overrides::Override: glob matching, outside the property (decides only WHETHER a path is yielded)
pub struct Override { pub _opaque: u64 }
#[verifier::external_body]
pub fn vis_ignored(o: &Override, p: &PathBuf) -> (r: bool) { unimplemented!() }
pub type NodeStreamItem = RusticResult<(PathBuf, Node)>;
