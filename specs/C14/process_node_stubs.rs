// ===== C14: the closure process_node of collect_and_prepare: what happens for one node of the snapshot =====
pub enum NodeType { File, Dir, Symlink, Dev, Chardev, Fifo, Socket }
pub struct NodeP { pub node_type: NodeType, pub rest: u64 }
pub struct PathBufP { pub id: u64 }
impl PathBufP {
    #[verifier::external_body]
    pub fn display(&self) -> u64 { unimplemented!() }
}
#[verifier::external_body]
pub fn vclone_path(p: &PathBufP) -> (r: PathBufP) ensures r.id == p.id, { unimplemented!() }
pub struct FileDirStatsP { pub restore: u64, pub unchanged: u64, pub verified: u64, pub modify: u64 }
pub struct RestoreStatsP { pub dirs: FileDirStatsP, pub files: FileDirStatsP }
pub struct HardlinkKeyP { pub _opaque: u64 }
// hardlink_key(node): Some for a regular file with several links and known device/inode
pub uninterp spec fn HARDLINK_KEY(n: NodeP) -> Option<HardlinkKeyP>;
#[verifier::external_body]
pub fn hardlink_key(node: &NodeP) -> (r: Option<HardlinkKeyP>) ensures r == HARDLINK_KEY(*node), { unimplemented!() }
// restore_infos.hardlink_candidates: BTreeMap<HardlinkKey, PathBuf> through its entry API
pub struct VHardlinkMap { pub m: Ghost<Map<HardlinkKeyP, u64>> }
impl VHardlinkMap {
    #[verifier::external_body]
    pub fn vcontains(&self, k: &HardlinkKeyP) -> (r: bool) ensures r == self.m@.dom().contains(*k), { unimplemented!() }
    #[verifier::external_body]
    pub fn vinsert(&mut self, k: HardlinkKeyP, p: PathBufP) ensures final(self).m@ == old(self).m@.insert(k, p.id), { unimplemented!() }
}
// the destination's directories created so far and the files handed to RestorePlan::add_file (= planned for restoring/verifying)
pub struct RestorePlanP { pub hardlink_candidates: VHardlinkMap, pub planned: Ghost<Seq<u64>> }
pub struct VRepoP { pub _opaque: u64 }
pub struct DestP { pub created: Ghost<Set<u64>> }
pub struct VRestoreOptsP { pub verify_existing: bool, pub delete: bool }
impl RestorePlanP {
    // RestorePlan::add_file (its blob loop is unit add_file_blobs): plans the content of this file
    #[verifier::external_body]
    pub fn add_file(&mut self, dest: &DestP, node: &NodeP, path: PathBufP, repo: &VRepoP, verify: bool) -> (r: RusticResult<AddFileResult>)
        ensures
            final(self).hardlink_candidates == old(self).hardlink_candidates,
            r is Ok ==> final(self).planned@ == old(self).planned@.push(path.id),
            r is Err ==> final(self).planned@ == old(self).planned@,
    { unimplemented!() }
}
impl DestP {
    // LocalDestination::create_dir: creates the directory in the destination.  PRECONDITION: not in a dry run
    #[verifier::external_body]
    pub fn vcreate_dir(&mut self, path: &PathBufP, dry: Ghost<bool>) -> (r: Result<(), IoErrP>)
        requires !dry@,
        ensures r is Ok ==> final(self).created@ == old(self).created@.insert(path.id), r is Err ==> final(self).created@ == old(self).created@,
    { unimplemented!() }
}
pub struct IoErrP { pub _opaque: u8 }
