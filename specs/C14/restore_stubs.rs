// ===== C14 (content half, plan kernel): RestorePlan::add_file -- which blob goes to which file offset =====
#[derive(Clone, Copy, PartialEq, Eq, Structural)]
pub struct DataId(pub u64);
#[derive(Clone, Copy, PartialEq, Eq, Structural)]
pub struct PackId(pub u64);
pub type NonZeroU32 = u32;
#[derive(Clone, Copy)]
pub struct IndexEntry { pub pack: PackId, pub location: BlobLocation }
// index lookup of a data blob (C17): uninterpreted per id
pub uninterp spec fn ENTRY(id: DataId) -> IndexEntry;
pub struct VRepoR { pub _opaque: u64 }
impl VRepoR {
    #[verifier::external_body]
    pub fn get_index_entry(&self, id: &DataId) -> (r: RusticResult<IndexEntry>)
        ensures r matches Ok(e) ==> e == ENTRY(*id) && (e.location.uncompressed_length is None ==> e.location.length >= 32) && (e.location.uncompressed_length matches Some(l) ==> l > 0),
    { unimplemented!() }
}
pub struct OpenDestFile { pub _opaque: u64 }
// open_file.as_mut().is_some_and(|file| id.blob_matches_reader(length, file)): compares the next `length` bytes
// of the existing destination file with the blob id; false if there is no existing file
#[verifier::external_body]
pub fn vblob_matches_existing(open_file: &mut Option<OpenDestFile>, id: &DataId, length: u64) -> (r: bool)
    ensures *old(open_file) is None ==> !r, (*final(open_file) is Some) == (*old(open_file) is Some),
{ unimplemented!() }
// self.r.entry((pack, bl)).or_default().push(loc): the plan as an append-only log
pub struct RestoreInfo { pub log: Ghost<Seq<(PackId, BlobLocation, FileLocation)>> }
#[verifier::external_body]
pub fn vplan_push(r: &mut RestoreInfo, pack: PackId, bl: BlobLocation, loc: FileLocation)
    ensures final(r).log@ == old(r).log@.push((pack, bl, loc)),
{ unimplemented!() }
pub fn vcontent(n: &Node) -> (r: &[DataId])
    ensures r@ == content_of(*n),
{ match &n.content { Some(v) => v.as_slice(), None => &[] } }
pub open spec fn content_of(n: Node) -> Seq<DataId> { match n.content { Some(v) => v@, None => Seq::empty() } }
pub struct PathBufR { pub _opaque: u64 }
pub struct RestorePlan {
    pub names: Vec<PathBufR>,
    pub file_lengths: Vec<u64>,
    pub r: RestoreInfo,
    pub restore_size: u64,
    pub matched_size: u64,
}
pub enum AddFileResult { Existing, Verified, Modify }

// plaintext length of a blob as the index records it
pub open spec fn dlen(id: DataId) -> int {
    match ENTRY(id).location.uncompressed_length { None => ENTRY(id).location.length - 32, Some(l) => l as int }
}
pub open spec fn start_at(content: Seq<DataId>, k: int) -> int
    decreases k
{
    if k <= 0 { 0 } else { start_at(content, k - 1) + dlen(content[k - 1]) }
}

pub proof fn lemma_start_at_mono(c: Seq<DataId>, i: int, j: int)
    requires 0 <= i <= j <= c.len(), forall|k: int| 0 <= k < c.len() ==> dlen(#[trigger] c[k]) >= 0,
    ensures start_at(c, i) <= start_at(c, j), 0 <= start_at(c, i),
    decreases j
{
    if i < j { lemma_start_at_mono(c, i, j - 1); } else if i > 0 { lemma_start_at_mono(c, i - 1, j - 1); }
}

// LINK between the plan and the write task (proved): a blob planned by add_file at offset start_at(c, k) with its plaintext
// length ends inside the planned file length start_at(c, |c|) -- the precondition `start + len <= planned` of restore_write_blob
pub proof fn lemma_planned_blob_lies_inside_its_file(c: Seq<DataId>, k: int)
    requires 0 <= k < c.len(), forall|j: int| 0 <= j < c.len() ==> dlen(#[trigger] c[j]) >= 0,
    ensures 0 <= start_at(c, k), start_at(c, k) + dlen(c[k]) <= start_at(c, c.len() as int),
{
    lemma_start_at_mono(c, k + 1, c.len() as int);
    lemma_start_at_mono(c, k, k + 1);
}

// ---- collect_and_prepare: what happens to entries that exist in the destination but not in the snapshot ----
// `walk_is_dir`: the entry is a directory as the walk sees it (follow_links(false): a symlink to a directory is NOT one) --
// exactly the entries walkdir descends into
pub struct DirEntry { pub walk_is_dir: Ghost<bool> }
pub struct FileTypeR { pub dir: Ghost<bool> }
impl FileTypeR {
    #[verifier::external_body]
    pub fn is_dir(&self) -> (r: bool) ensures r == self.dir@, { unimplemented!() }
    #[verifier::external_body]
    pub fn is_file(&self) -> bool { unimplemented!() }
}
impl DirEntry {
    #[verifier::external_body]
    pub fn depth(&self) -> usize { unimplemented!() }
    #[verifier::external_body]
    pub fn path(&self) -> &PathBufR { unimplemented!() }
    #[verifier::external_body]
    pub fn file_type(&self) -> (r: FileTypeR) ensures r.dir@ == self.walk_is_dir@, { unimplemented!() }
}
pub struct WalkerR { pub _opaque: u64 }
impl WalkerR {
    // walkdir::IntoIter::skip_current_dir: skips the rest of the directory the walk is IN.  Right after a directory entry was
    // yielded that is this directory (nothing of it is visited); after any other entry it is the PARENT -- the siblings that
    // follow would never be seen.  PRECONDITION: only called for an entry the walk descends into
    #[verifier::external_body]
    pub fn skip_current_dir(&mut self, last_yielded_is_dir: Ghost<bool>)
        requires last_yielded_is_dir@,
    { unimplemented!() }
}
#[verifier::external_body]
pub fn vnext_entry(walker: &mut WalkerR) -> Option<DirEntry> { unimplemented!() }
pub struct VRestoreOpts { pub delete: bool }
pub struct FileDirStats { pub additional: u64 }
pub struct RestoreStats { pub dirs: FileDirStats, pub files: FileDirStats }
pub struct IoErr { pub _opaque: u64 }
// the destination as far as removal goes.  EFFECT AS PRECONDITION: something is removed from the destination only if
// deletion was requested and this is no dry run
pub struct LocalDestinationR { pub _opaque: u64 }
impl LocalDestinationR {
    #[verifier::external_body]
    pub fn remove_dir(&self, p: &PathBufR, Ghost(delete): Ghost<bool>, Ghost(dry_run): Ghost<bool>) -> (r: Result<(), IoErr>)
        requires delete && !dry_run,
    { unimplemented!() }
    #[verifier::external_body]
    pub fn remove_file(&self, p: &PathBufR, Ghost(delete): Ghost<bool>, Ghost(dry_run): Ghost<bool>) -> (r: Result<(), IoErr>)
        requires delete && !dry_run,
    { unimplemented!() }
}
impl PathBufR {
    // std::path::Path::is_dir / is_file: FOLLOW symlinks (stat, not lstat) -- unrelated to the walk's own file type
    #[verifier::external_body]
    pub fn is_dir(&self) -> bool { unimplemented!() }
    #[verifier::external_body]
    pub fn is_file(&self) -> bool { unimplemented!() }
}
