"""C14 — restore never writes outside the target (path confinement half)."""
from tools.extract import Unit, Rw
from tools.krun import Harness

PROPERTY = "C14"
PRELUDE = ["../common/base.rs", "prelude.rs", "streamer_specs.rs"]
T = "crates/core/src/blob/tree.rs"
R_ERR = Rw("", "verr()", count=None, kind="err", optional=True, why="RusticError construction (kind/message/context dropped)")
R_DISCARD = Rw(r"(?m)^(\s*)_ = ", r"\1let _ = ", regex=True, count=None, optional=True, why="`_ = e;` -> `let _ = e;`")

UNITS = [
    Unit(name="NodeStreamer", file=T, kind="type", anchor="pub struct NodeStreamer<'a, BE, I>",
         rewrites=[Rw("std::vec::IntoIter<Node>", "NodeIter", count=2, why="std::vec::IntoIter<Node> -> opaque iterator stub")]),
    Unit(name="streamer_next", file=T, anchor="fn next(&mut self) -> Option<Self::Item>", within="impl<BE, I> Iterator for NodeStreamer<'_, BE, I>", ret_name="ret",
         wrap_open="impl<'a, BE: DecryptReadBackend + Clone, I: ReadGlobalIndex> NodeStreamer<'a, BE, I> {", wrap_close="}",
         attrs="#[verifier::exec_allows_no_decreases_clause]",
         functions=["<blob::tree::NodeStreamer as Iterator>::next (path construction)"],
         rewrites=[
             Rw("Self::Item", "NodeStreamItem", sig=True, why="trait impl -> inherent fn"),
             R_ERR, R_DISCARD,
             Rw("mem::replace(&mut self.inner, tree.nodes.into_iter())", "vreplace_iter(&mut self.inner, vnodes_into_iter(tree.nodes))", why="mem::replace / Vec::into_iter on the opaque iterator stub"),
             Rw(r"if let Some\(overrides\) = &self\.overrides\s*&& let Match::Ignore\(_\) = overrides\.matched\(&path, false\)", "if let Some(overrides) = &self.overrides && vis_ignored(overrides, &path)", regex=True,
                why="ignore::overrides::Override::matched -> opaque boolean"),
             Rw("", "", count=None, kind="letchain", why="let chains `if a && let P = e { .. }` (no else) -> nested ifs (their definition); Verus rejects let chains"),
         ],
         contract="""
    requires
        old(self).wf(),
    ensures
        /*@streamer_stays_in_tree*/ final(self).wf(),
        /*@yielded_path_confined*/ ret matches Some(Ok(item)) ==> confined(item.0) && item.0.comps@.len() >= 1,
""",
         loops={1: """
            invariant self.wf(),
"""},
         ),
]
KANI = []
META = {"not_covered": [
    "the content half of C14 (existing files, delete, verify, sparse): file-system state",
    "LocalDestination::path joining the streamed relative path onto the destination (std Path::join of a confined relative path)",
    "is_plain_name itself (assumed to decide 'one normal component' per std::path::Path::components)",
]}
