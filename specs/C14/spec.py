"""C14 — restore never writes outside the target (path confinement half)."""
from tools.extract import Unit, Rw
from tools.krun import Harness

PROPERTY = "C14"
PRELUDE = ["../common/base.rs", "prelude.rs", "streamer_specs.rs", "restore_stubs.rs", "merge_stubs.rs", "write_stubs.rs", "process_node_stubs.rs"]
T = "crates/core/src/blob/tree.rs"
R_ERR = Rw("", "verr()", count=None, kind="err", optional=True, why="RusticError construction (kind/message/context dropped)")
R_DISCARD = Rw(r"(?m)^(\s*)_ = ", r"\1let _ = ", regex=True, count=None, optional=True, why="`_ = e;` -> `let _ = e;`")

UNITS = [
    Unit(name="NodeStreamer", file=T, kind="type", anchor="pub struct NodeStreamer<'a, BE, I>",
         rewrites=[Rw("std::vec::IntoIter<Node>", "NodeIter", count=2, why="std::vec::IntoIter<Node> -> opaque iterator stub")]),
    Unit(name="streamer_next", file=T, anchor="fn next(&mut self) -> Option<Self::Item>", within="impl<BE, I> Iterator for NodeStreamer<'_, BE, I>", ret_name="ret",
         wrap_open="impl<'a, BE: DecryptReadBackend + Clone, I: ReadGlobalIndex> NodeStreamer<'a, BE, I> {", wrap_close="}",
         attrs="#[verifier::exec_allows_no_decreases_clause]",
         functions=["<blob::tree::NodeStreamer as Iterator>::next (path construction)"],
         rewrites=[
             Rw("Self::Item", "NodeStreamItem", sig=True, why="trait impl -> inherent fn"),
             R_ERR, R_DISCARD,
             Rw("mem::replace(&mut self.inner, tree.nodes.into_iter())", "vreplace_iter(&mut self.inner, vnodes_into_iter(tree.nodes))", why="mem::replace / Vec::into_iter on the opaque iterator stub"),
             Rw(r"if let Some\(overrides\) = &self\.overrides\s*&& let Match::Ignore\(_\) = overrides\.matched\(&path, false\)", "if let Some(overrides) = &self.overrides && vis_ignored(overrides, &path)", regex=True,
                why="ignore::overrides::Override::matched -> opaque boolean"),
             Rw("", "", count=None, kind="letchain", why="let chains `if a && let P = e { .. }` (no else) -> nested ifs (their definition); Verus rejects let chains"),
         ],
         contract="""
    requires
        old(self).wf(),
    ensures
        /*@streamer_stays_in_tree*/ final(self).wf(),
        /*@yielded_path_confined*/ ret matches Some(Ok(item)) ==> confined(item.0) && item.0.comps@.len() >= 1,
""",
         loops={1: """
            invariant self.wf(),
"""},
         ),
]
RS = "crates/core/src/commands/restore.rs"
UNITS += [
    Unit(name="BlobLocation", file="crates/core/src/blob.rs", kind="type", anchor="pub struct BlobLocation {", attrs="#[derive(Clone, Copy)]"),
    Unit(name="data_length", file="crates/core/src/blob.rs", anchor="pub const fn data_length(&self) -> u32", ret_name="r",
         wrap_open="impl BlobLocation {", wrap_close="}",
         functions=["blob::BlobLocation::data_length"],
         rewrites=[Rw("NonZeroU32::get(length)", "length", why="NonZeroU32::get (NonZeroU32 modelled as u32)")],
         contract="""
    requires
        self.uncompressed_length is None ==> self.length >= 32,   // an encrypted blob is at least nonce + MAC long
    ensures
        /*@data_length*/ r == (match self.uncompressed_length { None => (self.length - 32) as u32, Some(l) => l }),
"""),
    Unit(name="FileLocation", file=RS, kind="type", anchor="struct FileLocation {", attrs="#[derive(Clone, Copy)]"),
    Unit(name="add_file_blobs", file=RS, kind="block", within="fn add_file<S: IndexedFull>(",
         anchor="let file_idx = self.names.len();", block_end="@fn_end",
         block_sig="fn add_file_blobs(this: &mut RestorePlan, file: &Node, name: PathBufR, repo: &VRepoR, mut open_file: Option<OpenDestFile>) -> (res: RusticResult<AddFileResult>)",
         block_tail="",
         functions=["commands::restore::RestorePlan::add_file (blob placement part: from `let file_idx` to the end)"],
         rewrites=[
             Rw("self.", "this.", count=None, why="statement-block unit: self -> parameter"),
             Rw("for id in file.content.iter().flatten() {", "let vcont = vcontent(file); for id in it: vcont.iter() {", why="Option<Vec<_>>::iter().flatten() -> slice of the content (empty if None), bound to a local so that a `continue` in the loop can be handled by R-forcontinue; Verus for syntax"),
             Rw(r"open_file\s*\.as_mut\(\)\s*\.is_some_and\(\|file\| id\.blob_matches_reader\(length, file\)\)", "vblob_matches_existing(&mut open_file, id, length)", regex=True,
                why="comparison of the existing destination file with the blob: arbitrary boolean, false without a file"),
             Rw("let blob_location = this.r.entry((ie.pack, bl)).or_default();", "", why="BTreeMap entry API folded into the next rewrite"),
             Rw(r"blob_location\.push\(FileLocation \{(?P<f>.*?)\}\);", r"vplan_push(&mut this.r, ie.pack, bl, FileLocation {\g<f>});", regex=True,
                why="BTreeMap<(PackId, BlobLocation), SmallVec<FileLocation>> entry push -> append-only plan log"),
             Rw("bl.data_length().into()", "bl.data_length() as u64", why="u32 -> u64"),
         ],
         contract="""
    requires
        // the index entries of the file's blobs are well formed (an encrypted blob is >= 32 bytes long)
        forall|k: int| 0 <= k < content_of(*file).len() ==> dlen(#[trigger] content_of(*file)[k]) >= 0,
        // counters of the plan are plain u64 sums of file sizes
        old(this).matched_size + start_at(content_of(*file), content_of(*file).len() as int) <= u64::MAX,
        old(this).restore_size + start_at(content_of(*file), content_of(*file).len() as int) <= u64::MAX,
    ensures
        /*@every_blob_planned_at_its_offset*/ res is Ok ==> ({
            let c = content_of(*file);
            &&& final(this).r.log@.len() == old(this).r.log@.len() + c.len()
            &&& forall|k: int| 0 <= k < c.len() ==> {
                    let e = #[trigger] final(this).r.log@[old(this).r.log@.len() + k];
                    e.0 == ENTRY(c[k]).pack && e.1 == ENTRY(c[k]).location
                    && e.2.file_idx == old(this).names@.len() && e.2.file_start as int == start_at(c, k)
                }
            &&& final(this).r.log@.subrange(0, old(this).r.log@.len() as int) =~= old(this).r.log@
        }),
        /*@file_length_is_sum_of_blobs*/ res is Ok ==> final(this).file_lengths@ == old(this).file_lengths@.push(start_at(content_of(*file), content_of(*file).len() as int) as u64),
        /*@verified_only_if_every_blob_matched*/ res matches Ok(AddFileResult::Verified) ==> open_file is Some
              && forall|k: int| 0 <= k < content_of(*file).len() ==> (#[trigger] final(this).r.log@[old(this).r.log@.len() + k]).2.matches,
""",
         loops={1: """
            invariant
                vcont@ == content_of(*file),
                forall|k: int| 0 <= k < content_of(*file).len() ==> dlen(#[trigger] content_of(*file)[k]) >= 0,
                this.names@.len() == old(this).names@.len() + 1, file_idx == old(this).names@.len(),
                this.file_lengths@ == old(this).file_lengths@,
                (open_file is Some) == (of0 is Some),
                file_pos as int == start_at(content_of(*file), it.index@),
                this.matched_size + this.restore_size == old(this).matched_size + old(this).restore_size + file_pos,
                this.matched_size >= old(this).matched_size, this.restore_size >= old(this).restore_size,
                old(this).matched_size + start_at(content_of(*file), content_of(*file).len() as int) <= u64::MAX,
                old(this).restore_size + start_at(content_of(*file), content_of(*file).len() as int) <= u64::MAX,
                this.r.log@.len() == old(this).r.log@.len() + it.index@,
                this.r.log@.subrange(0, old(this).r.log@.len() as int) =~= old(this).r.log@,
                forall|k: int| 0 <= k < it.index@ ==> {
                    let e = #[trigger] this.r.log@[old(this).r.log@.len() + k];
                    e.0 == ENTRY(content_of(*file)[k]).pack && e.1 == ENTRY(content_of(*file)[k]).location
                    && e.2.file_idx == file_idx && e.2.file_start as int == start_at(content_of(*file), k)
                },
                !has_unmatched ==> forall|k: int| 0 <= k < it.index@ ==> (#[trigger] this.r.log@[old(this).r.log@.len() + k]).2.matches,
"""},
         hints=[("before", "let mut file_pos = 0;", "        let ghost of0 = open_file;"),
                ("before", "if matches {", "            proof { let n0 = old(this).r.log@.len() as int; assert(this.r.log@.subrange(0, n0) =~= log0.subrange(0, n0)); }"),
                ("loop_start", "1", "            proof { let k = it.index@; assert(content_of(*file)[k] == *id); lemma_start_at_mono(content_of(*file), k + 1, content_of(*file).len() as int); }\n            let ghost log0 = this.r.log@;")],
         ),
]
UNITS += [
    Unit(name="process_existing", file=RS, kind="block", within="pub(crate) fn collect_and_prepare<S: IndexedFull>(",
         anchor="if entry.depth() == 0 {", block_end="        };\n\n    let mut process_node =",
         block_sig="fn process_existing(walker: &mut WalkerR, entry: &DirEntry, opts: &VRestoreOpts, dry_run: bool, dest: &LocalDestinationR, stats: &mut RestoreStats, additional_existing: &mut bool) -> (r: RusticResult<Option<DirEntry>>)",
         block_tail="",
         functions=["commands::restore::collect_and_prepare (body of the closure process_existing: an entry of the destination that is not in the snapshot)"],
         rewrites=[
             Rw("", "", count=None, kind="log", why="logging removed"),
             Rw("next_entry(walker)", "vnext_entry(walker)", count=None, why="local closure next_entry -> stub"),
             Rw("dest.remove_dir(entry.path())", "dest.remove_dir(entry.path(), Ghost(opts.delete), Ghost(dry_run))", why="LocalDestination::remove_dir -> effectful stub (precondition: deletion requested, no dry run)"),
             Rw("dest.remove_file(entry.path())", "dest.remove_file(entry.path(), Ghost(opts.delete), Ghost(dry_run))", why="LocalDestination::remove_file -> effectful stub (precondition: deletion requested, no dry run)"),
             Rw("additional_existing = ", "*additional_existing = ", count=None, why="captured variable -> &mut parameter"),
             Rw("walker.skip_current_dir();", "walker.skip_current_dir(Ghost(entry.walk_is_dir@));", why="ghost argument: was the entry just yielded a directory of the walk? (precondition of the accurate walkdir contract)"),
         ],
         contract="""
    requires old(stats).dirs.additional < u64::MAX, old(stats).files.additional < u64::MAX,
    ensures
        // (implicit obligation, precondition of remove_dir / remove_file: extra entries are removed only if deletion was
        //  requested and this is no dry run)
        true,
"""),
]

UNITS += [
    Unit(name="merge_walk", file=RS, kind="block", within="pub(crate) fn collect_and_prepare<S: IndexedFull>(",
         anchor="    loop {\n        match (&next_dst, &next_node) {", block_end="@matching_brace",
         block_sig="fn merge_walk(mut next_dst: Option<DirEntryM>, mut next_node: Option<(PathBufR, Node)>, walker: &mut WalkerM, node_streamer: &mut NodeStreamM, dest: &LocalDestinationM) -> (r: RusticResult<()>)",
         block_tail="    Ok(())",
         functions=["commands::restore::collect_and_prepare (the merge loop: destination entries against the snapshot's node stream)"],
         rewrites=[
             Rw("process_existing(&mut walker, destination)?", "vprocess_existing_m(walker, destination, node_streamer)?", count=None, why="closure process_existing -> effectful stub: PRECONDITION 'no snapshot path, or the current node's path with the wrong kind'"),
             Rw("process_node(path, node, true)?", "vprocess_node_m(path, node, true, node_streamer, Ghost(dpath(destination.e) == dest_of(*path)))?", count=None, why="closure process_node -> effectful stub: the node fetched last, once; exists only for an entry at that path"),
             Rw("process_node(path, node, false)?", "vprocess_node_m(path, node, false, node_streamer, Ghost(false))?", count=None, why="closure process_node -> effectful stub"),
             Rw("next_entry(&mut walker)", "vnext_entry_m(walker)", count=None, why="closure next_entry -> walker stub"),
             Rw("node_streamer.next().transpose()?", "node_streamer.vnext()?", count=None, why="Iterator::next + Option<Result>::transpose -> stream stub"),
         ],
         contract="""
    requires
        walker_sorted(old(walker).seq@), nodes_sorted(old(node_streamer).seq@),
        dst_in_sync(next_dst, *old(walker)), node_in_sync(next_node, *old(node_streamer)),
        processed_nodes_before_dst(next_dst, next_node, *old(node_streamer), *old(walker)),
    ensures
        // every node of the snapshot is handed to process_node (exactly once, in order: preconditions of the stubs) ...
        /*@every_snapshot_node_is_processed*/ r is Ok ==> final(node_streamer).pos@ == final(node_streamer).seq@.len() && !final(node_streamer).pending@,
        // ... and every destination entry was looked at
        /*@every_destination_entry_is_visited*/ r is Ok ==> final(walker).pos@ == final(walker).seq@.len(),
        // (implicit obligation, precondition of process_existing: only entries that are no snapshot path -- or sit at the
        //  current node's path with the wrong kind -- are treated as additional, i.e. reported or removed)
""",
         loops={1: """
        invariant
            walker.seq@ == old(walker).seq@, node_streamer.seq@ == old(node_streamer).seq@,
            walker_sorted(walker.seq@), nodes_sorted(node_streamer.seq@),
            dst_in_sync(next_dst, *walker), node_in_sync(next_node, *node_streamer),
            processed_nodes_before_dst(next_dst, next_node, *node_streamer, *walker),
        ensures
            next_dst is None && next_node is None, dst_in_sync(next_dst, *walker), node_in_sync(next_node, *node_streamer),
        decreases (walker.seq@.len() - walker.pos@) + (node_streamer.seq@.len() - node_streamer.pos@) + (if next_dst is Some { 1int } else { 0int }) + (if next_node is Some { 1int } else { 0int }),
"""},
         hints=[("loop_start", "1", "        proof { axiom_plt_total_order(); }")],
         ),
]

UNITS += [
    # the closure process_node of collect_and_prepare: one node of the snapshot (a directory is created unless it exists or
    # this is a dry run; every regular file -- except a further hard link to an already planned one -- is handed to add_file)
    Unit(name="process_node", file=RS, kind="block", within="pub(crate) fn collect_and_prepare<S: IndexedFull>(",
         anchor="match node.node_type {\n            NodeType::Dir => {\n                if exists {", block_end="    };\n\n    let mut walker = WalkDir::new",
         block_sig="fn process_node(path: &PathBufP, node: &NodeP, exists: bool, dry_run: bool, opts: &VRestoreOptsP, repo: &VRepoP, dest: &mut DestP, stats: &mut RestoreStatsP, restore_infos: &mut RestorePlanP) -> (r: RusticResult<()>)",
         block_tail="",
         functions=["commands::restore::collect_and_prepare (body of the closure process_node: one node of the snapshot)"],
         rewrites=[
             Rw("", "", count=None, kind="log", why="logging removed"),
             Rw("", "", count=None, kind="maperr", why=".map_err(<error building closure>) -> .vmap_err()"),
             Rw("dest.create_dir(path)", "dest.vcreate_dir(path, Ghost(dry_run))", why="LocalDestination::create_dir -> effectful stub: REQUIRES !dry_run"),
             Rw(r"match restore_infos\.hardlink_candidates\.entry\(key\) \{\s*std::collections::btree_map::Entry::Vacant\(entry\) => \{\s*_ = entry\.insert\((?P<v>[^;]*?)\);(?P<rest>[^}]*)\}\s*std::collections::btree_map::Entry::Occupied\(_\) => return Ok\(\(\)\),[^\n]*\n\s*\}",
                r"if restore_infos.hardlink_candidates.vcontains(&key) { return Ok(()); } else { restore_infos.hardlink_candidates.vinsert(key, \g<v>); \g<rest> }", regex=True,
                why="BTreeMap entry API (Vacant => insert, Occupied => return) -> contains / insert on a ghost map"),
             Rw("path.clone()", "vclone_path(path)", count=None, why="PathBuf::clone"),
             Rw("restore_infos.add_file(dest, node,", "restore_infos.add_file(&*dest, node,", why="reborrow of the destination"),
         ],
         contract="""
    requires
        old(stats).dirs.modify < u64::MAX, old(stats).dirs.restore < u64::MAX, old(stats).files.modify < u64::MAX,
        old(stats).files.restore < u64::MAX, old(stats).files.unchanged < u64::MAX, old(stats).files.verified < u64::MAX,
    ensures
        // a directory of the snapshot that is missing in the destination is created (unless this is a dry run: precondition of the stub)
        /*@missing_directory_is_created*/ r is Ok && node.node_type is Dir && !exists && !dry_run ==> final(dest).created@.contains(path.id),
        /*@dry_run_creates_nothing*/ dry_run ==> final(dest).created@ == old(dest).created@,
        // every regular file is planned (handed to add_file), except a further hard link to a file that is planned already
        /*@every_file_is_planned*/ r is Ok && node.node_type is File
            && !(HARDLINK_KEY(*node) matches Some(k) && old(restore_infos).hardlink_candidates.m@.dom().contains(k))
            ==> final(restore_infos).planned@ == old(restore_infos).planned@.push(path.id),
        // nothing else is ever planned under this path
        /*@only_files_are_planned*/ !(node.node_type is File) ==> final(restore_infos).planned@ == old(restore_infos).planned@,
"""),
]

KANI = []
UNITS += [
    # the innermost task of restore_contents: allocate the file on first touch, then write one blob at its offset
    Unit(name="restore_write_blob", file=RS, kind="block", within="fn restore_contents<S: Open>(",
         anchor="@closure:s1.spawn(move |_|",
         block_sig="fn restore_write_blob(dest: &VDest, filenames: &Vec<DestPath>, sizes: &mut Vec<u64>, file_idx: usize, start: u64, data: BytesW, is_sparse: bool, size: u64, bl: &BlobLocation, p: &ProgressW, fs: &mut DestFs, Ghost(planned): Ghost<Seq<u64>>)",
         block_tail="""                                proof {
                                    // explicit instantiations (the proof must not depend on the solver's choice of triggers)
                                    let k = filenames@[file_idx as int].key@;
                                    assert forall|i: int| 0 <= i < filenames@.len() && i != file_idx implies (#[trigger] filenames@[i]).key@ != k by {
                                        if i < file_idx { assert(filenames@[i].key@ != filenames@[file_idx as int].key@); } else { assert(filenames@[file_idx as int].key@ != filenames@[i].key@); }
                                    }
                                    assert forall|i: int| 0 <= i < sizes_guard@.len() implies ((#[trigger] sizes_guard@[i]) == planned[i] && planned[i] > 0)
                                        || (sizes_guard@[i] == 0 && fcontent(*fs, filenames@[i].key@).len() == planned[i]) by {
                                        if i != file_idx {
                                            assert(filenames@[i].key@ != k);
                                            assert(fcontent(*fs, filenames@[i].key@) == fcontent(*old(fs), filenames@[i].key@));
                                            assert(sizes_guard@[i] == old(sizes)@[i]);
                                        }
                                    }
                                }""",
         functions=["commands::restore::restore_contents (per-destination task: allocate on first touch, write the blob at its offset; sparse skip)"],
         rewrites=[
             Rw("let mut sizes_guard = sizes.lock().unwrap();", "let sizes_guard = sizes;", why="Mutex guard -> the guarded vector itself (mutual exclusion ASSUMED)"),
             Rw("sizes_guard[file_idx] = 0;", "sizes_guard.set(file_idx, 0);", why="IndexMut on Vec -> Vec::set"),
             Rw("drop(sizes_guard);", "", why="guard release: no effect on the sequential model"),
             Rw(r"(?P<v>\w+)\.length\.into\(\)", r"(\g<v>.length as u64)", regex=True, count=None, optional=True, why="u32 -> u64 conversion -> cast"),
             Rw(r"dest\.set_length\(path, ([^;]*?)\)\.unwrap\(\);", r"dest.vset_length(path, \1, fs);", regex=True, why="LocalDestination::set_length + unwrap -> ghost file-system stub (failure panics the worker)"),
             Rw(r"dest\.write_at\(path, ([^;]*?), &data\)\.unwrap\(\);", r"dest.vwrite_at(path, \1, &data, fs);", regex=True, why="LocalDestination::write_at + unwrap -> ghost file-system stub"),
             Rw(r"dest\s*\.read_at\(path, (?P<o>[^,]+), (?P<l>[^;]*?)\)\s*\.is_ok_and\(\|old\| old\.iter\(\)\.all\(\|&b\| b == 0\)\)", r"dest.vreads_as_zeros(path, \g<o>, \g<l>, fs)", regex=True, why="read_at + all-bytes-zero test (closure) -> stub: true only if the range reads as zeros"),
         ],
         contract="""
    requires
        file_idx < filenames@.len(),
        alloc_state(old(sizes)@, planned, filenames@, *old(fs)),
        size == data.data@.len(),
        start + data.data@.len() <= planned[file_idx as int],      // the plan places the blob inside the file (add_file_blobs)
        is_sparse ==> all_zero(data.data@),                         // established by the statement in front (unit sparse_decision)
    ensures
        alloc_state(final(sizes)@, planned, filenames@, *final(fs)),
        // THE property of this step: afterwards the file holds the blob's bytes at the blob's offset ...
        /*@blob_bytes_are_in_place*/ fcontent(*final(fs), filenames@[file_idx as int].key@).subrange(start as int, start + data.data@.len()) =~= data.data@,
        /*@file_has_planned_length*/ fcontent(*final(fs), filenames@[file_idx as int].key@).len() == planned[file_idx as int],
        // ... nothing else in this file changed (bytes matched in place stay) ...
        /*@rest_of_file_kept*/ forall|i: int| 0 <= i < planned[file_idx as int] && i < fcontent(*old(fs), filenames@[file_idx as int].key@).len() && !(start <= i < start + data.data@.len())
            ==> fcontent(*final(fs), filenames@[file_idx as int].key@)[i] == fcontent(*old(fs), filenames@[file_idx as int].key@)[i],
        // ... and no other path was touched
        /*@other_files_untouched*/ forall|k: int| k != filenames@[file_idx as int].key@ ==> (final(fs).files@.dom().contains(k) == old(fs).files@.dom().contains(k)) && fcontent(*final(fs), k) == fcontent(*old(fs), k),
"""),
    Unit(name="sparse_decision", file=RS, kind="block", within="fn restore_contents<S: Open>(",
         anchor="let is_sparse = match sparse {", block_end="@matching_brace",
         block_sig="fn sparse_decision(sparse: SparseRestore, data: &BytesW) -> (r: bool)",
         block_tail="                        is_sparse",
         functions=["commands::restore::restore_contents (decision to skip the write of a blob)"],
         rewrites=[Rw("data.iter().all(|&b| b == 0)", "vbytes_all_zero(data)", why="iterator all() over the blob bytes -> stub with the same meaning")],
         contract="""
    ensures /*@only_all_zero_blobs_are_sparse*/ r ==> all_zero(data.data@),
"""),
    Unit(name="SparseRestore", file=RS, kind="type", anchor="pub enum SparseRestore {", attrs="#[derive(Clone, Copy)]",
         rewrites=[Rw("    #[default]\n", "\n", why="derive(Default) helper attribute dropped with the derive")]),
]

# restore reads several blobs of one pack with ONE ranged read (PackInfo::coalesce over BlobLocations): the units live in
# C02's spec (BlobLocations is shared with prune/copy) and are verified as part of this property's check as well
LD = "crates/core/src/backend/local_destination.rs"
UNITS += [
    Unit(name="matching_file_decision", file=LD, kind="block", within="pub fn get_matching_file(&self, item: impl AsRef<Path>, size: u64) -> Option<File>",
         anchor=r"@closure:~\.map_or_else\(\s*\|_\| None,\s*\|meta\|",
         block_sig="fn matching_file_decision(meta: &MetaR, size: u64, filename: &PathD) -> (r: Option<OpenedFile>)",
         block_tail="",
         functions=["backend::local_destination::LocalDestination::get_matching_file (closure deciding on the existing entry's metadata)"],
         rewrites=[Rw("File::open(&filename).ok()", "vopen_ok(filename)", why="File::open + ok() -> stub")],
         contract="""
    ensures
        // an existing destination entry is compared blob by blob (and left as it is when every blob matches: add_file's `Verified`)
        // only if it is a regular file of EXACTLY the snapshot file's size -- a longer file would keep its tail
        /*@only_a_regular_file_of_exactly_the_size_is_reused*/ r is Some ==> meta.is_file && meta.len == size,
"""),
]

SATELLITES = [("C02", ["blob_constants", "BlobLocation", "BlobLocations", "from_blob_location", "can_coalesce", "append", "coalesce", "PackToDo", "RepackReason", "PackInfo", "PrunePack", "CopyPackBlobs", "RestorePackInfo", "restore_packinfo_coalesce", "FileLocation", "restore_read_of_blob", "restore_needed_pack"])]

META = {"not_covered": [
    "restore_contents outside its per-destination write task (thread pool, reading/decrypting the pack range, the unwrap()s), set_metadata (the closures process_existing / process_node of collect_and_prepare ARE units; RestorePlan::add_file is a stub there, its blob loop the unit add_file_blobs), LocalDestination (syscalls; set_length/write_at/read_at are ASSUMED to behave as ftruncate/pwrite/pread)",
    "walkdir order (ascending by path, component-wise) and NodeStreamer order are ASSUMED sorted in the merge unit",
    "LocalDestination::path joining the streamed relative path onto the destination (std Path::join of a confined relative path)",
    "is_plain_name itself (assumed to decide 'one normal component' per std::path::Path::components)",
]}
