impl<'a, BE: DecryptReadBackend + Clone, I: ReadGlobalIndex> NodeStreamer<'a, BE, I> {
    // the streamer's current directory never leaves the tree it streams
    spec fn wf(&self) -> bool { confined(self.path) }
}
