// ===== C14 (content half, write kernel): the per-destination task of restore_contents =====
// The destination directory as a ghost map path -> bytes; a path outside the domain does not exist.
pub struct DestFs { pub files: Ghost<Map<int, Seq<u8>>> }
pub open spec fn fcontent(fs: DestFs, p: int) -> Seq<u8> { if fs.files@.dom().contains(p) { fs.files@[p] } else { Seq::empty() } }
pub open spec fn all_zero(s: Seq<u8>) -> bool { forall|i: int| 0 <= i < s.len() ==> s[i] == 0u8 }
pub open spec fn zeros(n: int) -> Seq<u8> { Seq::new(n as nat, |i: int| 0u8) }
// OpenOptions::new().create(true).truncate(false).write(true).open(f)?.set_len(n): an existing file KEEPS its first
// min(len, n) bytes, a longer file is cut, a shorter (or new) one is extended with zero bytes  (ASSUMED: POSIX ftruncate)
pub open spec fn after_set_len(old: Seq<u8>, n: int) -> Seq<u8> {
    if n <= old.len() { old.subrange(0, n) } else { old + zeros(n - old.len()) }
}
// seek(offset) + write_all(data) on a file at least offset+len long: exactly that range is replaced
pub open spec fn after_write(old: Seq<u8>, off: int, data: Seq<u8>) -> Seq<u8> {
    old.subrange(0, off) + data + old.subrange(off + data.len(), old.len() as int)
}
pub struct DestPath { pub key: Ghost<int> }
pub struct VDest { pub _opaque: u64 }
impl VDest {
    // `.unwrap()` of the result: a failure panics the worker (never a silent success), so the stub returns ()
    #[verifier::external_body]
    pub fn vset_length(&self, path: &DestPath, size: u64, fs: &mut DestFs)
        ensures final(fs).files@ == old(fs).files@.insert(path.key@, after_set_len(fcontent(*old(fs), path.key@), size as int)),
    { unimplemented!() }
    #[verifier::external_body]
    pub fn vwrite_at(&self, path: &DestPath, offset: u64, data: &BytesW, fs: &mut DestFs)
        requires offset + data.data@.len() <= fcontent(*old(fs), path.key@).len(),   // inside the allocated file
        ensures final(fs).files@ == old(fs).files@.insert(path.key@, after_write(fcontent(*old(fs), path.key@), offset as int, data.data@)),
    { unimplemented!() }
    // read_at(path, offset, length).is_ok_and(|old| old.iter().all(|&b| b == 0)): reads exactly the range (or fails -> false)
    #[verifier::external_body]
    pub fn vreads_as_zeros(&self, path: &DestPath, offset: u64, length: u64, fs: &DestFs) -> (r: bool)
        ensures r ==> offset + length <= fcontent(*fs, path.key@).len()
                    && all_zero(fcontent(*fs, path.key@).subrange(offset as int, offset + length)),
    { unimplemented!() }
}
pub struct BytesW { pub data: Ghost<Seq<u8>> }
#[verifier::external_body]
pub fn vbytes_all_zero(data: &BytesW) -> (r: bool) ensures r == all_zero(data.data@), { unimplemented!() }
pub struct ProgressW { pub _opaque: u64 }
impl ProgressW {
    #[verifier::external_body]
    pub fn inc(&self, n: u64) { unimplemented!() }
}
// what the plan guarantees to every per-destination task (established by RestorePlan::add_file, unit add_file_blobs):
// file i is either not yet allocated (sizes[i] = its planned length > 0) or already has its planned length
pub open spec fn alloc_state(sizes: Seq<u64>, planned: Seq<u64>, names: Seq<DestPath>, fs: DestFs) -> bool {
    &&& sizes.len() == planned.len() == names.len()
    &&& forall|i: int| 0 <= i < sizes.len() ==> (#[trigger] sizes[i] == planned[i] && planned[i] > 0)
            || (sizes[i] == 0 && fcontent(fs, names[i].key@).len() == planned[i])
    &&& forall|i: int, j: int| 0 <= i < j < names.len() ==> (#[trigger] names[i]).key@ != (#[trigger] names[j]).key@
}

// ---- LocalDestination::get_matching_file: which existing file is compared blob by blob (and may be left as it is) ----
pub struct MetaR { pub is_file: bool, pub len: u64 }
impl MetaR {
    pub fn is_file(&self) -> (r: bool) ensures r == self.is_file, { self.is_file }
    pub fn len(&self) -> (r: u64) ensures r == self.len, { self.len }
}
pub struct OpenedFile { pub _opaque: u64 }
pub struct PathD { pub _opaque: u64 }
// File::open(&filename).ok()
#[verifier::external_body]
pub fn vopen_ok(filename: &PathD) -> Option<OpenedFile> { unimplemented!() }
