// ===== C15: dry run of the hot/cold repair (copying missing files between the two parts) =====
#[derive(Clone, Copy)]
pub struct FileTypeH { pub _opaque: u8 }
pub struct IdH { pub _opaque: u64 }
pub struct VBeH { pub _opaque: u64 }
pub struct VRepoH { pub be_cold: VBeH }
pub struct ProgressH { pub _opaque: u64 }
impl ProgressH {
    #[verifier::external_body]
    pub fn set_length(&self, n: u64) { unimplemented!() }
    #[verifier::external_body]
    pub fn finish(&self) { unimplemented!() }
}
impl VRepoH {
    #[verifier::external_body]
    pub fn vprogress_bytes(&self) -> ProgressH { unimplemented!() }
}
// commands::repair::hotcold::copy: writes the files into the destination part.  PRECONDITION: not in a dry run
#[verifier::external_body]
pub fn vcopy_files(files: Vec<IdH>, file_type: FileTypeH, from: &VBeH, to: &VBeH, p: &ProgressH, dry: Ghost<bool>) -> (r: RusticResult<()>)
    requires !dry@,
{ unimplemented!() }
// warm_up_wait: a request to the storage tier, no repository write (ASSUMED)
#[verifier::external_body]
pub fn vwarm_up_wait_h(repo: &VRepoH, file_type: FileTypeH, ids: &Vec<IdH>) -> (r: RusticResult<()>) { unimplemented!() }
