// ===== C15 prelude: the repository as seen by the entry guards.  `config()` and `dbe()` are pure
// accessors (ASSUMED: Repository::config / ::dbe have no effect on storage). =====
pub struct VConfig { pub append_only: Option<bool> }
pub struct VBe { pub _opaque: u8 }
pub struct VRepo { pub cfg: VConfig, pub be: VBe }
impl VRepo {
    pub fn config(&self) -> (r: &VConfig) ensures *r == self.cfg, { &self.cfg }
    pub fn dbe(&self) -> (r: &VBe) ensures *r == self.be, { &self.be }
}
// the option structs, reduced to the fields the guards read
// option structs: RewriteOptions, RepairSnapshotsOptions and ConfigOptions are EXTRACTED from /repo
// (see units); only the types of fields the guards never read are stubs:
pub struct StringList { pub _opaque: u64 }
pub struct SnapshotModification { pub _opaque: u64 }
pub struct ByteSize(pub u64);
pub enum Chunker { Rabin, FixedSize }

pub open spec fn is_append_only(repo: &VRepo) -> bool { repo.cfg.append_only == Some(true) }

// ---- TreeModifier (blob/tree/modify.rs): effects are modelled as PRECONDITIONS of the effectful
// stubs: packer.add / packer.finalize / indexer finalize may only be called on a `writable` target,
// and a dry-run modifier owns non-writable ones (struct invariant `wf`).  A dry-run path that reaches
// one of them fails the stub's precondition.
pub trait DecryptWriteBackend {}
pub trait DecryptFullBackend: DecryptWriteBackend {}
#[derive(Clone, Copy)]
pub struct TreeId { pub _opaque: u64 }
pub struct BlobId { pub _opaque: u64 }
pub struct Tree { pub _opaque: u64 }
pub struct Bytes { pub _opaque: u64 }
pub struct PackerStats { pub _opaque: u64 }
pub trait ReadGlobalIndex {
    fn has_tree(&self, id: &TreeId) -> bool;
}
pub struct SharedIndexer<BE> { pub writable: Ghost<bool>, pub _p: core::marker::PhantomData<BE> }
pub struct Packer<BE> { pub writable: Ghost<bool>, pub _p: core::marker::PhantomData<BE> }

impl<BE> Packer<BE> {
    #[verifier::external_body]
    pub fn add(&self, data: Bytes, id: BlobId) -> (r: RusticResult<()>)
        requires self.writable@,
    { unimplemented!() }
    #[verifier::external_body]
    pub fn finalize(self) -> (r: RusticResult<PackerStats>)
        requires self.writable@,
    { unimplemented!() }
}
#[verifier::external_body]
pub fn vindexer_finalize<BE>(ix: &SharedIndexer<BE>) -> (r: RusticResult<()>)
    requires ix.writable@,
{ unimplemented!() }
#[verifier::external_body]
pub fn vtree_serialize(t: &Tree) -> (r: RusticResult<(Vec<u8>, TreeId)>)
{ unimplemented!() }
#[verifier::external_body]
pub fn vbytes_from(v: Vec<u8>) -> (r: Bytes)
{ unimplemented!() }
#[verifier::external_body]
pub fn vblobid_from(t: &TreeId) -> (r: BlobId)
{ unimplemented!() }

impl<'a, BE: DecryptFullBackend, I: ReadGlobalIndex> TreeModifier<'a, BE, I> {
    spec fn wf(&self) -> bool {
        self.packer.writable@ == !self.dry_run && self.indexer.writable@ == !self.dry_run
    }
}
