// ===== C15 (dry run): commands::repair::index::repair_index touches the repository only when dry_run is false =====
// EFFECTS AS PRECONDITIONS: every operation that can write to or remove from the repository takes the ghost value of
// `dry_run` and REQUIRES it to be false.
pub struct IdD(pub u64);
#[derive(Clone, Copy)]
pub struct PackIdD(pub u64);
// the packs for which warm-up was requested (and waited for) so far
pub struct WarmToken { pub ids: Ghost<Set<u64>> }
pub struct IndexFileD { pub packs: Vec<u64>, pub packs_to_delete: Vec<u64> }
pub struct RepairIndexOptions { pub read_all: bool }
pub struct ProgressD { pub _opaque: u64 }
impl ProgressD {
    #[verifier::external_body]
    pub fn finish(&self) { unimplemented!() }
    #[verifier::external_body]
    pub fn inc(&self, n: u64) { unimplemented!() }
    #[verifier::external_body]
    pub fn set_length(&self, n: u64) { unimplemented!() }
}
impl VRepo {
    #[verifier::external_body]
    pub fn progress_counter(&self, s: &str) -> ProgressD { unimplemented!() }
    // warm-up of the packs to read: a request to the storage tier, no write to / removal from the repository (ASSUMED)
    #[verifier::external_body]
    pub fn vwarm_up_wait(&self, packs: &Vec<(PackIdD, Option<u32>, u32)>, w: &mut WarmToken) -> (r: RusticResult<()>)
        ensures r is Ok ==> forall|k: int| 0 <= k < packs@.len() ==> final(w).ids@.contains((#[trigger] packs@[k]).0.0),
            forall|x: u64| old(w).ids@.contains(x) ==> final(w).ids@.contains(x),
    { unimplemented!() }
}
// packs_to_read: the packs queued so far (index/size mismatch or read-all); into_pack_to_read ADDS the listed packs no index mentions
pub struct PackCheckerD { pub packs_to_read: Vec<(PackIdD, Option<u32>, u32)> }
impl PackCheckerD {
    // lists the pack files (read only)
    #[verifier::external_body]
    pub fn new(repo: &VRepo) -> RusticResult<PackCheckerD> { unimplemented!() }
    // in-memory comparison of one index file with the pack list (unit of C12)
    #[verifier::external_body]
    pub fn check_pack(&mut self, index: IndexFileD, read_all: bool) -> (IndexFileD, bool) { unimplemented!() }
    #[verifier::external_body]
    pub fn into_pack_to_read(self) -> Vec<(PackIdD, Option<u32>, u32)> { unimplemented!() }
}
impl VBe {
    #[verifier::external_body]
    pub fn vstream_all_index(&self, p: &ProgressD) -> RusticResult<Vec<RusticResult<(IdD, IndexFileD)>>> { unimplemented!() }
    // WRITES an index file
    #[verifier::external_body]
    pub fn vsave_index(&self, f: &IndexFileD, Ghost(dry_run): Ghost<bool>) -> (r: RusticResult<IdD>)
        requires !dry_run,
    { unimplemented!() }
    // REMOVES an index file
    #[verifier::external_body]
    pub fn vremove_index(&self, id: &IdD, Ghost(dry_run): Ghost<bool>) -> (r: RusticResult<()>)
        requires !dry_run,
    { unimplemented!() }
}
pub struct PackHeaderD { pub _opaque: u64 }
pub struct IndexPackD { pub _opaque: u64 }
// PackHeader::from_file: ranged reads of the pack (unit of C08); reads only.  PRECONDITION (C16): warm-up was requested for this pack
#[verifier::external_body]
pub fn vheader_from_file(be: &VBe, id: PackIdD, size_hint: Option<u32>, packsize: u32, warm: &WarmToken) -> RusticResult<PackHeaderD>
    requires warm.ids@.contains(id.0),
{ unimplemented!() }
// IndexPack { blobs: header.into_blobs(), id, ..Default::default() }
#[verifier::external_body]
pub fn vindexpack_from_header(h: PackHeaderD, id: PackIdD) -> IndexPackD { unimplemented!() }
// the Indexer: `empty` = holds no pack.  add_with may SAVE an index file on its own (50 000 blobs or 5 minutes, unit of
// C07), so it counts as a write; finalize writes iff the indexer is not empty (Indexer::save, unit of C07)
pub struct IndexerD { pub empty: Ghost<bool> }
impl IndexerD {
    #[verifier::external_body]
    pub fn vnew(be: &VBe) -> (r: IndexerD) ensures r.empty@, { unimplemented!() }
    #[verifier::external_body]
    pub fn vadd_with(&mut self, pack: IndexPackD, delete: bool, Ghost(dry_run): Ghost<bool>) -> (r: RusticResult<()>)
        requires !dry_run,
        ensures !final(self).empty@,
    { unimplemented!() }
    #[verifier::external_body]
    pub fn vfinalize(&self, Ghost(dry_run): Ghost<bool>) -> (r: RusticResult<()>)
        requires dry_run ==> self.empty@,
    { unimplemented!() }
}
