// ===== C15: dry run of `repair snapshots` -- every repository write/removal is a stub that REQUIRES !dry_run =====
#[derive(Clone, Copy, PartialEq, Eq)]
pub struct SnapIdS(pub u64);
pub struct SnapS { pub id: SnapIdS, pub original: Option<SnapIdS>, pub tree: TreeId, pub rest: u64 }
impl SnapS {
    // set_tags(opts.tag.clone()): string handling, changes the snapshot value only
    #[verifier::external_body]
    pub fn vset_tags(&mut self, opts: &RepairSnapshotsOptions)
        ensures final(self).id == old(self).id, final(self).original == old(self).original,
    { unimplemented!() }
}
#[verifier::external_body]
pub fn vclone_snap(s: &SnapS) -> (r: SnapS) ensures r.id == s.id, r.original == s.original, { unimplemented!() }
pub struct RepairStateS { pub delete: Vec<SnapIdS>, pub rest: u64 }
impl RepairStateS {
    #[verifier::external_body]
    pub fn vnew(opts: &RepairSnapshotsOptions) -> (r: RepairStateS) ensures r.delete@.len() == 0, { unimplemented!() }
}
// TreeModifier as repair_snapshots uses it.  Its own dry-run discipline (save_tree / finalize write nothing when it was
// created with dry_run) is PROVED by the units save_tree / finalize above; here: the command must create it with ITS flag
pub struct TreeModifierS { pub dry_run: bool }
impl TreeModifierS {
    #[verifier::external_body]
    pub fn vnew(be: &VBe, config: &VConfig, dry_run: bool) -> (r: RusticResult<TreeModifierS>)
        ensures r matches Ok(m) ==> m.dry_run == dry_run,
    { unimplemented!() }
    // modify_tree: saves new trees unless the modifier is a dry-run one.  PRECONDITION: in a dry run the modifier is a dry-run modifier
    #[verifier::external_body]
    pub fn vmodify_tree(&self, tree: TreeId, state: &mut RepairStateS, dry: Ghost<bool>) -> (r: RusticResult<ModifierChange>)
        requires dry@ ==> self.dry_run,
        ensures final(state).delete@ == old(state).delete@,
    { unimplemented!() }
    #[verifier::external_body]
    pub fn vfinalize(self, dry: Ghost<bool>) -> (r: RusticResult<()>)
        requires dry@ ==> self.dry_run,
    { unimplemented!() }
}
impl VBe {
    // save_file of a snapshot file: a repository write.  PRECONDITION: not in a dry run
    #[verifier::external_body]
    pub fn vsave_snapshot(&self, snap: &SnapS, dry: Ghost<bool>) -> (r: RusticResult<SnapIdS>)
        requires !dry@,
    { unimplemented!() }
    // delete_list of snapshot files: a repository removal.  PRECONDITION: not in a dry run
    #[verifier::external_body]
    pub fn vdelete_snapshots(&self, ids: &Vec<SnapIdS>, p: ProgressD, dry: Ghost<bool>) -> (r: RusticResult<()>)
        requires !dry@,
    { unimplemented!() }
}

// ===== C15: dry run of rewrite (process_snapshots: save the rewritten snapshots, forget the originals) =====
impl VRepo {
    // Repository::save_snapshots: a repository write.  PRECONDITION: not in a dry run
    #[verifier::external_body]
    pub fn vsave_snapshots_d(&self, snaps: &Vec<SnapS>, dry: Ghost<bool>) -> (r: RusticResult<()>)
        requires !dry@,
    { unimplemented!() }
    // Repository::delete_snapshots: a repository removal.  PRECONDITION: not in a dry run
    #[verifier::external_body]
    pub fn vdelete_snapshots_d(&self, ids: &Vec<SnapIdS>, dry: Ghost<bool>) -> (r: RusticResult<()>)
        requires !dry@,
    { unimplemented!() }
}
#[verifier::external_body]
pub fn vsnapshot_ids_d(snaps: &Vec<SnapS>) -> Vec<SnapIdS> { unimplemented!() }
