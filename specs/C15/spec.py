"""C15 — append-only and dry-run modes never remove or overwrite stored data."""
from tools.extract import Unit, Rw
from tools.krun import Harness

PROPERTY = "C15"
PRELUDE = ["../common/base.rs", "prelude.rs", "repair_index_stubs.rs", "repair_snapshots_stubs.rs", "hotcold_stubs.rs"]
R_ERR = Rw("", "verr()", count=None, kind="err", optional=True, why="RusticError construction (kind/message/context dropped)")


def guard(name, file, within, block_end, sig, pre, fn, wrap=False):
    """Entry guard = the statements from the FIRST statement of the function up to (excluding) the
    first statement after the guard.  Anything inserted in front of the guard becomes part of the unit."""
    return Unit(name=name, file=file, kind="block", within=within, anchor="@body", block_end=block_end,
                block_sig=sig, block_tail="    Ok(())", rewrites=[R_ERR],
                wrap_open="impl VRepo {" if wrap else "", wrap_close="}" if wrap else "",
                functions=[fn + " (entry guard: body start up to the first statement after the append-only check)"],
                contract="\n    ensures\n        /*@%s_refuses_append_only*/ %s ==> r is Err,\n" % (name, pre))


R_ATTRS = Rw("", "", count=None, kind="attrs", optional=True, why="serde/clap/setters helper attributes removed (inert without their proc macros)")
UNITS = [
    Unit(name="RewriteOptions", file="crates/core/src/commands/rewrite.rs", kind="type", anchor="pub struct RewriteOptions {", rewrites=[R_ATTRS]),
    Unit(name="RepairSnapshotsOptions", file="crates/core/src/commands/repair/snapshots.rs", kind="type", anchor="pub struct RepairSnapshotsOptions {", rewrites=[R_ATTRS]),
    Unit(name="ConfigOptions", file="crates/core/src/commands/config.rs", kind="type", anchor="pub struct ConfigOptions {", rewrites=[R_ATTRS]),
    guard("guard_prune", "crates/core/src/commands/prune.rs", "pub(crate) fn prune_repository<S: Open>(",
          "repo.warm_up_wait(prune_plan.repack_packs().into_iter())?;",
          "fn guard_prune(repo: &VRepo) -> (r: RusticResult<()>)", "is_append_only(repo)", "commands::prune::prune_repository"),
    guard("guard_delete_snapshots", "crates/core/src/repository.rs", "pub fn delete_snapshots(&self, ids: &[SnapshotId]) -> RusticResult<()>",
          'let p = self.progress_counter("removing snapshots...");',
          "fn guard_delete_snapshots(&self) -> (r: RusticResult<()>)", "is_append_only(self)", "repository::Repository::delete_snapshots", wrap=True),
    guard("guard_repair_index", "crates/core/src/commands/repair/index.rs", "pub(crate) fn repair_index<S: Open>(",
          "let mut checker = PackChecker::new(repo)?;",
          "fn guard_repair_index(repo: &VRepo) -> (r: RusticResult<()>)", "is_append_only(repo)", "commands::repair::index::repair_index"),
    guard("guard_repair_snapshots", "crates/core/src/commands/repair/snapshots.rs", "pub(crate) fn repair_snapshots<S: IndexedFull>(",
          "let mut state = RepairState::new(opts, repo.index());",
          "fn guard_repair_snapshots(repo: &VRepo, opts: &RepairSnapshotsOptions) -> (r: RusticResult<()>)",
          "is_append_only(repo) && opts.delete", "commands::repair::snapshots::repair_snapshots"),
    guard("guard_rewrite_trees", "crates/core/src/commands/rewrite.rs", "pub(crate) fn rewrite_snapshots_and_trees<S: IndexedFull>(",
          "let mut rewriter = Rewriter::new(",
          "fn guard_rewrite_trees(repo: &VRepo, opts: &RewriteOptions) -> (r: RusticResult<()>)",
          "is_append_only(repo) && opts.forget", "commands::rewrite::rewrite_snapshots_and_trees"),
    guard("guard_rewrite", "crates/core/src/commands/rewrite.rs", "pub(crate) fn rewrite_snapshots<S: Open>(",
          "let snapshots: Vec<_> = snapshots",
          "fn guard_rewrite(repo: &VRepo, opts: &RewriteOptions) -> (r: RusticResult<()>)",
          "is_append_only(repo) && opts.forget", "commands::rewrite::rewrite_snapshots"),
    guard("guard_apply_config", "crates/core/src/commands/config.rs", "pub(crate) fn apply_config<S: Open>(",
          "let mut new_config = repo.config().clone();",
          "fn guard_apply_config(repo: &VRepo, opts: &ConfigOptions) -> (r: RusticResult<()>)",
          "is_append_only(repo) && opts.set_append_only != Some(false)", "commands::config::apply_config"),
]
MOD = "crates/core/src/blob/tree/modify.rs"
UNITS += [
    Unit(name="TreeModifier", file=MOD, kind="type", anchor="pub struct TreeModifier<'a, BE: DecryptWriteBackend, I: ReadGlobalIndex> {"),
    Unit(name="save_tree", file=MOD, anchor="pub fn save_tree(&self, new_tree: &Tree) -> RusticResult<TreeId>", ret_name="r",
         wrap_open="impl<'a, BE: DecryptFullBackend, I: ReadGlobalIndex> TreeModifier<'a, BE, I> {", wrap_close="}",
         functions=["blob::tree::modify::TreeModifier::save_tree"],
         rewrites=[
             Rw(r"new_tree\.serialize\(\)\.map_err\(\|err\| \{.*?\}\)\?", "vtree_serialize(new_tree)?", regex=True,
                why="Tree::serialize + error-mapping closure -> stub (serialisation not under contract here)"),
             Rw("chunk.into()", "vbytes_from(chunk)", why="Vec<u8> -> Bytes conversion"),
             Rw("BlobId::from(*new_id)", "vblobid_from(&new_id)", why="TreeId -> BlobId conversion"),
         ],
         contract="""
    requires
        self.wf(),
    // the obligation is implicit: `packer.add` has precondition `writable`, which a dry-run modifier
    // does not have -- so: dry_run ==> packer.add is not called
"""),
    Unit(name="finalize", file=MOD, anchor="pub fn finalize(self) -> RusticResult<()>", ret_name="r",
         wrap_open="impl<'a, BE: DecryptFullBackend, I: ReadGlobalIndex> TreeModifier<'a, BE, I> {", wrap_close="}",
         functions=["blob::tree::modify::TreeModifier::finalize"],
         rewrites=[Rw(r"(?m)^(\s*)_ = ", r"\1let _ = ", regex=True, count=None, why="`_ = e;` (destructuring assignment, unsupported by Verus) -> `let _ = e;` (same evaluation and drop)"),
                   Rw("self.indexer.write().unwrap().finalize()?;", "vindexer_finalize(&self.indexer)?;", why="RwLock write guard + Indexer::finalize -> effectful stub")],
         contract="""
    requires
        self.wf(),
""",
         canary="""
proof fn canary_tree_modifier<'a, BE: DecryptFullBackend, I: ReadGlobalIndex>(t: TreeModifier<'a, BE, I>)
    requires t.wf(), t.dry_run
    ensures false
{}
"""),
]

M = "backend::dry_run::verif_kani::"
D = "backend::dry_run::DryRunBackend::"
RIX = "crates/core/src/commands/repair/index.rs"
UNITS += [
    # dry run of `repair index`: everything after the append-only guard, with every storage write/removal as an
    # effectful stub that REQUIRES !dry_run
    Unit(name="repair_index_dry_run", file=RIX, kind="block", within="pub(crate) fn repair_index<S: Open>(",
         anchor="let mut checker = PackChecker::new(repo)?;", block_end="@fn_end",
         block_sig="fn repair_index_dry_run(repo: &VRepo, be: &VBe, opts: RepairIndexOptions, dry_run: bool, vwarm: &mut WarmToken) -> (r: RusticResult<()>)",
         block_tail="",
         functions=["commands::repair::index::repair_index (dry run: whole body after the append-only guard)"],
         rewrites=[
             Rw("PackChecker::new(repo)?", "PackCheckerD::new(repo)?", why="PackChecker -> stub (lists packs: read only)"),
             Rw("for index in be.stream_all::<IndexFile>(&p)? {", "let vstream = be.vstream_all_index(&p)?; for index in it: vstream.into_iter() {", why="channel stream -> vector of per-file results; Verus for-loop syntax"),
             Rw(r"repo\.warm_up_wait\((\w+(?:\.\w+)*)\.iter\(\)\.map\(\|\(id, _, _\)\| \*id\)\)\?;", r"repo.vwarm_up_wait(&\1, vwarm)?;", regex=True, why="iterator adapter argument -> the vector itself; warm-up is no repository write (ASSUMED); the result is kept as the proof token the header reads require (C16)"),
             Rw("let indexer = Indexer::new(be.clone()).into_shared();", "let mut indexer = IndexerD::vnew(be);", why="Arc<RwLock<Indexer>> -> owned stub with ghost emptiness"),
             Rw(r"p\.set_length\(pack_read_header\.len\(\)\.try_into\(\)\.map_err\(\|err\| \{.*?\}\)\?\);", "p.set_length(pack_read_header.len() as u64);" + "\n" * 7, regex=True, why="usize -> u64 conversion with error-building closure -> cast (lossless on 64 bit)"),
             Rw("for (id, size_hint, packsize) in pack_read_header {", "for e in it3: pack_read_header.iter() { let (id, size_hint, packsize) = (e.0, e.1, e.2);", why="tuple pattern in for -> explicit destructuring; Verus for-loop syntax"),
             Rw("PackHeader::from_file(be, id, size_hint, packsize)", "vheader_from_file(be, PackIdD(id.0), size_hint, packsize, vwarm)", why="PackHeader::from_file (unit of C08) -> stub: reads only"),
             Rw(r"IndexPack \{\s*blobs: header\.into_blobs\(\),\s*id,\s*\.\.Default::default\(\)\s*\}", "vindexpack_from_header(header, id)" + "\n" * 4, regex=True, why="struct update syntax with Default -> stub constructor"),
             Rw("indexer.write().unwrap().add_with(pack, false)?;", "indexer.vadd_with(pack, false, Ghost(dry_run))?;", why="RwLock guard + Indexer::add_with -> effectful stub: REQUIRES !dry_run (it may save an index file on its own)"),
             Rw("indexer.write().unwrap().finalize()?;", "indexer.vfinalize(Ghost(dry_run))?;", why="RwLock guard + Indexer::finalize -> effectful stub: REQUIRES (dry_run ==> indexer empty)"),
             Rw("for (index_id, new_index) in changed_index_files {", "for e in it2: changed_index_files.iter() { let (index_id, new_index) = (&e.0, &e.1);", why="by-value iteration -> by reference; Verus for-loop syntax"),
             Rw("be.save_file(&new_index)?", "be.vsave_index(new_index, Ghost(dry_run))?", why="save_file of an index file -> effectful stub: REQUIRES !dry_run"),
             Rw("be.remove(FileType::Index, &index_id, true)?;", "be.vremove_index(index_id, Ghost(dry_run))?;", why="remove of an index file -> effectful stub: REQUIRES !dry_run"),
         ],
         contract="\n    // (implicit obligations: the preconditions `!dry_run` of every stub that writes to or removes from the repository)\n",
         hints=[("loop_start", "2", "        proof { assert(pack_read_header@[it3.index@] == *e); }")],
         loops={1: "\n        invariant dry_run ==> changed_index_files@.len() == 0,\n",
                2: "\n        invariant dry_run ==> changed_index_files@.len() == 0, dry_run ==> indexer.empty@,\n            forall|k: int| 0 <= k < pack_read_header@.len() ==> vwarm.ids@.contains((#[trigger] pack_read_header@[k]).0.0),\n",
                3: "\n        invariant dry_run ==> changed_index_files@.len() == 0,\n"},
         ),
]

RSNP = "crates/core/src/commands/repair/snapshots.rs"
UNITS += [
    Unit(name="ModifierChange", file=MOD, kind="type", anchor="pub enum ModifierChange {", rewrites=[R_ATTRS]),
    # dry run of `repair snapshots`: everything after the append-only guard; every storage write/removal is an effectful
    # stub that REQUIRES !dry_run, the tree modifier must be created with the command's flag
    Unit(name="repair_snapshots_dry_run", file=RSNP, kind="block", within="pub(crate) fn repair_snapshots<S: IndexedFull>(",
         anchor="let mut state = RepairState::new(opts, repo.index());", block_end="@fn_end",
         block_sig="fn repair_snapshots_dry_run(repo: &VRepo, be: &VBe, config_file: &VConfig, opts: &RepairSnapshotsOptions, snapshots: Vec<SnapS>, dry_run: bool) -> (r: RusticResult<()>)",
         block_tail="",
         functions=["commands::repair::snapshots::repair_snapshots (dry run: whole body after the append-only guard)"],
         rewrites=[R_ERR,
             Rw("RepairState::new(opts, repo.index())", "RepairStateS::vnew(opts)", why="RepairState -> stub (the list of snapshots to delete is kept)"),
             Rw(r"TreeModifier::new\(be, repo\.index\(\), config_file, (?P<d>[^)]*)\)\?", r"TreeModifierS::vnew(be, config_file, \g<d>)?", regex=True, why="TreeModifier::new -> stub carrying the dry-run flag it was given"),
             Rw("for mut snap in snapshots {", "for s in it: snapshots.iter() { let mut snap = vclone_snap(s);", why="by-value iteration with mutation -> by reference + clone; Verus for-loop syntax"),
             Rw("modifier.modify_tree(PathBuf::new(), snap.tree, &mut state)?", "modifier.vmodify_tree(snap.tree, &mut state, Ghost(dry_run))?", why="TreeModifier::modify_tree -> stub: REQUIRES a dry-run modifier in a dry run"),
             Rw("_ = snap.set_tags(opts.tag.clone());", "snap.vset_tags(opts);", why="tag handling (strings) -> stub with frame"),
             Rw("be.save_file(&snap)?", "be.vsave_snapshot(&snap, Ghost(dry_run))?", count=None, why="save_file of a snapshot -> effectful stub: REQUIRES !dry_run"),
             Rw("modifier.finalize()?;", "modifier.vfinalize(Ghost(dry_run))?;", why="TreeModifier::finalize -> stub: REQUIRES a dry-run modifier in a dry run"),
             Rw("for snap in modified_snapshots {", "for snap in it2: modified_snapshots.iter() {", why="Verus for-loop syntax; by reference"),
             Rw(r"be\.delete_list\(\s*true,\s*state\.delete\.iter\(\),\s*(?P<p>repo\.progress_counter\([^)]*\)),\s*\)\?", r"be.vdelete_snapshots(&state.delete, \g<p>, Ghost(dry_run))?", regex=True,
                why="delete_list of snapshot files -> effectful stub: REQUIRES !dry_run"),
         ],
         contract="\n    // (implicit obligations: the preconditions `!dry_run` of every stub that writes to or removes from the repository)\n",
         loops={1: "\n        invariant dry_run ==> modified_snapshots@.len() == 0, dry_run ==> modifier.dry_run,\n",
                2: "\n        invariant dry_run ==> modified_snapshots@.len() == 0,\n"},
         optional_loops=True),
]

HC = "crates/core/src/commands/repair/hotcold.rs"
UNITS += [
    # dry run of the hot/cold repair: the copies between the two parts are effectful stubs that REQUIRE !dry_run
    Unit(name="hotcold_dry_run", file=HC, kind="block", within="pub(crate) fn correct_missing_files<S>(",
         anchor="if !missing_cold.is_empty() {", block_end="@fn_end",
         block_sig="fn hotcold_dry_run(repo: &VRepoH, repo_hot: &VBeH, file_type: FileTypeH, missing_hot: Vec<IdH>, missing_hot_size: u64, missing_cold: Vec<IdH>, missing_cold_size: u64, dry_run: bool) -> (r: RusticResult<()>)",
         block_tail="",
         functions=["commands::repair::hotcold::correct_missing_files (dry run: the two copy phases)"],
         rewrites=[R_ERR,
             Rw(r"repo\.progress_bytes\(&format!\([^;]*?\)\)", "repo.vprogress_bytes()", regex=True, count=None, why="progress bar with a formatted label -> stub"),
             Rw(r"copy\((?P<f>\w+), file_type, (?P<a>[^,]+), (?P<b>[^,]+), &p\)\?", r"vcopy_files(\g<f>, file_type, \g<a>, \g<b>, &p, Ghost(dry_run))?", regex=True, count=None,
                why="hotcold::copy (reads from one part, writes to the other) -> effectful stub: REQUIRES !dry_run"),
             Rw("warm_up_wait(repo, file_type, missing_hot.iter().copied())?;", "vwarm_up_wait_h(repo, file_type, &missing_hot)?;", why="warm-up -> stub (no repository write: ASSUMED)"),
         ],
         contract="\n    // (implicit obligations: the preconditions `!dry_run` of the copy stubs)\n"),
]

RWR = "crates/core/src/commands/rewrite.rs"
UNITS += [
    # dry run of rewrite: process_snapshots (the only place rewrite touches snapshot files); the trees are written through
    # the TreeModifier units above (Rewriter::new hands opts.dry_run to TreeModifier::new: not a unit)
    Unit(name="rewrite_dry_run", file=RWR, anchor="fn process_snapshots<S: Open>(", ret_name="r",
         functions=["commands::rewrite::process_snapshots (dry run)"],
         rewrites=[R_ERR,
             Rw("fn process_snapshots<S: Open>(", "fn process_snapshots(", sig=True, why="Repository<S> -> stub"),
             Rw("repo: &Repository<S>,", "repo: &VRepo,", sig=True, why="Repository<S> -> stub"),
             Rw("mut snapshots: Vec<SnapshotFile>,", "snapshots: Vec<SnapS>,", sig=True, why="SnapshotFile -> stub; the tag bookkeeping that needs `mut` is elided"),
             Rw("-> RusticResult<Vec<SnapshotFile>>", "-> RusticResult<Vec<SnapS>>", sig=True, why="SnapshotFile -> stub"),
             Rw(r"match \(&opts\.tags_rewritten, opts\.forget\) \{.*?\(None, true\) => \{\}\n        \}\n", "", regex=True, why="ELIDED: tag bookkeeping of the rewritten snapshots (closures over strings); no storage operation in it"),
             Rw("repo.save_snapshots(snapshots.clone())?;", "repo.vsave_snapshots_d(&snapshots, Ghost(opts.dry_run))?;", why="Repository::save_snapshots -> effectful stub: REQUIRES !dry_run"),
             Rw("let old_snap_ids: Vec<_> = snapshots.iter().map(|sn| sn.id).collect();", "let old_snap_ids = vsnapshot_ids_d(&snapshots);", why="iterator map/collect of the ids -> stub"),
             Rw("repo.delete_snapshots(&old_snap_ids)?;", "repo.vdelete_snapshots_d(&old_snap_ids, Ghost(opts.dry_run))?;", why="Repository::delete_snapshots -> effectful stub: REQUIRES !dry_run"),
         ],
         contract="\n    // (implicit obligations: the preconditions `!dry_run` of the two stubs)\n"),
]

KANI = [
    Harness(M + "c15_dry_run_write_bytes", functions=[D + "write_bytes"], expect_stubs=1),
    Harness(M + "c15_dry_run_remove", functions=[D + "remove"], expect_stubs=1),
    Harness(M + "c15_dry_run_create", functions=[D + "create"], expect_stubs=1),
    Harness(M + "c15_dry_run_hash_write_full", functions=[D + "hash_write_full"], expect_stubs=1),
    Harness(M + "c15_dry_run_setters", functions=[D + "set_zstd", D + "set_extra_verify"]),
    Harness(M + "c15_dry_run_reads_forwarded", functions=[D + "read_full", D + "read_partial", D + "list_with_size"], expect_stubs=1),
]
KANI_UNWIND = 2
KANI_ASSUMPTIONS = [
    "inner backend = recording mock MockDecryptFull (/verif/kani/mock_backend.rs) with symbolic per-operation failure",
    "RusticError::new replaced by an allocation-free stub",
]
META = {"not_covered": [
    "closed-world claim over all public methods: the guard list is enumerated from the anchors; a new destructive entry point without a guard is invisible",
    "Repository::delete_key has no append-only guard (key files are not snapshot/index/pack files, so the statement does not cover it)",
    "dry-run flag handed from Rewriter::new to TreeModifier::new (struct construction, not a unit); restore's dry run concerns the destination, not the repository",
]}
