// ===== C16: save_config / save_config_hot -- the config file is stored separately per store, marked =====
pub enum Store { Cold, Hot }
#[derive(Clone, Copy)]
pub struct VBe { pub store: Ghost<Store> }
pub struct VRepoHC { pub be: VBe, pub be_hot: Option<VBe> }
pub struct ConfigFile { pub is_hot: Option<bool>, pub rest: u64 }
pub trait CryptoKey: Copy {}
pub struct DecryptBackend { pub store: Ghost<Store> }
impl DecryptBackend {
    pub fn new<K: CryptoKey>(be: VBe, key: K) -> (r: DecryptBackend) ensures r.store@ == be.store@, { DecryptBackend { store: be.store } }
    // DecryptWriteBackend::save_file_uncompressed: serialises, encrypts and WRITES the file to this store.
    // PRECONDITION = the property: the cold store's config carries no hot marker, the hot store's config is marked hot.
    #[verifier::external_body]
    pub fn save_file_uncompressed(&self, file: &ConfigFile) -> (r: RusticResult<u64>)
        requires
            self.store@ is Cold ==> file.is_hot is None,
            self.store@ is Hot ==> file.is_hot == Some(true),
    { unimplemented!() }
}
impl VRepoHC {
    spec fn wf(&self) -> bool { self.be.store@ is Cold && (self.be_hot matches Some(h) ==> h.store@ is Hot) }
}
