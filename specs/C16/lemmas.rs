// ===== C16: L16 -- the hot-copy invariant holds after EVERY PREFIX of the store operations that the
// HotColdBackend contracts (Kani harnesses c16_write_bytes / c16_remove) allow.  Stores are maps from
// (file type, id) to bytes.  This is a lemma over the contracts, not over code. =====
pub enum FT { Config, Index, Key, Snapshot, Pack }
pub struct K { pub tpe: FT, pub id: int, pub cacheable: bool }   // cacheable is a function of (type, blob type) for a given file
pub struct St { pub hot: Map<(FT, int), Seq<u8>>, pub cold: Map<(FT, int), Seq<u8>> }

pub open spec fn eligible(tpe: FT, cacheable: bool) -> bool { !(tpe is Config) && (cacheable || !(tpe is Pack)) }

// the property's "at all times": every eligible file listed by the cold store is in the hot store with identical bytes,
// and nothing ineligible is ever put into the hot store (tracked by `hot_ok`: keys of hot are eligible under `elig`)
pub open spec fn inv(s: St, elig: spec_fn((FT, int)) -> bool) -> bool {
    &&& forall|k: (FT, int)| #[trigger] s.cold.contains_key(k) && elig(k) ==> s.hot.contains_key(k) && s.hot[k] == s.cold[k]
    &&& forall|k: (FT, int)| #[trigger] s.hot.contains_key(k) ==> elig(k)
}

// file names are content hashes: a key is only ever (re)written with the same bytes
pub open spec fn same_if_present(m: Map<(FT, int), Seq<u8>>, k: (FT, int), b: Seq<u8>) -> bool { m.contains_key(k) ==> m[k] == b }

// contract of write_bytes: eligible => [hot.write, cold.write] (cold only after hot succeeded); else [cold.write]
pub proof fn l16_write_every_prefix(s: St, elig: spec_fn((FT, int)) -> bool, k: (FT, int), b: Seq<u8>)
    requires inv(s, elig), same_if_present(s.hot, k, b), same_if_present(s.cold, k, b),
    ensures
        // prefix of length 1 (interrupted between the two writes, or the cold write failed)
        elig(k) ==> inv(St { hot: s.hot.insert(k, b), cold: s.cold }, elig),
        // complete
        elig(k) ==> inv(St { hot: s.hot.insert(k, b), cold: s.cold.insert(k, b) }, elig),
        !elig(k) ==> inv(St { hot: s.hot, cold: s.cold.insert(k, b) }, elig),
{
    let s1 = St { hot: s.hot.insert(k, b), cold: s.cold };
    let s2 = St { hot: s.hot.insert(k, b), cold: s.cold.insert(k, b) };
    let s3 = St { hot: s.hot, cold: s.cold.insert(k, b) };
    if elig(k) {
        assert forall|x: (FT, int)| s1.cold.contains_key(x) && elig(x) implies s1.hot.contains_key(x) && s1.hot[x] == s1.cold[x] by {
            if x != k { assert(s.cold.contains_key(x)); }
        }
        assert forall|x: (FT, int)| s1.hot.contains_key(x) implies elig(x) by { if x != k { assert(s.hot.contains_key(x)); } }
        assert forall|x: (FT, int)| s2.cold.contains_key(x) && elig(x) implies s2.hot.contains_key(x) && s2.hot[x] == s2.cold[x] by {
            if x != k { assert(s.cold.contains_key(x)); }
        }
        assert forall|x: (FT, int)| s2.hot.contains_key(x) implies elig(x) by { if x != k { assert(s.hot.contains_key(x)); } }
        assert(inv(s1, elig));
        assert(inv(s2, elig));
    } else {
        assert forall|x: (FT, int)| s3.cold.contains_key(x) && elig(x) implies s3.hot.contains_key(x) && s3.hot[x] == s3.cold[x] by {
            if x != k { assert(s.cold.contains_key(x)); }
        }
        assert forall|x: (FT, int)| s3.hot.contains_key(x) implies elig(x) by { assert(s.hot.contains_key(x)); }
        assert(inv(s3, elig));
    }
}

// contract of remove: [cold.remove] then, if eligible, [hot.remove] (hot only after cold succeeded)
pub proof fn l16_remove_every_prefix(s: St, elig: spec_fn((FT, int)) -> bool, k: (FT, int))
    requires inv(s, elig),
    ensures
        inv(St { hot: s.hot, cold: s.cold.remove(k) }, elig),
        elig(k) ==> inv(St { hot: s.hot.remove(k), cold: s.cold.remove(k) }, elig),
{
    let s1 = St { hot: s.hot, cold: s.cold.remove(k) };
    let s2 = St { hot: s.hot.remove(k), cold: s.cold.remove(k) };
    assert forall|x: (FT, int)| s1.cold.contains_key(x) && elig(x) implies s1.hot.contains_key(x) && s1.hot[x] == s1.cold[x] by {
        assert(s.cold.contains_key(x));
    }
    assert forall|x: (FT, int)| s1.hot.contains_key(x) implies elig(x) by { assert(s.hot.contains_key(x)); }
    assert forall|x: (FT, int)| s2.cold.contains_key(x) && elig(x) implies s2.hot.contains_key(x) && s2.hot[x] == s2.cold[x] by {
        assert(s.cold.contains_key(x));
    }
    assert forall|x: (FT, int)| s2.hot.contains_key(x) implies elig(x) by { assert(s.hot.contains_key(x)); }
    assert(inv(s1, elig));
    assert(inv(s2, elig));
}

// the ORDER matters: writing cold first, or removing hot first, breaks the invariant at the intermediate point
pub proof fn l16_wrong_orders_are_refuted()
    ensures
        exists|s: St, elig: spec_fn((FT, int)) -> bool, k: (FT, int), b: Seq<u8>| #![auto]
            inv(s, elig) && elig(k) && !s.hot.contains_key(k) && !inv(St { hot: s.hot, cold: s.cold.insert(k, b) }, elig),
{
    let k = (FT::Snapshot, 1int);
    let s = St { hot: Map::empty(), cold: Map::empty() };
    let elig = |x: (FT, int)| true;
    let b = seq![1u8];
    let s2 = St { hot: s.hot, cold: s.cold.insert(k, b) };
    assert(s2.cold.contains_key(k) && !s2.hot.contains_key(k));
    assert(inv(s, elig));
    assert(!inv(s2, elig));
}

// <[IndexBlob]>::first (definition)
pub fn vfirst_blob(v: &Vec<IndexBlob>) -> (r: Option<&IndexBlob>)
    ensures v@.len() == 0 ==> r is None, v@.len() > 0 ==> r == Some(&v@[0]),
{ if v.len() == 0 { None } else { Some(&v[0]) } }
