// ===== C16: repair hotcold -- which packs count as tree packs (they must exist in the hot store) =====
#[derive(Clone, Copy, PartialEq, Eq, Structural)]
pub struct Id(pub u64);
#[derive(Clone, Copy, PartialEq, Eq, Structural)]
pub struct PackId(pub u64);
#[derive(Clone, Copy, PartialEq, Eq, Structural)]
pub enum BlobType { Tree, Data }
#[derive(Clone, Copy)]
pub struct IndexBlob { pub tpe: BlobType }
pub struct IndexPack { pub id: PackId, pub blobs: Vec<IndexBlob> }
pub struct IndexFile { pub packs: Vec<IndexPack>, pub packs_to_delete: Vec<IndexPack> }
pub open spec fn pack_type_spec(p: IndexPack) -> BlobType {
    if p.blobs@.len() == 0 { BlobType::Data } else { p.blobs@[0].tpe }
}
// all packs an index file lists: the live ones followed by the ones marked for deletion
pub open spec fn all_packs_spec(f: IndexFile) -> Seq<IndexPack> { f.packs@ + f.packs_to_delete@ }
impl IndexFile {
    // ASSUMED (iterator adapters): self.packs.into_iter().map(|p| (p,false)).chain(self.packs_to_delete.into_iter().map(|p| (p,true)))
    #[verifier::external_body]
    pub fn all_packs(self) -> (r: Vec<(IndexPack, bool)>)
        ensures r@.len() == all_packs_spec(self).len(),
                forall|i: int| 0 <= i < r@.len() ==> (#[trigger] r@[i]).0 == all_packs_spec(self)[i] && r@[i].1 == (i >= self.packs@.len()),
    { unimplemented!() }
}
pub struct ProgressR { pub _opaque: u64 }
pub struct VRepoIdx { pub _opaque: u64 }
impl VRepoIdx {
    // the index files of the repository, in stream order
    pub uninterp spec fn index_files(&self) -> Seq<IndexFile>;
    #[verifier::external_body]
    pub fn progress_counter(&self, _s: &str) -> ProgressR { unimplemented!() }
    // repo.dbe().stream_all::<IndexFile>(&p)?: a channel of per-file results; a failed file is an Err item.
    // Items arrive in any order (the tree-pack set is order independent): modelled in stream order.
    #[verifier::external_body]
    pub fn vstream_all_index(&self, p: &ProgressR) -> (r: RusticResult<Vec<RusticResult<(Id, IndexFile)>>>)
        ensures r matches Ok(v) ==> v@.len() == self.index_files().len()
            && forall|i: int| 0 <= i < v@.len() ==> ((#[trigger] v@[i]) matches Ok(x) ==> x.1 == self.index_files()[i]),
    { unimplemented!() }
}
pub struct VSetP { pub s: Ghost<Set<PackId>> }
impl VSetP {
    pub closed spec fn view(&self) -> Set<PackId> { self.s@ }
    #[verifier::external_body]
    pub fn new() -> (r: Self) ensures r@ == Set::<PackId>::empty(), { unimplemented!() }
    #[verifier::external_body]
    pub fn insert(&mut self, k: PackId) -> (r: bool)
        ensures final(self)@ == old(self)@.insert(k), r == !old(self)@.contains(k),
    { unimplemented!() }
}
// the tree packs among the first n index files / the first m packs of a file
pub open spec fn is_tree_pack_of(files: Seq<IndexFile>, n: int, id: PackId) -> bool {
    exists|i: int, j: int| 0 <= i < n && 0 <= j < all_packs_spec(files[i]).len()
        && (#[trigger] all_packs_spec(files[i])[j]).id == id && pack_type_spec(all_packs_spec(files[i])[j]) == BlobType::Tree
}

pub struct VHotHandle { pub _opaque: u64 }

// ---- repair hotcold: correct_missing_files (both directions are repaired) ----
#[derive(Clone, Copy, PartialEq, Eq, Structural)]
pub enum FileType { Config, Index, Key, Snapshot, Pack }
pub struct VHotBe { pub _opaque: u64 }
pub struct VRepoHCR { pub be_hot: Option<VHotBe>, pub be_cold: VHotBe }
pub struct ProgressH { pub _opaque: u64 }
impl ProgressH {
    #[verifier::external_body]
    pub fn set_length(&self, n: u64) { unimplemented!() }
    #[verifier::external_body]
    pub fn finish(&self) { unimplemented!() }
}
impl VRepoHCR {
    #[verifier::external_body]
    pub fn vprogress(&self) -> ProgressH { unimplemented!() }
}
// what this run copied, and whether the cold files to read were warmed up first
pub struct RepairHC { pub to_cold: Ghost<Option<Seq<Id>>>, pub to_hot: Ghost<Option<Seq<Id>>>, pub warmed: Ghost<Option<Seq<Id>>> }
// get_missing_files (closures / iterator adapters: not under contract): (missing in hot, their size, missing in cold, their size)
pub uninterp spec fn MISSING_HOT(repo: VRepoHCR, tpe: FileType) -> Seq<Id>;
pub uninterp spec fn MISSING_COLD(repo: VRepoHCR, tpe: FileType) -> Seq<Id>;
#[verifier::external_body]
pub fn vget_missing_files(repo: &VRepoHCR, tpe: FileType) -> (r: RusticResult<(Vec<Id>, u64, Vec<Id>, u64)>)
    ensures r matches Ok(x) ==> x.0@ == MISSING_HOT(*repo, tpe) && x.2@ == MISSING_COLD(*repo, tpe),
{ unimplemented!() }
// copy(files, type, from, to, p) (rayon): every listed file is read from `from` and written to `to`
#[verifier::external_body]
pub fn vcopy_to_cold(files: Vec<Id>, tpe: FileType, p: &ProgressH, w: &mut RepairHC) -> (r: RusticResult<()>)
    ensures r is Ok ==> final(w).to_cold@ == Some(files@), final(w).to_hot@ == old(w).to_hot@, final(w).warmed@ == old(w).warmed@,
{ unimplemented!() }
// PRECONDITION: the cold files were warmed up before they are read
#[verifier::external_body]
pub fn vcopy_to_hot(files: Vec<Id>, tpe: FileType, p: &ProgressH, w: &mut RepairHC) -> (r: RusticResult<()>)
    requires old(w).warmed@ == Some(files@),
    ensures r is Ok ==> final(w).to_hot@ == Some(files@), final(w).to_cold@ == old(w).to_cold@, final(w).warmed@ == old(w).warmed@,
{ unimplemented!() }
#[verifier::external_body]
pub fn vwarm_up_wait(repo: &VRepoHCR, tpe: FileType, files: &Vec<Id>, w: &mut RepairHC) -> (r: RusticResult<()>)
    ensures r is Ok ==> final(w).warmed@ == Some(files@), final(w).to_cold@ == old(w).to_cold@, final(w).to_hot@ == old(w).to_hot@,
{ unimplemented!() }
