"""C16 — hot/cold repositories keep the hot copy complete at every moment."""
from tools.krun import Harness
from tools.extract import Unit, Rw

PROPERTY = "C16"
PRELUDE = ["../common/base.rs", "lemmas.rs", "config_stubs.rs"]
CO = "crates/core/src/commands/config.rs"
R_DISCARD = Rw(r"(?m)^(\s*)_ = ", r"\1let _ = ", regex=True, count=None, why="`_ = e;` -> `let _ = e;`")
UNITS = [
    Unit(name="save_config_hot", file=CO, anchor="pub(crate) fn save_config_hot<S>(", ret_name="r",
         functions=["commands::config::save_config_hot"],
         rewrites=[R_DISCARD,
                   Rw("fn save_config_hot<S>(", "fn save_config_hot<K: CryptoKey>(", sig=True, why="Repository<S> -> two-store stub; impl CryptoKey -> named generic"),
                   Rw("repo: &Repository<S>", "repo: &VRepoHC", sig=True, why="Repository<S> -> two-store stub"),
                   Rw("key: impl CryptoKey", "key: K", sig=True, why="impl Trait argument -> named generic")],
         contract="\n    requires repo.wf(),\n    // obligation (implicit): whatever is saved to the hot store is marked is_hot = Some(true)\n"),
    Unit(name="save_config", file=CO, anchor="pub(crate) fn save_config<S>(", ret_name="r",
         functions=["commands::config::save_config"],
         rewrites=[R_DISCARD,
                   Rw("fn save_config<S>(", "fn save_config<K: CryptoKey>(", sig=True, why="Repository<S> -> two-store stub; impl CryptoKey -> named generic"),
                   Rw("repo: &Repository<S>", "repo: &VRepoHC", sig=True, why="Repository<S> -> two-store stub"),
                   Rw("key: impl CryptoKey", "key: K", sig=True, why="impl Trait argument -> named generic")],
         contract="\n    requires repo.wf(),\n    // obligation (implicit): the cold store's config carries no hot marker; then save_config_hot\n"),
]
M = "backend::hotcold::verif_kani::"
HC = "backend::hotcold::HotColdBackend::"
KANI = [
    Harness(M + "c16_write_bytes", functions=[HC + "write_bytes"], expect_stubs=1),
    Harness(M + "c16_remove", functions=[HC + "remove"], expect_stubs=1),
    Harness(M + "c16_list_from_cold", functions=[HC + "list_with_size"], expect_stubs=1),
    Harness(M + "c16_read_partial", functions=[HC + "read_partial"], expect_stubs=1),
    Harness(M + "c16_warm_up_cold", functions=[HC + "warm_up", HC + "needs_warm_up"], expect_stubs=1),
    Harness(M + "c16_create", functions=[HC + "create"], expect_stubs=1),
    Harness(M + "c16_read_full_data_pack", functions=[HC + "read_full"], expect_stubs=1),
    Harness(M + "c16_read_full_non_pack", functions=[HC + "read_full"], expect_stubs=1),
]
KANI_UNWIND = 2
KANI_ASSUMPTIONS = [
    "mock WriteBackend /verif/kani/mock_backend.rs stands for both stores (event log, symbolic per-operation failure)",
    "RusticError::new replaced by an allocation-free stub (kind kept, text dropped)",
    "ids symbolic in their first byte only; contents are 1 or 3 bytes in 1 or 2 fragments",
]
META = {
    "not_covered": [
        "repair hot/cold command (commands/repair/hotcold.rs)",
        "warm-up call-site ordering inside restore / prune / check / repair index",
        "save_config / save_config_hot",
        "equivalence with a single-store repository beyond single backend calls",
    ],
}
