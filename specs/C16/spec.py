"""C16 — hot/cold repositories keep the hot copy complete at every moment."""
from tools.krun import Harness
from tools.extract import Unit, Rw

PROPERTY = "C16"
PRELUDE = ["../common/base.rs", "lemmas.rs", "config_stubs.rs", "repair_stubs.rs", "warmup_stubs.rs", "warm_up_fn_stubs.rs"]
CO = "crates/core/src/commands/config.rs"
R_DISCARD = Rw(r"(?m)^(\s*)_ = ", r"\1let _ = ", regex=True, count=None, why="`_ = e;` -> `let _ = e;`")
UNITS = [
    Unit(name="save_config_hot", file=CO, anchor="pub(crate) fn save_config_hot<S>(", ret_name="r",
         functions=["commands::config::save_config_hot"],
         rewrites=[R_DISCARD,
                   Rw("fn save_config_hot<S>(", "fn save_config_hot<K: CryptoKey>(", sig=True, why="Repository<S> -> two-store stub; impl CryptoKey -> named generic"),
                   Rw("repo: &Repository<S>", "repo: &VRepoHC", sig=True, why="Repository<S> -> two-store stub"),
                   Rw("key: impl CryptoKey", "key: K", sig=True, why="impl Trait argument -> named generic")],
         contract="\n    requires repo.wf(),\n    // obligation (implicit): whatever is saved to the hot store is marked is_hot = Some(true)\n"),
    Unit(name="save_config", file=CO, anchor="pub(crate) fn save_config<S>(", ret_name="r",
         functions=["commands::config::save_config"],
         rewrites=[R_DISCARD,
                   Rw("fn save_config<S>(", "fn save_config<K: CryptoKey>(", sig=True, why="Repository<S> -> two-store stub; impl CryptoKey -> named generic"),
                   Rw("repo: &Repository<S>", "repo: &VRepoHC", sig=True, why="Repository<S> -> two-store stub"),
                   Rw("key: impl CryptoKey", "key: K", sig=True, why="impl Trait argument -> named generic")],
         contract="\n    requires repo.wf(),\n    // obligation (implicit): the cold store's config carries no hot marker; then save_config_hot\n"),
]

RH = "crates/core/src/commands/repair/hotcold.rs"
UNITS += [
    Unit(name="indexpack_blob_type", file="crates/core/src/repofile/indexfile.rs", anchor="pub fn blob_type(&self) -> BlobType", ret_name="r",
         wrap_open="impl IndexPack {", wrap_close="}",
         rewrites=[Rw(r"(?P<r>self\.blobs)\.first\(\)\.map_or\((?P<d>[^,]+), \|(?P<v>\w+)\| (?P<b>[^;{}]*?)\)(?=\s*\}?\s*\Z)", r"(match vfirst_blob(&\g<r>) { Some(\g<v>) => \g<b>, None => \g<d> })", regex=True, optional=True,
                      why="slice::first + Option::map_or(default, closure) -> match (definitions; both bodies verbatim)")],
         functions=["repofile::indexfile::IndexPack::blob_type"],
         contract="\n    ensures r == pack_type_spec(*self),\n"),
    Unit(name="get_tree_packs", file=RH, anchor="pub(crate) fn get_tree_packs<S: Open>(", ret_name="r",
         functions=["commands::repair::hotcold::get_tree_packs"],
         rewrites=[R_DISCARD,
             Rw("fn get_tree_packs<S: Open>(repo: &Repository<S>) -> RusticResult<BTreeSet<PackId>>", "fn get_tree_packs(repo: &VRepoIdx) -> RusticResult<VSetP>", sig=True, why="Repository<S> -> index-file stream stub; BTreeSet -> set stub"),
             Rw("BTreeSet::new()", "VSetP::new()", why="BTreeSet -> set stub"),
             Rw("for index in repo.dbe().stream_all::<IndexFile>(&p)? {", "let vstream = repo.vstream_all_index(&p)?; for index in it: vstream.into_iter() {", why="channel stream -> vector of per-file results; Verus for-loop syntax"),
             Rw(r"for \((?P<a>\w+), (?P<b>\w+)\) in index\.all_packs\(\) \{", r"let vap = index.all_packs(); for e in it2: vap.iter() { let \g<a> = &e.0; let \g<b> = e.1;", regex=True, why="iterator chain -> vector; Verus for-loop syntax"),
         ],
         contract="""
    ensures
        // the set returned is exactly the packs -- live or marked for deletion -- that some index file lists as tree packs
        /*@tree_packs_exactly_the_listed_tree_packs*/ r matches Ok(s) ==> forall|id: PackId| s@.contains(id) <==> is_tree_pack_of(repo.index_files(), repo.index_files().len() as int, id),
""",
         loops={1: """
        invariant
            vstream@.len() == repo.index_files().len(),
            forall|i: int| 0 <= i < vstream@.len() ==> ((#[trigger] vstream@[i]) matches Ok(x) ==> x.1 == repo.index_files()[i]),
            forall|id: PackId| tree_packs@.contains(id) <==> is_tree_pack_of(repo.index_files(), it.index@, id),
""", 2: """
            invariant
                0 <= fi < repo.index_files().len(), vap@.len() == all_packs_spec(repo.index_files()[fi]).len(),
                forall|i: int| 0 <= i < vap@.len() ==> (#[trigger] vap@[i]).0 == all_packs_spec(repo.index_files()[fi])[i],
                forall|id: PackId| tree_packs@.contains(id) <==> is_tree_pack_of(repo.index_files(), fi, id)
                    || exists|j: int| 0 <= j < it2.index@ && (#[trigger] all_packs_spec(repo.index_files()[fi])[j]).id == id && pack_type_spec(all_packs_spec(repo.index_files()[fi])[j]) == BlobType::Tree,
"""},
         hints=[("loop_start", "1", "        let ghost fi = it.index@;"),
                ("loop_start", "2", "            proof { assert(vap@[it2.index@] == *e); }")],
         ),
]

RP = "crates/core/src/repository.rs"
UNITS += [
    Unit(name="hot_marker_check", file=RP, kind="block", within="fn open_raw(",
         anchor="match (config.is_hot == Some(true), self.be_hot.is_some()) {", block_end="@matching_brace",
         block_sig="fn hot_marker_check(config: &ConfigFile, be_hot: &Option<VHotHandle>) -> (r: RusticResult<()>)",
         block_tail="    Ok(())",
         functions=["repository::Repository::open_raw (hot/cold consistency check of the opened config)"],
         rewrites=[Rw("", "verr()", count=None, kind="err", why="RusticError construction dropped"),
                   Rw("self.be_hot", "be_hot", count=None, why="statement-block unit: field -> parameter")],
         contract="""
    ensures
        // a repository opens only if its config carries the hot marker exactly when a hot store is attached: the hot part
        // cannot be opened on its own or used as the cold part, and a plain repository cannot be used with a hot store
        /*@opens_only_with_matching_hot_marker*/ r is Ok <==> ((config.is_hot == Some(true)) == (be_hot is Some)),
"""),
]

UNITS += [
    Unit(name="correct_missing_files", file=RH, anchor="pub(crate) fn correct_missing_files<S>(", ret_name="r",
         functions=["commands::repair::hotcold::correct_missing_files"],
         rewrites=[
             Rw("", "verr()", count=None, kind="err", why="RusticError construction dropped"),
             Rw("fn correct_missing_files<S>(", "fn correct_missing_files(", sig=True, why="Repository<S> -> two-store stub"),
             Rw("repo: &Repository<S>,", "repo: &VRepoHCR,", sig=True, why="Repository<S> -> two-store stub"),
             Rw("is_relevant: impl Fn(&Id) -> bool,\n    dry_run: bool,", "dry_run: bool, w: &mut RepairHC,", sig=True, why="relevance filter (closure, used only inside get_missing_files) dropped; ghost record of what is copied"),
             Rw("get_missing_files(repo, file_type, is_relevant)?", "vget_missing_files(repo, file_type)?", why="get_missing_files (closures, iterator adapters) -> stub returning arbitrary lists"),
             Rw(r"repo\.progress_bytes\(&format!\([^)]*\)\)", "repo.vprogress()", regex=True, count=None, why="progress bar with formatted title -> stub"),
             Rw("copy(missing_cold, file_type, repo_hot, &repo.be_cold, &p)?;", "let ghost mc = missing_cold@; vcopy_to_cold(missing_cold, file_type, &p, w)?;", why="copy hot -> cold (rayon) -> effect stub"),
             Rw("copy(missing_hot, file_type, &repo.be_cold, repo_hot, &p)?;", "let ghost mh = missing_hot@; vcopy_to_hot(missing_hot, file_type, &p, w)?;", why="copy cold -> hot (rayon) -> effect stub: PRECONDITION 'warmed up'"),
             Rw("warm_up_wait(repo, file_type, missing_hot.iter().copied())?;", "vwarm_up_wait(repo, file_type, &missing_hot, w)?;", why="warm_up_wait over an iterator -> stub"),
         ],
         contract="""
    requires old(w).to_cold@ is None && old(w).to_hot@ is None,
    ensures
        // a run that succeeds (and is no dry run) has repaired BOTH directions: every file missing in the cold store was
        // copied there, every file missing in the hot store was copied there (after the cold files were warmed up)
        /*@both_directions_are_repaired*/ r is Ok && !dry_run ==>
            (MISSING_COLD(*repo, file_type).len() > 0 ==> final(w).to_cold@ == Some(MISSING_COLD(*repo, file_type)))
            && (MISSING_HOT(*repo, file_type).len() > 0 ==> final(w).to_hot@ == Some(MISSING_HOT(*repo, file_type)) && final(w).warmed@ == Some(MISSING_HOT(*repo, file_type))),
        /*@dry_run_copies_nothing*/ dry_run ==> final(w).to_cold@ is None && final(w).to_hot@ is None,
"""),
]
M = "backend::hotcold::verif_kani::"
HC = "backend::hotcold::HotColdBackend::"
# ---- warm-up before reading (call-site ordering)
RST = "crates/core/src/commands/restore.rs"
CHK = "crates/core/src/commands/check.rs"
UNITS += [
    Unit(name="restore_warms_up_first", file=RST, kind="block", within="pub(crate) fn restore_repository<S: IndexedTree>(",
         anchor="@body", block_end="@fn_end",
         block_sig="fn restore_warms_up_first(file_infos: RestorePlanW, repo: &VRepoW, opts: RestoreOptionsW, node_streamer: NodeStreamW, dest: &VDestW, w: &mut WarmWorld) -> (r: RusticResult<()>)",
         block_tail="",
         functions=["commands::restore::restore_repository (warm-up of the needed packs, then the content restore, then metadata)"],
         rewrites=[
             Rw("repo.warm_up_wait(file_infos.to_packs().into_iter())?;", "repo.vwarm_up_wait(file_infos.to_packs(), w)?;", why="Repository::warm_up_wait -> typestate stub"),
             Rw("restore_contents(", "vrestore_contents(", why="restore_contents (thread pool) -> effectful stub: PRECONDITION 'packs warmed up'"),
             Rw("opts.sparse.unwrap_or_default(),\n    )?;", "vsparse_or_default(opts.sparse), w,\n    )?;", why="Option::unwrap_or_default -> stub; typestate argument"),
             Rw("restore_metadata(node_streamer, &file_infos.hardlink_candidates, opts, dest)?;", "vrestore_metadata(node_streamer, &file_infos.hardlink_candidates, opts, dest)?;", why="metadata pass -> stub"),
         ],
         contract="\n    // (implicit obligation: the packs are warmed up before restore_contents reads them)\n"),
    Unit(name="check_read_data_warms_up_first", file=CHK, kind="block", within="pub(crate) fn check_repository<S: Open>(",
         anchor="let packs = opts.read_data_subset.apply(packs);", block_end="        p.finish();\n    }\n\n    Ok(collector.into_check_results())",
         block_sig="fn check_read_data_warms_up_first(repo: &VRepoW, packs: Vec<IndexPackW>, w: &mut WarmWorld) -> (r: RusticResult<()>)",
         block_tail="        Ok(())",
         functions=["commands::check::check_repository (read-data branch: warm-up of the selected packs, then the full reads)"],
         rewrites=[
             Rw("let packs = opts.read_data_subset.apply(packs);", "let packs = vapply_subset(packs);", why="ReadSubsetOption::apply (selection of the packs to read) -> stub"),
             Rw("repo.warm_up_wait(packs.iter().map(|pack| pack.id))?;", "repo.vwarm_up_wait(vpack_ids(&packs), w)?;", why="Repository::warm_up_wait over the ids of the selected packs -> typestate stub"),
             Rw(r"let total_pack_size = .*?p\.set_length\(total_pack_size\);\n", "\n\n\n", regex=True, why="ELIDED: progress bar set-up (UI only)"),
             Rw(r"packs\.into_par_iter\(\)\.for_each\(\|pack\| \{.*?\n        \}\);", "vread_and_check_packs(packs, w);", regex=True, why="rayon loop reading every selected pack (be.read_full + check_pack, unit of C05) -> effectful stub: PRECONDITION 'packs warmed up'"),
         ],
         contract="\n    // (implicit obligation: the selected packs are warmed up before they are read)\n"),
]

PRN = "crates/core/src/commands/prune.rs"
UNITS += [
    Unit(name="prune_warms_up_before_repack", file=PRN, kind="block", within="pub(crate) fn prune_repository<S: Open>(",
         anchor="@body", block_end="@fn_end",
         block_sig="fn prune_warms_up_before_repack(repo: &VRepoW, opts: &PruneOptsW2, prune_plan: PrunePlanW2, w: &mut WarmWorld) -> (r: RusticResult<()>)",
         block_tail="",
         functions=["commands::prune::prune_repository (order: warm-up of the packs to repack, ..., repack)"],
         rewrites=[
             Rw("", "verr()", count=None, kind="err", optional=True, why="RusticError construction (kind/message/context dropped)"),
             Rw("repo.warm_up_wait(prune_plan.repack_packs().into_iter())?;", "repo.vwarm_up_wait(prune_plan.repack_packs(), w)?;", why="Repository::warm_up_wait -> typestate stub"),
             Rw(r"let be = repo\.dbe\(\);\n    let prune_time = .*?\n    p\.finish\(\);\n\n    if repack_packs\.is_empty\(\) \{\n        indexer\.finalize\(\)\?;\n    \} else \{.*?\n        indexer\.write\(\)\.unwrap\(\)\.finalize\(\)\?;\n        p\.finish\(\);\n    \}\n",
                "let repack_packs = vplan_execution_elided(repo, prune_plan)?; if repack_packs.is_empty() { vfinalize_index_w()?; } else { vrepack_w(&repack_packs, w)?; }\n", regex=True,
                why="ELIDED: everything between the warm-up and the repack branch (units of C02/C03) and the repack branch itself -> stubs; the repack stub REQUIRES the warm-up"),
             Rw(r"// remove old index files first as they may reference pack files which are removed soon\..*?\n\n    Ok\(\(\)\)", "\n    Ok(())", regex=True, why="ELIDED: the removal tail (unit of C03)"),
         ],
         contract="\n    // (implicit obligation: the packs to repack are warmed up before the repack reads them)\n"),
]

# repair index re-reads pack headers from the (cold) store: the warm-up of exactly these packs must come first.  The unit lives
# in C15's spec (it also decides the dry-run half of that function) and is verified as part of this check as well.
SATELLITES = [("C15", ["RewriteOptions", "RepairSnapshotsOptions", "ConfigOptions", "TreeModifier", "ModifierChange", "repair_index_dry_run"]),
              # restore: the packs reported for warm-up (to_packs) are exactly the packs the read plan reads (units of C02's spec)
              ("C02", ["blob_constants", "BlobLocation", "BlobLocations", "from_blob_location", "can_coalesce", "append", "coalesce", "PackToDo", "RepackReason", "PackInfo", "PrunePack", "CopyPackBlobs", "RestorePackInfo", "FileLocation", "restore_read_of_blob", "restore_needed_pack"]),
              # check's hot/cold comparisons (hot listing against cold listing, tree packs in the hot store) are units of C05's spec
              ("C05", ["check_packs_list", "check_packs_list_hot", "check_hot_files"])]

WUF = "crates/core/src/repository/warm_up.rs"
R_SIGU = [Rw("repo: &Repository<S>,", "repo: &VRepoU,", sig=True, why="repository -> stub (options + backend)"),
          Rw("tpe: FileType,", "tpe: FileTypeU,", sig=True, why="file type -> opaque"),
          Rw(") -> RusticResult<()>", "w: &mut ReqWorld) -> RusticResult<()>", sig=True, why="ghost parameter: the warm-up requests made so far")]
UNITS += [
    Unit(name="WarmUpType", file=WUF, kind="type", anchor="enum WarmUpType {", rewrites=[Rw("", "", count=None, kind="attrs", optional=True, why="derive removed")]),
    # warm_up: whenever a warm-up command is configured or the backend needs warm-up, EVERY id handed in is requested
    Unit(name="warm_up_fn", file=WUF, anchor="pub(crate) fn warm_up<S>(", ret_name="r",
         functions=["repository::warm_up::warm_up"],
         rewrites=R_SIGU + [
             Rw("fn warm_up<S>(", "fn warm_up_fn(", sig=True, why="generic dropped; renamed (the name warm_up is the stub used by the caller's unit)"),
             Rw("ids: impl ExactSizeIterator<Item = Id>,", "ids: IdsU,", sig=True, why="iterator of ids -> value with its sequence"),
             Rw(r"&repo\.be,\s*\)\?;", "&repo.be, w)?;", regex=True, why="ghost parameter passed on"),
             Rw("warm_up_repo(repo, tpe, ids)?", "warm_up_repo(repo, tpe, ids, w)?", why="ghost parameter passed on"),
         ],
         contract="""
    ensures
        forall|x: u64| old(w).requested@.contains(x) ==> final(w).requested@.contains(x),
        /*@every_id_is_requested_when_warm_up_is_needed*/ r is Ok && (repo.opts.warm_up_command is Some || repo.be.needs) ==> all_requested(*final(w), ids.s@),
"""),
    # warm_up_wait: requests first (warm_up), waits afterwards
    Unit(name="warm_up_wait_fn", file=WUF, anchor="pub(crate) fn warm_up_wait<S>(", ret_name="r",
         functions=["repository::warm_up::warm_up_wait"],
         rewrites=R_SIGU + [
             Rw("fn warm_up_wait<S>(", "fn warm_up_wait_fn(", sig=True, why="generic dropped; renamed"),
             Rw("ids: impl ExactSizeIterator<Item = Id> + Clone,", "ids: IdsU,", sig=True, why="iterator of ids -> value with its sequence"),
             Rw("warm_up(repo, tpe, ids.clone())?", "warm_up(repo, tpe, ids.clone(), w)?", why="warm_up -> stub carrying the contract proved for unit warm_up_fn"),
             Rw(r"&repo\.be,\s*\)\?;", "&repo.be, w)?;", regex=True, why="ghost parameter passed on"),
             Rw(r"let p = repo\.progress_spinner\(&format!\(\"waiting \{wait\}\.\.\.\"\)\);\s*sleep\(.*?\);\s*p\.finish\(\);", "vsleep_for(&wait, repo);", regex=True,
                why="ELIDED: progress spinner + sleep(duration conversion with closures): waiting requests nothing"),
         ],
         contract="""
    ensures
        /*@every_id_is_requested_before_waiting*/ r is Ok && (repo.opts.warm_up_command is Some || repo.be.needs) ==> all_requested(*final(w), ids.s@),
"""),
    # warm_up_repo: one backend warm_up call per id (thread pool: each spawned task ASSUMED to run exactly once)
    Unit(name="warm_up_repo_loop", file=WUF, kind="block", within="fn warm_up_repo<S>(",
         anchor="@closure:pool.in_place_scope(|scope|",
         block_sig="fn warm_up_repo_loop(ids: Vec<u64>, backend: &VBeU, tpe: FileTypeU, progress_bar_ref: &ProgressU, w: &mut ReqWorld)",
         block_tail="",
         functions=["repository::warm_up::warm_up_repo (the loop spawning one warm-up request per id)"],
         rewrites=[
             Rw(r"scope\.spawn\(move \|_\| \{(?P<b>.*)\}\);", r"{\g<b>}", regex=True, why="SEQUENTIALISED: scope.spawn(move |_| { body }) -> { body } (each task runs exactly once before the scope ends: rayon contract, ASSUMED)"),
             Rw("for id in ids {", "for id in itf: ids {", why="Verus for-loop syntax"),
             Rw("backend.warm_up(tpe, &id)", "backend.warm_up(tpe, &id, w)", why="ghost parameter: the requests made so far"),
         ],
         contract="""
    ensures
        forall|x: u64| old(w).requested@.contains(x) ==> final(w).requested@.contains(x),
        /*@one_request_per_id*/ forall|i: int| 0 <= i < ids@.len() ==> final(w).requested@.contains(#[trigger] ids@[i]),
""",
         loops={1: """
            invariant
                forall|x: u64| old(w).requested@.contains(x) ==> w.requested@.contains(x),
                forall|i: int| 0 <= i < itf.index@ ==> w.requested@.contains(#[trigger] ids@[i]),
"""}),
]

KANI = [
    Harness(M + "c16_write_bytes", functions=[HC + "write_bytes"], expect_stubs=1),
    Harness(M + "c16_remove", functions=[HC + "remove"], expect_stubs=1),
    Harness(M + "c16_list_from_cold", functions=[HC + "list_with_size"], expect_stubs=1),
    Harness(M + "c16_read_partial", functions=[HC + "read_partial"], expect_stubs=1),
    Harness(M + "c16_warm_up_cold", functions=[HC + "warm_up", HC + "needs_warm_up"], expect_stubs=1),
    Harness(M + "c16_create", functions=[HC + "create"], expect_stubs=1),
    Harness(M + "c16_read_full_data_pack", functions=[HC + "read_full"], expect_stubs=1),
    Harness(M + "c16_read_full_non_pack", functions=[HC + "read_full"], expect_stubs=1),
]
KANI_UNWIND = 2
KANI_ASSUMPTIONS = [
    "mock WriteBackend /verif/kani/mock_backend.rs stands for both stores (event log, symbolic per-operation failure)",
    "RusticError::new replaced by an allocation-free stub (kind kept, text dropped)",
    "ids symbolic in their first byte only; contents are 1 or 3 bytes in 1 or 2 fragments",
]
META = {
    "not_covered": [
        "repair hot/cold: get_missing_files (which files count as missing: closures, iterator adapters) and copy (rayon) -- stubs in the correct_missing_files unit",
        "WHICH packs PrunePlan::repack_packs, RestorePlan::to_packs / the read-data subset select (iterator chains); the ordering at the call sites of restore, check --read-data, repair index and prune IS decided",
        "equivalence with a single-store repository beyond single backend calls",
        "warm_up_command / warm_up_batch_singular / _plural (running the user's command: process spawning, placeholders, retries) -- a stub assumed to hand every id to the command; warm_up, warm_up_wait and the request loop of warm_up_repo ARE units",
    ],
}
