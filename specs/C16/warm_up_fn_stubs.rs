// ===== C16: warm_up / warm_up_wait / warm_up_repo themselves: every id handed in is requested =====
#[derive(Clone, Copy)]
pub struct FileTypeU { pub _opaque: u8 }
// the ids handed to warm_up(_wait): `impl ExactSizeIterator<Item = Id> + Clone` as a value with its sequence
pub struct IdsU { pub s: Ghost<Seq<u64>> }
impl IdsU {
    #[verifier::external_body]
    pub fn len(&self) -> (r: usize) ensures r == self.s@.len(), { unimplemented!() }
    #[verifier::external_body]
    pub fn clone(&self) -> (r: IdsU) ensures r.s@ == self.s@, { unimplemented!() }
}
// the requests that reached the cold store / the user's command so far
pub struct ReqWorld { pub requested: Ghost<Set<u64>> }
pub open spec fn all_requested(w: ReqWorld, ids: Seq<u64>) -> bool { forall|i: int| 0 <= i < ids.len() ==> w.requested@.contains(#[trigger] ids[i]) }
pub struct CommandInputU { pub _opaque: u64 }
#[derive(Clone, Copy)]
pub struct DurationU { pub _opaque: u64 }
pub struct RepoOptsU { pub warm_up_command: Option<CommandInputU>, pub warm_up_wait_command: Option<CommandInputU>, pub warm_up_wait: Option<DurationU>, pub warm_up_batch: Option<usize> }
pub struct VBeU { pub needs: bool }
impl VBeU {
    pub fn needs_warm_up(&self) -> (r: bool) ensures r == self.needs, { self.needs }
    // ReadBackend::warm_up(tpe, id): ONE request to the cold store (it may fail; the attempt is what is recorded)
    #[verifier::external_body]
    pub fn warm_up(&self, tpe: FileTypeU, id: &u64, w: &mut ReqWorld) -> (r: RusticResult<()>)
        ensures final(w).requested@ == old(w).requested@.insert(*id),
    { unimplemented!() }
}
pub struct VRepoU { pub opts: RepoOptsU, pub be: VBeU }
// warm_up_command (runs the user's command per batch of ids; process spawning, retries: not under contract):
// Ok => every id was handed to the command; a `Wait` invocation requests nothing
#[verifier::external_body]
pub fn warm_up_command(tpe: FileTypeU, ids: IdsU, command: &CommandInputU, repo: &VRepoU, ty: &WarmUpType, batch_size: usize, backend: &VBeU, w: &mut ReqWorld) -> (r: RusticResult<()>)
    ensures
        forall|x: u64| old(w).requested@.contains(x) ==> final(w).requested@.contains(x),
        r is Ok && *ty is WarmUp ==> all_requested(*final(w), ids.s@),
{ unimplemented!() }
// warm_up_repo seen through the contract proved for its loop (unit warm_up_repo_loop); thread pool creation may fail
#[verifier::external_body]
pub fn warm_up_repo(repo: &VRepoU, tpe: FileTypeU, ids: IdsU, w: &mut ReqWorld) -> (r: RusticResult<()>)
    ensures
        forall|x: u64| old(w).requested@.contains(x) ==> final(w).requested@.contains(x),
        r is Ok ==> all_requested(*final(w), ids.s@),
{ unimplemented!() }
// warm_up seen through its contract (unit warm_up_fn)
#[verifier::external_body]
pub fn warm_up(repo: &VRepoU, tpe: FileTypeU, ids: IdsU, w: &mut ReqWorld) -> (r: RusticResult<()>)
    ensures
        forall|x: u64| old(w).requested@.contains(x) ==> final(w).requested@.contains(x),
        r is Ok && (repo.opts.warm_up_command is Some || repo.be.needs) ==> all_requested(*final(w), ids.s@),
{ unimplemented!() }
#[verifier::external_body]
pub fn vsleep_for(wait: &DurationU, repo: &VRepoU) { unimplemented!() }
pub struct ProgressU { pub _opaque: u64 }
impl ProgressU {
    #[verifier::external_body]
    pub fn inc(&self, n: u64) { unimplemented!() }
}
