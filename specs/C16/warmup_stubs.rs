// ===== C16: warm-up is requested for the packs a command is about to read, BEFORE it reads them =====
// typestate: `warmed` = Repository::warm_up_wait returned Ok for the packs that are read afterwards
pub struct WarmWorld { pub warmed: Ghost<bool> }
pub struct VRepoW { pub _opaque: u64 }
pub struct VDestW { pub _opaque: u64 }
pub struct PathBufW { pub _opaque: u64 }
pub struct RestoreInfoW { pub _opaque: u64 }
pub struct HardlinksW { pub _opaque: u64 }
pub struct NodeStreamW { pub _opaque: u64 }
#[derive(Clone, Copy)]
pub enum SparseRestoreW { No, ByContent }
pub struct RestoreOptionsW { pub sparse: Option<SparseRestoreW> }
// (statistics of the plan: numbers only; carried so that code reading them stays inside the model)
pub struct FileDirStatsW { pub restore: u64, pub unchanged: u64, pub verified: u64, pub modify: u64, pub additional: u64 }
pub struct RestoreStatsW { pub files: FileDirStatsW, pub dirs: FileDirStatsW }
pub struct RestorePlanW { pub names: Vec<PathBufW>, pub file_lengths: Vec<u64>, pub r: RestoreInfoW, pub restore_size: u64, pub matched_size: u64, pub stats: RestoreStatsW, pub hardlink_candidates: HardlinksW }
impl RestorePlanW {
    // RestorePlan::to_packs: the packs of all blobs that are not taken from an existing file (iterator chain, not under contract)
    #[verifier::external_body]
    pub fn to_packs(&self) -> Vec<PackId> { unimplemented!() }
}
pub struct ProgressW2 { pub _opaque: u64 }
impl ProgressW2 {
    #[verifier::external_body]
    pub fn finish(&self) { unimplemented!() }
}
impl VRepoW {
    // warm_up_wait(ids): asks the cold store for the packs and waits (no-op without warm-up configuration)
    #[verifier::external_body]
    pub fn vwarm_up_wait(&self, packs: Vec<PackId>, w: &mut WarmWorld) -> (r: RusticResult<()>)
        ensures r is Ok ==> final(w).warmed@,
    { unimplemented!() }
    #[verifier::external_body]
    pub fn progress_spinner(&self, s: &str) -> ProgressW2 { unimplemented!() }
}
// restore_contents: reads the pack ranges of the plan.  PRECONDITION: their packs were warmed up
#[verifier::external_body]
pub fn vrestore_contents(repo: &VRepoW, dest: &VDestW, names: &Vec<PathBufW>, file_lengths: Vec<u64>, r: RestoreInfoW, restore_size: u64, sparse: SparseRestoreW, w: &WarmWorld) -> (res: RusticResult<()>)
    requires w.warmed@,
{ unimplemented!() }
#[verifier::external_body]
pub fn vrestore_metadata(node_streamer: NodeStreamW, hl: &HardlinksW, opts: RestoreOptionsW, dest: &VDestW) -> RusticResult<()> { unimplemented!() }
pub fn vsparse_or_default(s: Option<SparseRestoreW>) -> SparseRestoreW { match s { Some(x) => x, None => SparseRestoreW::No } }

// ---- check --read-data ----
pub struct IndexPackW { pub id: PackId }
#[verifier::external_body]
pub fn vpack_ids(packs: &Vec<IndexPackW>) -> (r: Vec<PackId>) ensures r@.len() == packs@.len(), { unimplemented!() }
// the rayon loop reading every selected pack in full.  PRECONDITION: warmed up
#[verifier::external_body]
pub fn vread_and_check_packs(packs: Vec<IndexPackW>, w: &WarmWorld)
    requires w.warmed@,
{ unimplemented!() }
#[verifier::external_body]
pub fn vapply_subset(packs: Vec<IndexPackW>) -> Vec<IndexPackW> { unimplemented!() }

// ---- prune: warm-up of the packs to repack before the repack reads them ----
pub struct PrunePlanW2 { pub _opaque: u64 }
impl PrunePlanW2 {
    // PrunePlan::repack_packs: the ids of the packs decided `Repack` (iterator chain, not under contract)
    #[verifier::external_body]
    pub fn repack_packs(&self) -> Vec<PackId> { unimplemented!() }
}
// ELIDED middle of prune_repository (unindexed packs, early index removal, the index rebuilding loop -- units of C02/C03):
// yields the list of packs to repack
#[verifier::external_body]
pub fn vplan_execution_elided(repo: &VRepoW, plan: PrunePlanW2) -> RusticResult<Vec<PackId>> { unimplemented!() }
#[verifier::external_body]
pub fn vfinalize_index_w() -> RusticResult<()> { unimplemented!() }
// the repack branch: reads the packs to repack from the (cold) store.  PRECONDITION: warmed up
#[verifier::external_body]
pub fn vrepack_w(packs: &Vec<PackId>, w: &WarmWorld) -> RusticResult<()>
    requires w.warmed@,
{ unimplemented!() }
pub struct ConfigW { pub append_only: Option<bool> }
impl VRepoW {
    #[verifier::external_body]
    pub fn config(&self) -> &ConfigW { unimplemented!() }
}
pub struct PruneOptsW2 { pub instant_delete: bool, pub early_delete_index: bool }
