// ===== C17: specification over the extracted collector / index types =====

pub open spec fn entries_of_pack(p: IndexPack, idx: u32) -> Seq<SortedEntry> {
    p.blobs@.map_values(|b: IndexBlob| SortedEntry { id: b.id, pack_idx: idx, location: b.location })
}
pub open spec fn ids_of_pack(p: IndexPack) -> Seq<BlobId> {
    p.blobs@.map_values(|b: IndexBlob| b.id)
}

// abstract state of the collector for ONE blob type
pub struct TcState {
    pub packs: Seq<(PackId, u32)>,
    pub full: Seq<SortedEntry>,     // meaningful if the variant is FullEntries
    pub ids: Seq<BlobId>,           // meaningful if the variant is Ids
    pub total: int,
}

impl EntriesVariants {
    spec fn full(&self) -> Seq<SortedEntry> { match self { EntriesVariants::FullEntries(es) => es@, _ => Seq::empty() } }
    spec fn ids(&self) -> Seq<BlobId> { match self { EntriesVariants::Ids(ids) => ids@, _ => Seq::empty() } }
    spec fn kind(&self) -> int { match self { EntriesVariants::None => 0, EntriesVariants::Ids(_) => 1, EntriesVariants::FullEntries(_) => 2 } }
}

impl TypeIndexCollector {
    spec fn state(&self) -> TcState {
        TcState { packs: self.packs@, full: self.entries.full(), ids: self.entries.ids(), total: self.total_size as int }
    }
}

// the collector state for type t after the first n packs of `packs` were fed into state s0
pub open spec fn fed(s0: TcState, packs: Seq<IndexPack>, t: BlobType, n: int) -> TcState
    decreases n
{
    if n <= 0 { s0 } else {
        let prev = fed(s0, packs, t, n - 1);
        let p = packs[n - 1];
        if pack_type_spec(p) == t {
            TcState {
                packs: prev.packs.push((p.id, pack_size_spec(p))),
                full: prev.full + entries_of_pack(p, prev.packs.len() as u32),
                ids: prev.ids + ids_of_pack(p),
                total: prev.total + pack_size_spec(p),
            }
        } else { prev }
    }
}

// resources: every intermediate pack count fits u32 and the size sum fits u64 (the code has an
// `expect` for the former; the latter is unchecked `+=`)
pub open spec fn fed_fits(s0: TcState, packs: Seq<IndexPack>, t: BlobType, n: int) -> bool {
    forall|k: int| 0 <= k <= n ==> fed(s0, packs, t, k).packs.len() <= 0xFFFF_FFFF && fed(s0, packs, t, k).total <= u64::MAX
}

pub open spec fn tc_matches(tc: TypeIndexCollector, s: TcState, kind: int) -> bool {
    &&& tc.entries.kind() == kind
    &&& tc.packs@ == s.packs
    &&& tc.total_size as int == s.total
    &&& (kind == 2 ==> tc.entries.full() == s.full)
    &&& (kind == 1 ==> tc.entries.ids() == s.ids)
}

// #[derive(Default)] of IndexCollector / TypeIndexCollector / EntriesVariants (derives are dropped by
// extraction): everything empty, variant None
fn vcollector_default() -> (r: IndexCollector)
    ensures
        r.0.tree.packs@.len() == 0 && r.0.tree.total_size == 0 && r.0.tree.entries.kind() == 0,
        r.0.data.packs@.len() == 0 && r.0.data.total_size == 0 && r.0.data.entries.kind() == 0,
{
    IndexCollector(BlobTypeMap {
        tree: TypeIndexCollector { packs: Vec::new(), entries: EntriesVariants::None, total_size: 0 },
        data: TypeIndexCollector { packs: Vec::new(), entries: EntriesVariants::None, total_size: 0 },
    })
}

impl TypeIndex {
    // representation invariant of the finished index for one type
    spec fn wf(&self) -> bool {
        &&& (self.entries.kind() == 2 ==> entries_sorted(self.entries.full())
                && forall|i: int| 0 <= i < self.entries.full().len() ==> (#[trigger] self.entries.full()[i]).pack_idx < self.packs@.len())
        &&& (self.entries.kind() == 1 ==> ids_sorted(self.entries.ids()))
    }
}
impl Index {
    spec fn wf(&self) -> bool { self.0.tree.wf() && self.0.data.wf() }
}

impl TypeIndexCollector {
    // every collected entry points at a pack that was pushed before it
    spec fn idx_ok(&self) -> bool {
        forall|i: int| 0 <= i < self.entries.full().len() ==> (#[trigger] self.entries.full()[i]).pack_idx < self.packs@.len()
    }
}

// =====================================================================================================
// Property-level layer (lemmas over the contracts above): "looking up a blob by type and id succeeds exactly
// when some index file lists that blob, and the returned pack / location are those of one such listing".
// `packs` = the packs handed to extend (the caller passes only packs NOT marked for deletion).
// =====================================================================================================
pub open spec fn blob_in_pack(p: IndexPack, id: BlobId, loc: BlobLocation) -> bool {
    exists|j: int| 0 <= j < p.blobs@.len() && (#[trigger] p.blobs@[j]).id == id && p.blobs@[j].location == loc
}
// some pack among the first n, filed under type t, with pack id pk, lists blob (id, loc)
pub open spec fn listed(packs: Seq<IndexPack>, t: BlobType, n: int, id: BlobId, pk: PackId, loc: BlobLocation) -> bool
    decreases n
{
    if n <= 0 { false } else {
        listed(packs, t, n - 1, id, pk, loc)
        || (pack_type_spec(packs[n - 1]) == t && packs[n - 1].id == pk && blob_in_pack(packs[n - 1], id, loc))
    }
}
pub open spec fn empty_state() -> TcState { TcState { packs: Seq::empty(), full: Seq::empty(), ids: Seq::empty(), total: 0 } }

// every collected entry IS a listing (soundness of the collector)
pub proof fn lemma_fed_sound(packs: Seq<IndexPack>, t: BlobType, n: int, i: int)
    requires
        0 <= n <= packs.len(), fed_fits(empty_state(), packs, t, n),
        0 <= i < fed(empty_state(), packs, t, n).full.len(),
    ensures ({
        let f = fed(empty_state(), packs, t, n);
        let e = f.full[i];
        e.pack_idx < f.packs.len() && listed(packs, t, n, e.id, f.packs[e.pack_idx as int].0, e.location)
    }),
    decreases n
{
    if n > 0 {
        let prev = fed(empty_state(), packs, t, n - 1);
        let p = packs[n - 1];
        assert(fed_fits(empty_state(), packs, t, n - 1));
        assert(prev.packs.len() <= 0xFFFF_FFFF);
        if pack_type_spec(p) == t {
            let f = fed(empty_state(), packs, t, n);
            if i < prev.full.len() {
                lemma_fed_sound(packs, t, n - 1, i);
                assert(f.full[i] == prev.full[i]);
                assert(f.packs[prev.full[i].pack_idx as int] == prev.packs[prev.full[i].pack_idx as int]);
            } else {
                let j = i - prev.full.len();
                let idx = prev.packs.len() as u32;
                assert(f.full[i] == entries_of_pack(p, idx)[j]);
                assert(entries_of_pack(p, idx)[j] == SortedEntry { id: p.blobs@[j].id, pack_idx: idx, location: p.blobs@[j].location });
                assert(f.packs[idx as int] == (p.id, pack_size_spec(p)));
                assert(blob_in_pack(p, p.blobs@[j].id, p.blobs@[j].location));
            }
        } else {
            lemma_fed_sound(packs, t, n - 1, i);
        }
    }
}

// every listing IS collected (completeness of the collector); returns the witness index
pub proof fn lemma_fed_complete(packs: Seq<IndexPack>, t: BlobType, n: int, id: BlobId, pk: PackId, loc: BlobLocation) -> (i: int)
    requires
        0 <= n <= packs.len(), fed_fits(empty_state(), packs, t, n),
        listed(packs, t, n, id, pk, loc),
    ensures ({
        let f = fed(empty_state(), packs, t, n);
        0 <= i < f.full.len() && f.full[i].id == id && f.full[i].location == loc
            && f.full[i].pack_idx < f.packs.len() && f.packs[f.full[i].pack_idx as int].0 == pk
    }),
    decreases n
{
    let prev = fed(empty_state(), packs, t, n - 1);
    let p = packs[n - 1];
    let f = fed(empty_state(), packs, t, n);
    assert(fed_fits(empty_state(), packs, t, n - 1));
    assert(prev.packs.len() <= 0xFFFF_FFFF);
    if listed(packs, t, n - 1, id, pk, loc) {
        let i0 = lemma_fed_complete(packs, t, n - 1, id, pk, loc);
        if pack_type_spec(p) == t {
            assert(f.full[i0] == prev.full[i0]);
            assert(f.packs[prev.full[i0].pack_idx as int] == prev.packs[prev.full[i0].pack_idx as int]);
        }
        i0
    } else {
        let j = choose|j: int| 0 <= j < p.blobs@.len() && (#[trigger] p.blobs@[j]).id == id && p.blobs@[j].location == loc;
        let idx = prev.packs.len() as u32;
        let i1 = prev.full.len() + j;
        assert(f.full[i1] == entries_of_pack(p, idx)[j]);
        assert(f.packs[idx as int] == (p.id, pack_size_spec(p)));
        i1
    }
}

// THE statement of C17 for the full index mode of one type: `ix` is what into_index produced from the
// collector state (a permutation of the collected entries, same pack table); then
//   * an entry with id exists in the index  <==>  some fed pack lists id          (lookup succeeds exactly when listed)
//   * every index entry denotes one such listing (pack id, location)                (what get_id returns is a listing)
pub proof fn theorem_lookup_iff_listed(packs: Seq<IndexPack>, t: BlobType, ix: Seq<SortedEntry>, id: BlobId)
    requires
        fed_fits(empty_state(), packs, t, packs.len() as int),
        ix.to_multiset() == fed(empty_state(), packs, t, packs.len() as int).full.to_multiset(),
    ensures
        (exists|i: int| 0 <= i < ix.len() && (#[trigger] ix[i]).id == id)
            <==> (exists|pk: PackId, loc: BlobLocation| listed(packs, t, packs.len() as int, id, pk, loc)),
        forall|i: int| 0 <= i < ix.len() ==> {
            let f = fed(empty_state(), packs, t, packs.len() as int);
            (#[trigger] ix[i]).pack_idx < f.packs.len()
                && listed(packs, t, packs.len() as int, ix[i].id, f.packs[ix[i].pack_idx as int].0, ix[i].location)
        },
{
    let n = packs.len() as int;
    let f = fed(empty_state(), packs, t, n);
    ix.to_multiset_ensures();
    f.full.to_multiset_ensures();
    // every index entry is a collected entry, hence a listing
    assert forall|i: int| 0 <= i < ix.len() implies
        (#[trigger] ix[i]).pack_idx < f.packs.len() && listed(packs, t, n, ix[i].id, f.packs[ix[i].pack_idx as int].0, ix[i].location) by {
        let e = ix[i];
        assert(ix.contains(e));
        assert(f.full.to_multiset().count(e) > 0);
        assert(f.full.contains(e));
        let k = choose|k: int| 0 <= k < f.full.len() && f.full[k] == e;
        lemma_fed_sound(packs, t, n, k);
    }
    // listed ==> found
    if exists|pk: PackId, loc: BlobLocation| listed(packs, t, n, id, pk, loc) {
        let (pk, loc) = choose|pk: PackId, loc: BlobLocation| listed(packs, t, n, id, pk, loc);
        let k = lemma_fed_complete(packs, t, n, id, pk, loc);
        let e = f.full[k];
        assert(f.full.contains(e));
        assert(ix.to_multiset().count(e) > 0);
        assert(ix.contains(e));
        let i = choose|i: int| 0 <= i < ix.len() && ix[i] == e;
        assert(ix[i].id == id);
    }
    // found ==> listed
    if exists|i: int| 0 <= i < ix.len() && (#[trigger] ix[i]).id == id {
        let i = choose|i: int| 0 <= i < ix.len() && (#[trigger] ix[i]).id == id;
        assert(listed(packs, t, n, ix[i].id, f.packs[ix[i].pack_idx as int].0, ix[i].location));
    }
}

// ---- PackIndexes (the iterator turning the index back into packs): the fields next()'s second half reads ----
pub struct PackIndexesV { pub c: Index, pub tpe: BlobType }
// IndexPack { id, ..Default::default() }: ASSUMED to be the pack with this id and nothing else
#[verifier::external_body]
pub fn vindexpack_with_id(id: PackId) -> (r: IndexPack)
    ensures r.id == id, r.blobs@.len() == 0, r.size is None,
{ unimplemented!() }
