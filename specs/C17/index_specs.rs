// ===== C17: specification over the extracted collector / index types =====

pub open spec fn entries_of_pack(p: IndexPack, idx: u32) -> Seq<SortedEntry> {
    p.blobs@.map_values(|b: IndexBlob| SortedEntry { id: b.id, pack_idx: idx, location: b.location })
}
pub open spec fn ids_of_pack(p: IndexPack) -> Seq<BlobId> {
    p.blobs@.map_values(|b: IndexBlob| b.id)
}

// abstract state of the collector for ONE blob type
pub struct TcState {
    pub packs: Seq<(PackId, u32)>,
    pub full: Seq<SortedEntry>,     // meaningful if the variant is FullEntries
    pub ids: Seq<BlobId>,           // meaningful if the variant is Ids
    pub total: int,
}

impl EntriesVariants {
    spec fn full(&self) -> Seq<SortedEntry> { match self { EntriesVariants::FullEntries(es) => es@, _ => Seq::empty() } }
    spec fn ids(&self) -> Seq<BlobId> { match self { EntriesVariants::Ids(ids) => ids@, _ => Seq::empty() } }
    spec fn kind(&self) -> int { match self { EntriesVariants::None => 0, EntriesVariants::Ids(_) => 1, EntriesVariants::FullEntries(_) => 2 } }
}

impl TypeIndexCollector {
    spec fn state(&self) -> TcState {
        TcState { packs: self.packs@, full: self.entries.full(), ids: self.entries.ids(), total: self.total_size as int }
    }
}

// the collector state for type t after the first n packs of `packs` were fed into state s0
pub open spec fn fed(s0: TcState, packs: Seq<IndexPack>, t: BlobType, n: int) -> TcState
    decreases n
{
    if n <= 0 { s0 } else {
        let prev = fed(s0, packs, t, n - 1);
        let p = packs[n - 1];
        if pack_type_spec(p) == t {
            TcState {
                packs: prev.packs.push((p.id, pack_size_spec(p))),
                full: prev.full + entries_of_pack(p, prev.packs.len() as u32),
                ids: prev.ids + ids_of_pack(p),
                total: prev.total + pack_size_spec(p),
            }
        } else { prev }
    }
}

// resources: every intermediate pack count fits u32 and the size sum fits u64 (the code has an
// `expect` for the former; the latter is unchecked `+=`)
pub open spec fn fed_fits(s0: TcState, packs: Seq<IndexPack>, t: BlobType, n: int) -> bool {
    forall|k: int| 0 <= k <= n ==> fed(s0, packs, t, k).packs.len() <= 0xFFFF_FFFF && fed(s0, packs, t, k).total <= u64::MAX
}

pub open spec fn tc_matches(tc: TypeIndexCollector, s: TcState, kind: int) -> bool {
    &&& tc.entries.kind() == kind
    &&& tc.packs@ == s.packs
    &&& tc.total_size as int == s.total
    &&& (kind == 2 ==> tc.entries.full() == s.full)
    &&& (kind == 1 ==> tc.entries.ids() == s.ids)
}

// #[derive(Default)] of IndexCollector / TypeIndexCollector / EntriesVariants (derives are dropped by
// extraction): everything empty, variant None
fn vcollector_default() -> (r: IndexCollector)
    ensures
        r.0.tree.packs@.len() == 0 && r.0.tree.total_size == 0 && r.0.tree.entries.kind() == 0,
        r.0.data.packs@.len() == 0 && r.0.data.total_size == 0 && r.0.data.entries.kind() == 0,
{
    IndexCollector(BlobTypeMap {
        tree: TypeIndexCollector { packs: Vec::new(), entries: EntriesVariants::None, total_size: 0 },
        data: TypeIndexCollector { packs: Vec::new(), entries: EntriesVariants::None, total_size: 0 },
    })
}

impl TypeIndex {
    // representation invariant of the finished index for one type
    spec fn wf(&self) -> bool {
        &&& (self.entries.kind() == 2 ==> entries_sorted(self.entries.full())
                && forall|i: int| 0 <= i < self.entries.full().len() ==> (#[trigger] self.entries.full()[i]).pack_idx < self.packs@.len())
        &&& (self.entries.kind() == 1 ==> ids_sorted(self.entries.ids()))
    }
}
impl Index {
    spec fn wf(&self) -> bool { self.0.tree.wf() && self.0.data.wf() }
}

impl TypeIndexCollector {
    // every collected entry points at a pack that was pushed before it
    spec fn idx_ok(&self) -> bool {
        forall|i: int| 0 <= i < self.entries.full().len() ==> (#[trigger] self.entries.full()[i]).pack_idx < self.packs@.len()
    }
}
