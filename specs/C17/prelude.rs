// ===== C17 prelude =====
use vstd::std_specs::core::*;

// Ids: only ==, copy and the derived total order (Ord for [u8; 32], lexicographic) are used by the
// units.  The 32-byte id is abstracted to a totally ordered key (ASSUMPTION: Ord/Eq of Id are a
// total order consistent with equality).
#[derive(Clone, Copy, PartialEq, Eq, Structural)]
pub struct BlobId(pub u64);
#[derive(Clone, Copy, PartialEq, Eq, Structural)]
pub struct PackId(pub u64);

#[derive(Clone, Copy, PartialEq, Eq, Structural)]
pub enum BlobType { Tree, Data } // keep-vis

#[derive(Clone, Copy, PartialEq, Eq, Structural)]
pub struct BlobLocation { pub offset: u32, pub length: u32, pub uncompressed_length: Option<u32> }

#[derive(Clone, Copy)]
pub struct IndexBlob { pub id: BlobId, pub tpe: BlobType, pub location: BlobLocation }

pub struct IndexPack { pub id: PackId, pub blobs: Vec<IndexBlob>, pub size: Option<u32> }

// size of a pack as the index file states it (or derives it from the blob list): uninterpreted
pub uninterp spec fn pack_size_spec(p: IndexPack) -> u32;
pub open spec fn pack_type_spec(p: IndexPack) -> BlobType {
    if p.blobs@.len() == 0 { BlobType::Data } else { p.blobs@[0].tpe }
}
impl IndexPack {
    #[verifier::external_body]
    pub fn pack_size(&self) -> (r: u32) ensures r == pack_size_spec(*self), { unimplemented!() }
}

pub struct IndexEntry { pub blob_type: BlobType, pub pack: PackId, pub location: BlobLocation }
impl IndexEntry {
    pub fn new(blob_type: BlobType, pack: PackId, location: BlobLocation) -> (r: Self)
        ensures r.blob_type == blob_type, r.pack == pack, r.location == location,
    { IndexEntry { blob_type, pack, location } }
}

// enum_map::EnumMap<BlobType, T> as a two-slot total map; indexing keeps its syntax
pub struct BlobTypeMap<T> { pub tree: T, pub data: T } // keep-vis
impl<T> BlobTypeMap<T> {
    pub open spec fn at(&self, b: BlobType) -> T { // keep-vis
        match b { BlobType::Tree => self.tree, BlobType::Data => self.data } }
}
impl<T> core::ops::Index<BlobType> for BlobTypeMap<T> {
    type Output = T;
    fn index(&self, b: BlobType) -> (r: &T) ensures *r == self.at(b),
    { match b { BlobType::Tree => &self.tree, BlobType::Data => &self.data } }
}
impl<T> IndexSpecImpl<BlobType> for BlobTypeMap<T> {
    open spec fn index_req(&self, b: &BlobType) -> bool { true }
}
impl<T> core::ops::IndexMut<BlobType> for BlobTypeMap<T> {
    fn index_mut(&mut self, b: BlobType) -> (r: &mut T)
        ensures *r == old(self).at(b),
                final(self).at(b) == *final(r),
                b is Tree ==> final(self).data == old(self).data,
                b is Data ==> final(self).tree == old(self).tree,
    { match b { BlobType::Tree => &mut self.tree, BlobType::Data => &mut self.data } }
}

// ---- std / rayon calls with ASSUMED contracts ----
pub open spec fn ids_sorted(s: Seq<BlobId>) -> bool { forall|i: int, j: int| 0 <= i <= j < s.len() ==> s[i].0 <= s[j].0 }
pub open spec fn entries_sorted(s: Seq<SortedEntry>) -> bool { forall|i: int, j: int| 0 <= i <= j < s.len() ==> s[i].id.0 <= s[j].id.0 }

// slice::binary_search_by_key(id, |e| e.id): REQUIRES sorted (std: "if the slice is not sorted, the
// returned result is unspecified") -- the requires is the obligation the structure invariant must pay
#[verifier::external_body]
pub fn vsearch_entries(v: &Vec<SortedEntry>, id: &BlobId) -> (r: Result<usize, usize>)
    requires entries_sorted(v@),
    ensures
        r matches Ok(i) ==> i < v@.len() && v@[i as int].id == *id,
        r is Err ==> forall|k: int| 0 <= k < v@.len() ==> v@[k].id != *id,
{ unimplemented!() }

#[verifier::external_body]
pub fn vsearch_ids(v: &Vec<BlobId>, id: &BlobId) -> (r: Result<usize, usize>)
    requires ids_sorted(v@),
    ensures
        r matches Ok(i) ==> i < v@.len() && v@[i as int] == *id,
        r is Err ==> forall|k: int| 0 <= k < v@.len() ==> v@[k] != *id,
{ unimplemented!() }

// rayon par_sort_unstable / par_sort_unstable_by_key: permutation + sorted
#[verifier::external_body]
pub fn vsort_ids(v: &mut Vec<BlobId>)
    ensures ids_sorted(final(v)@), final(v)@.to_multiset() == old(v)@.to_multiset(),
{ unimplemented!() }
#[verifier::external_body]
pub fn vsort_entries_by_id(v: &mut Vec<SortedEntry>)
    ensures entries_sorted(final(v)@), final(v)@.to_multiset() == old(v)@.to_multiset(),
{ unimplemented!() }

// packs.into_iter().map(|(id, _)| id).collect()
#[verifier::external_body]
pub fn vproject_pack_ids(v: Vec<(PackId, u32)>) -> (r: Vec<PackId>)
    ensures r@.len() == v@.len(), forall|i: int| 0 <= i < v@.len() ==> r@[i] == v@[i].0,
{ unimplemented!() }

// u32::try_from(n).expect(..): the panic becomes a precondition
pub fn vu32_try_from_expect(n: usize) -> (r: u32)
    requires n <= 0xFFFF_FFFF,
    ensures r == n,
{ n as u32 }

// ---- typed wrappers of ReadIndex (get_tree / get_data / has_tree / has_data) ----
#[derive(Clone, Copy, PartialEq, Eq, Structural)]
pub struct TreeId(pub u64);
#[derive(Clone, Copy, PartialEq, Eq, Structural)]
pub struct DataId(pub u64);
// BlobId::from(**id): same 32 bytes under another newtype
pub fn vblobid_of_tree(id: &TreeId) -> (r: BlobId) ensures r == BlobId(id.0), { BlobId(id.0) }
pub fn vblobid_of_data(id: &DataId) -> (r: BlobId) ensures r == BlobId(id.0), { BlobId(id.0) }

// ---- Vec::dedup (std contract, ASSUMED; PartialEq of the element type is structural equality here) ----
pub open spec fn dedup_seq<T>(s: Seq<T>) -> Seq<T> // keep-vis
    decreases s.len()
{
    if s.len() <= 1 { s } else {
        let r = dedup_seq(s.drop_last());
        if s[s.len() - 2] == s.last() { r } else { r.push(s.last()) }
    }
}
pub assume_specification<T: PartialEq, A: core::alloc::Allocator>[ Vec::<T, A>::dedup ](v: &mut Vec<T, A>)
    ensures final(v)@ == dedup_seq(old(v)@);

// <[IndexBlob]>::first (definition)
pub fn vfirst_blob(v: &Vec<IndexBlob>) -> (r: Option<&IndexBlob>)
    ensures v@.len() == 0 ==> r is None, v@.len() > 0 ==> r == Some(&v@[0]),
{ if v.len() == 0 { None } else { Some(&v[0]) } }
